(* Model/GCHist.v -- sequential histories of a table: commits (append / multi-operation / delete_files, as one
   generic commit step following Transaction._commit_file_ops), expire_snapshots, delete_snapshot, open
   transactions (begin + append_data without commit), planted orphans, arbitrary file ages, and collections
   with ANY table location, grace period, clock, abandonment timeout and fault oracle.  Definitions only.

   A commit step carries what the code derives: fresh (uuid) names, the manifests carried over from the CURRENT
   snapshot's list, the new manifests with their entries exactly as written ("/data/x", "data/x", "//data/x": the
   caller's spelling), which must name files that exist (validate_data_files / survivors of existing manifests).
   A step whose side conditions fail leaves the state unchanged (the library raises and rolls back). *)
From Coq Require Import ZArith List Bool String Ascii.
Require Import DS.Model.PyStr DS.Gen.GenNorm DS.Model.GC.
Import ListNotations.
Open Scope string_scope.
Open Scope Z_scope.

Record hstate := mkH { h_store : store; h_snaps : list (Z * string) (* id, manifest_list as written *); h_cur : option Z }.
Definition h_lists (h : hstate) : list string := map snd (h_snaps h).
Definition hinit : hstate := mkH [] [] None.

Definition has_key (k : key) (st : store) : bool := str_mem k (map fst st).

(* manifests (as written) of the current snapshot's list; [] when there is no current snapshot *)
Definition cur_manifests (h : hstate) : list string :=
  match h_cur h with
  | None => []
  | Some c =>
      match find (fun p => Z.eqb (fst p) c) (h_snaps h) with
      | None => []
      | Some p => if nonempty (snd p) then
                    match lookup (resolve (snd p)) (h_store h) with
                    | Some ob => match as_list (body ob) with Some ms => ms | None => [] end
                    | None => []
                    end
                  else []
      end
  end.

Definition man_key (n : string) : key := "metadata/manifests/" ++ n.
Definition data_key (n : string) : key := "data/" ++ n.

Inductive hop :=
| HCommit (sid : Z) (newdata : list (string * Z)) (newmans : list (string * list string * Z)) (kept : list string)
          (lname : string) (lmt : Z) (expire : option (Z -> bool))
| HExpire (keep : Z -> bool)
| HDeleteSnapshot (sid : Z)
| HOpenTx (name : string) (mt mmt : Z)
| HPlant (k : key) (garbage : bool) (mt : Z)
| HTouch (k : key) (mt : Z)
| HCollect (tp : string) (grace now timeout : Z) (o : oracle).

Definition new_objects (newdata : list (string * Z)) (newmans : list (string * list string * Z)) (kept : list string)
  (lname : string) (lmt : Z) : store :=
  (map (fun p => (data_key (fst p), mkObj (snd p) CData)) newdata
   ++ map (fun p => (man_key (fst (fst p)), mkObj (snd p) (CManifest FAvro (snd (fst p))))) newmans
   ++ [(man_key lname, mkObj lmt (CList FAvro (kept ++ map (fun p => man_key (fst (fst p))) newmans)))])%list.

(* Which entry paths a commit may name is what Transaction.append_files accepts: Gen/GenNorm.v append_accepts_path,
   REGENERATED from the source on every run (the path guards it applies to every file; Proofs/GCAcceptProofs.v derives
   "under data/" from it, for every normpath).  The model's store identifies a file with the literal string of its key --
   there is no second spelling of a key ("data//f", "data/./f" are other keys, and existence below is literal) -- so
   posixpath.normpath, which only tells such spellings apart, is instantiated by the identity.  This LITERAL machine serves the
   content theorems of C09 (Model/GCView.v); C05's history theorem is stated over Model/GCHistFS.v, where normpath and the backend's
   key function are abstract and the canonical-spelling half of the guard is used (every step there is a step of this machine or a
   refused commit: Proofs/GCHistFSProofs.v hstep_fs_refines). *)
Definition literal_normpath (s : string) : string := s.
Definition accepts (e : string) : bool := append_accepts_path literal_normpath e.

Definition valid_commit (h : hstate) (newdata : list (string * Z)) (newmans : list (string * list string * Z)) (kept : list string)
  (lname : string) (lmt : Z) : bool :=
  let news := new_objects newdata newmans kept lname lmt in
  nodupb (map fst news)
  && forallb (fun k => negb (has_key k (h_store h))) (map fst news)
  && forallb (fun p => forallb (fun e => accepts e
                                       && (has_key (resolve e) (h_store h) || str_mem (resolve e) (map (fun q => data_key (fst q)) newdata)))
                               (snd (fst p))) newmans
  && forallb (fun m => str_mem m (cur_manifests h)) kept.

Definition expire_snaps (keep : Z -> bool) (cur : option Z) (snaps : list (Z * string)) : list (Z * string) :=
  filter (fun p => keep (fst p) || match cur with Some c => Z.eqb (fst p) c | None => false end) snaps.

Definition touch (k : key) (mt : Z) (st : store) : store :=
  map (fun p => if String.eqb k (fst p) then (fst p, mkObj mt (body (snd p))) else p) st.

Definition hstep (h : hstate) (op : hop) : hstate :=
  match op with
  | HCommit sid newdata newmans kept lname lmt expire =>
      if valid_commit h newdata newmans kept lname lmt then
        let snaps := (h_snaps h ++ [(sid, man_key lname)])%list in
        mkH (new_objects newdata newmans kept lname lmt ++ h_store h)%list
            (match expire with Some keep => expire_snaps keep (Some sid) snaps | None => snaps end)
            (Some sid)
      else h
  | HExpire keep => mkH (h_store h) (expire_snaps keep (h_cur h) (h_snaps h)) (h_cur h)
  | HDeleteSnapshot sid =>
      let rest := filter (fun p => negb (Z.eqb (fst p) sid)) (h_snaps h) in
      mkH (h_store h) rest
          (match h_cur h with
           | Some c => if Z.eqb c sid then option_map fst (last (map Some rest) None) else Some c
           | None => None
           end)
  | HOpenTx name mt mmt =>
      let file := data_key name in
      let mk := register_marker_path file in
      if negb (has_char slash name) && negb (has_key file (h_store h)) && negb (has_key mk (h_store h)) then
        mkH ((mk, mkObj mmt (CMarker (Some (register_marker_payload file)))) :: (file, mkObj mt CData) :: h_store h) (h_snaps h) (h_cur h)
      else h
  | HPlant k garbage mt =>
      if (startswith "data/" k || startswith "metadata/manifests/" k) && negb (has_key k (h_store h)) then
        mkH ((k, mkObj mt (if garbage then CGarbage else CData)) :: h_store h) (h_snaps h) (h_cur h)
      else h
  | HTouch k mt => mkH (touch k mt (h_store h)) (h_snaps h) (h_cur h)
  | HCollect tp grace now timeout o =>
      mkH (g_store (r_final (gc_run tp grace now timeout o (h_lists h) (h_store h)))) (h_snaps h) (h_cur h)
  end.

Definition run_hist (ops : list hop) : hstate := fold_left hstep ops hinit.

(* the append of Table.append_records / Transaction.append_data as an instance of the generic commit *)
Definition spell (sp : nat) (p : string) : string :=
  match sp with O => "/" ++ p | S O => p | _ => "//" ++ p end.
Definition op_append (h : hstate) (sid : Z) (name : string) (sp : nat) (mname lname : string) (mt : Z) : hop :=
  HCommit sid [(name, mt)] [(mname, [spell sp (data_key name)], mt)] (cur_manifests h) lname mt None.

(* ---------------------------------------------------------------- every retained snapshot is fully present *)
Definition present (st : store) (k : key) : Prop := lookup k st <> None.
Definition snapshot_present (st : store) (l : string) : Prop :=
  nonempty l = true ->
  exists ms, list_at st (resolve l) ms /\
    forall m, In m ms -> nonempty m = true ->
      exists es, manifest_at st (resolve m) es /\ forall e, In e es -> present st (resolve e).

Definition hinv (h : hstate) : Prop :=
  wf_store (h_lists h) (h_store h) /\ forall l, In l (h_lists h) -> snapshot_present (h_store h) l.

(* decidable "every retained snapshot is fully present", evaluated by the harness on real table directories *)
Definition snapshot_presentb (st : store) (l : string) : bool :=
  negb (nonempty l) ||
  match lookup (resolve l) st with
  | Some ob =>
      match as_list (body ob) with
      | Some ms =>
          forallb (fun m => negb (nonempty m) ||
                     match lookup (resolve m) st with
                     | Some ob2 => match as_manifest (body ob2) with
                                   | Some es => forallb (fun e => has_key (resolve e) st) es
                                   | None => false
                                   end
                     | None => false
                     end) ms
      | None => false
      end
  | None => false
  end.
Definition hinvb (snaps : list string) (st : store) : bool :=
  wf_storeb snaps st && forallb (snapshot_presentb st) snaps.
