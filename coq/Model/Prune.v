(* Model/Prune.v -- file pruning by column bounds (filters.prune_files_by_bounds / _file_may_match,
   data_operations._compute_column_bounds) and the row-level meaning of a filter expression.

   The per-expression pruning decision is GenPrune.gen_try_body, regenerated from the source on
   every run; the loop skeleton around it is modelled here (and pinned by the translator's golden
   AST shape).  Definitions only. *)
From Coq Require Import ZArith QArith List Bool.
Require Import DS.Model.Value DS.Gen.GenPrune.
Import ListNotations.
Open Scope Z_scope.

(* A filter expression: column name (canonicalised to a number), operator, scalar literal
   (EQ..GE) and list literal (IN / NOT_IN). *)
Record fexpr := { fcol : Z; fop_ : fop; fsval : value; flval : list value }.

Fixpoint lookup {A} (k : Z) (l : list (Z * A)) : option A :=
  match l with
  | [] => None
  | (k', v) :: l' => if k =? k' then Some v else lookup k l'
  end.

(* _file_may_match: lo/hi are the file's decoded bounds by field id, ids maps column name -> field id *)
Fixpoint file_may_match (lo hi : list (Z * value)) (ids : list (Z * Z)) (es : list fexpr) : bool :=
  match es with
  | [] => true
  | e :: es' =>
    match lookup (fcol e) ids with
    | None => file_may_match lo hi ids es'                      (* unknown column: continue *)
    | Some cid =>
      match lookup cid lo, lookup cid hi with
      | Some fmin, Some fmax =>
        match gen_try_body (fop_ e) fmin fmax (fsval e) (flval e) with
        | Some false => false                                    (* return False *)
        | _ => file_may_match lo hi ids es'                      (* fell through, or TypeError: continue *)
        end
      | _, _ => file_may_match lo hi ids es'                     (* no bounds: continue *)
      end
    end
  end.

(* prune_files_by_bounds *)
Definition prune {F} (bounds : F -> list (Z * value) * list (Z * value)) (ids : list (Z * Z))
           (es : list fexpr) (files : list F) : list F :=
  match es, files with
  | [], _ => files
  | _, [] => files
  | _, _ => filter (fun f => file_may_match (fst (bounds f)) (snd (bounds f)) ids es) files
  end.

(* ---- bounds as pc.min / pc.max(...).as_py() compute them ----
   NULLs are skipped; NaN is skipped unless every non-null value is NaN (then the bound is NaN);
   an all-NULL (or empty) column has no bound. *)
Definition ordinary (v : value) : bool := negb (is_null v) && negb (is_nan v).

Definition vmin (a b : value) : value := match py_lt b a with Some true => b | _ => a end.
Definition vmax (a b : value) : value := match py_lt a b with Some true => b | _ => a end.

Definition bounds_of (vs : list value) : option (value * value) :=
  match filter ordinary vs with
  | o :: os => Some (fold_left vmin os o, fold_left vmax os o)
  | [] => if existsb is_nan vs then Some (VFlt NaN, VFlt NaN) else None
  end.

(* ---- what a filter expression selects (SQL three-valued semantics; TRUE rows only) ----
   `selected` is the exact mathematical reading.  pyarrow either evaluates to exactly this or raises
   (kernel/type mismatch, lossy cast) -- assumption PA-exact, validated against real pyarrow by the
   correspondence harness. *)
(* How is_in matches a cell against one element of the value set.  pyarrow first CASTS the value
   set to the column type: exact for ints, strings and temporal kinds, lossy when a float is
   involved (0.1 -> float32(0.1); NaN matches NaN) or when exactly one side is a bool (5.5 -> True).
   In the lossy cases the outcome is the oracle X, about which the theorems assume nothing. *)
Definition cast_lossy (cell w : value) : bool :=
  is_float cell || is_float w || xorb (is_bool cell) (is_bool w).

Definition in_eq (X : value -> value -> bool) (cell w : value) : bool :=
  if cast_lossy cell w then X cell w else py_eqb cell w.

Definition selected (X : value -> value -> bool) (op : fop) (cell sval : value) (lval : list value) : bool :=
  match op with
  | IS_NULL => is_null cell
  | IS_NOT_NULL => negb (is_null cell)
  | _ =>
    if is_null cell then false else
    match op with
    | EQ => negb (is_null sval) && py_eqb cell sval
    | NE => negb (is_null sval) && negb (py_eqb cell sval)
    | LT => match py_lt cell sval with Some b => b | None => false end
    | LE => match py_le cell sval with Some b => b | None => false end
    | GT => match py_gt cell sval with Some b => b | None => false end
    | GE => match py_ge cell sval with Some b => b | None => false end
    | IN => existsb (fun w => negb (is_null w) && in_eq X cell w) lval
    | NOT_IN => negb (existsb (fun w => negb (is_null w) && in_eq X cell w) lval)
    | _ => false
    end
  end.

(* rows: column name -> cell *)
Definition row := list (Z * value).
Definition cell (r : row) (c : Z) : value := match lookup c r with Some v => v | None => VNull end.

Definition row_selected (X : value -> value -> bool) (es : list fexpr) (r : row) : bool :=
  forallb (fun e => selected X (fop_ e) (cell r (fcol e)) (fsval e) (flval e)) es.

(* bounds of a file (list of rows) for a schema (column name -> field id) *)
Definition column (rows : list row) (c : Z) : list value := map (fun r => cell r c) rows.

Fixpoint file_bounds (schema : list (Z * Z)) (rows : list row) : list (Z * value) * list (Z * value) :=
  match schema with
  | [] => ([], [])
  | (c, id) :: sch =>
    let (lo, hi) := file_bounds sch rows in
    match bounds_of (column rows c) with
    | Some (mn, mx) => ((id, mn) :: lo, (id, mx) :: hi)
    | None => (lo, hi)
    end
  end.

(* kinds: an Arrow column holds values of one kind (or NULL) *)
Inductive kind := KBool | KInt | KFlt | KStr | KTs | KDate | KTime.
Definition kind_of (v : value) : option kind :=
  match v with
  | VNull => None | VBool _ => Some KBool | VInt _ => Some KInt | VFlt _ => Some KFlt
  | VStr _ => Some KStr | VTs _ => Some KTs | VDate _ => Some KDate | VTime _ => Some KTime
  end.
Definition kind_eqb (a b : kind) : bool :=
  match a, b with
  | KBool, KBool | KInt, KInt | KFlt, KFlt | KStr, KStr | KTs, KTs | KDate, KDate | KTime, KTime => true
  | _, _ => false
  end.
Definition has_kind (k : kind) (v : value) : bool :=
  match kind_of v with None => true | Some k' => kind_eqb k k' end.
Definition homogeneous (vs : list value) : Prop := exists k, forall v, In v vs -> has_kind k v = true.
