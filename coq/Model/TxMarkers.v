(* Model/TxMarkers.v -- the in-flight marker ledger of ONE transaction through any number of lost commit attempts (C06).
   (transaction.py: append_data, append_files / _protect_adopted_files, _register_inflight, commit (retry loop),
    _commit_file_ops, _finish_committed, _rollback.)

   Model/GCRace.v follows single FILES and lets a file be published (TFlip) only while it is marked (TWritten); this
   machine is the transaction's side of that contract: which markers the transaction HOLDS (`self._inflight_markers`)
   against which files it is GOING TO PUBLISH -- the data files it wrote, the pre-built files it adopted (of any age:
   nothing but the marker protects an old, still unreferenced file), and the manifests / manifest list of the attempt in
   progress -- at every point between begin and the end of the transaction, in particular after an attempt LOST the OCC
   race and before / while the retry runs, when a collection run may come at any step.

   What the code does at the points that matter is not written down by hand but REGENERATED (Gen/GenTxMarkers.v) and
   handed to the machine as `xkernels`: does append_data register before it writes, does append_files protect before it
   queues, does an attempt register its manifests, and does anything reachable from the RETRY arm of commit's conflict
   handler drop markers.  A retry arm that drops is modelled as dropping EVERYTHING the transaction holds (the worst the
   syntactic classification allows).  Definitions only; proofs in Proofs/TxMarkersProofs.v. *)
From Coq Require Import List Bool Arith.
Require Import DS.Gen.GenTxMarkers.
Import ListNotations.

Record xkernels := { k_write_protects : bool; k_adopt_protects : bool; k_attempt_protects : bool; k_retry_drops : bool }.

Definition gen_xkernels : xkernels :=
  {| k_write_protects := gen_write_protects; k_adopt_protects := gen_adopt_protects;
     k_attempt_protects := gen_attempt_protects; k_retry_drops := gen_retry_arm_drops |}.

Inductive xphase := XOpen | XFlipped | XDone | XRolled.

Record xtx := {
  x_phase : xphase;
  x_markers : list nat;      (* files whose marker the transaction holds (self._inflight_markers) *)
  x_written : list nat;      (* data files it wrote (self._written_files) *)
  x_queued : list nat;       (* data files of its queued append operations: written and adopted *)
  x_attempt : list nat;      (* manifests / manifest list of the commit attempt in progress *)
  x_lost : nat;              (* ghost: attempts that lost the race so far *)
  x_published : list nat;    (* files the committed snapshot references *)
  x_bare : list nat }.       (* ghost: files that were payload at some step while the transaction held no marker for them *)

Inductive xevent :=
| XWrite (f : nat)           (* append_data: marker, data file, queued *)
| XAdopt (f : nat)           (* append_files of a pre-built file that went through: marker (unless held already), queued *)
| XRefuse (f : nat)          (* append_files refused (collection announced / file gone): its new marker is taken back, nothing queued *)
| XAttempt (m : nat)         (* a commit attempt writes a manifest / manifest list under a marker *)
| XConflict                  (* the attempt lost the OCC race; the retry arm runs; a new attempt follows *)
| XCommit                    (* the pointer write of the attempt took effect *)
| XFinish                    (* _finish_committed: all markers removed *)
| XRollback.                 (* _rollback: the transaction gives up, markers removed *)

Definition memb (f : nat) (l : list nat) : bool := existsb (Nat.eqb f) l.
Definition hold (f : nat) (l : list nat) : list nat := if memb f l then l else f :: l.
Definition uncovered (payload markers : list nat) : list nat := filter (fun f => negb (memb f markers)) payload.
Definition x_payload (s : xtx) : list nat := x_queued s ++ x_attempt s.

Definition mk (p : xphase) (mkrs wr qu att : list nat) (lost : nat) (pub bare : list nat) : xtx :=
  {| x_phase := p; x_markers := mkrs; x_written := wr; x_queued := qu; x_attempt := att; x_lost := lost;
     x_published := pub; x_bare := bare |}.

Definition xstep (k : xkernels) (s : xtx) (e : xevent) : option xtx :=
  match x_phase s with
  | XOpen =>
    match e with
    | XWrite f =>
      let mkrs := if k_write_protects k then hold f (x_markers s) else x_markers s in
      Some (mk XOpen mkrs (f :: x_written s) (f :: x_queued s) (x_attempt s) (x_lost s) (x_published s)
               (x_bare s ++ uncovered (f :: x_payload s) mkrs))
    | XAdopt f =>
      let mkrs := if k_adopt_protects k then hold f (x_markers s) else x_markers s in
      Some (mk XOpen mkrs (x_written s) (f :: x_queued s) (x_attempt s) (x_lost s) (x_published s)
               (x_bare s ++ uncovered (f :: x_payload s) mkrs))
    | XRefuse f =>
      (* the marker written for f is removed again -- unless the transaction held one for f before (a file it wrote) *)
      Some s
    | XAttempt m =>
      let mkrs := if k_attempt_protects k then hold m (x_markers s) else x_markers s in
      Some (mk XOpen mkrs (x_written s) (x_queued s) (m :: x_attempt s) (x_lost s) (x_published s)
               (x_bare s ++ uncovered (m :: x_payload s) mkrs))
    | XConflict =>
      (* the lost attempt's manifests are no longer payload (they keep their markers until the end); the data files are *)
      let mkrs := if k_retry_drops k then [] else x_markers s in
      Some (mk XOpen mkrs (x_written s) (x_queued s) [] (S (x_lost s)) (x_published s)
               (x_bare s ++ uncovered (x_queued s) mkrs))
    | XCommit =>
      Some (mk XFlipped (x_markers s) (x_written s) (x_queued s) (x_attempt s) (x_lost s) (x_payload s)
               (x_bare s ++ uncovered (x_payload s) (x_markers s)))
    | XRollback => Some (mk XRolled [] [] [] [] (x_lost s) (x_published s) (x_bare s))
    | XFinish => None
    end
  | XFlipped =>
    match e with
    | XFinish => Some (mk XDone [] [] (x_queued s) (x_attempt s) (x_lost s) (x_published s) (x_bare s))
    | _ => None
    end
  | XDone | XRolled => None
  end.

Definition xstep_skip k s e := match xstep k s e with Some s' => s' | None => s end.
Definition xrun (k : xkernels) (s : xtx) (evs : list xevent) : xtx := fold_left (xstep_skip k) evs s.
Fixpoint xrun_strict (k : xkernels) (s : xtx) (evs : list xevent) (i : nat) : xtx + nat :=
  match evs with
  | [] => inl s
  | e :: r => match xstep k s e with Some s' => xrun_strict k s' r (S i) | None => inr i end
  end.

Definition xinit : xtx := mk XOpen [] [] [] [] 0 [] [].

Definition kernels_ok (k : xkernels) : Prop :=
  k_write_protects k = true /\ k_adopt_protects k = true /\ k_attempt_protects k = true /\ k_retry_drops k = false.
