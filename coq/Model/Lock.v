(* Model/Lock.v -- the conditional-write S3 lock (src/datashard/lock_provider.py:
   S3LockProviderBase.acquire / is_held / release, S3LockProvider._try_acquire /
   _try_takeover_expired / _renew_once).  Definitions only.

   The lock object is `obj : option lobj` (owner = the lock_id written as body, etag, LastModified).
   The store is strongly consistent and every request is atomic:
     PutIfAbsent (If-None-Match), Head, PutIfMatch e (If-Match), Get, Delete (UNCONDITIONAL).
   ETags are fresh on every write; LastModified is the (single, skew-free) virtual clock `snow`, which
   moves only by STick and by sleeps.  Each request carries a fault chosen by the environment:
     FNone       served;
     FTransient  ClientError with a retryable code, request had no effect;
     FPermanent  ClientError with a permanent code (AccessDenied ...), no effect;
     FLost       the request took effect on the store but the client saw a retryable ClientError.
   Clients execute one primitive per SStep (yield points of harness/lib/coop.py: every S3 request,
   time.time, datetime.now, time.sleep); the heartbeat thread is the event SRenew = ONE ITERATION of
   _heartbeat_loop (the `if not self.is_locked: break` guard, then one _renew_once); the wait between two
   iterations is STick.  A renewal that fails without a verdict (FTransient / FPermanent, or FLost as the
   client sees it) changes NOTHING in the client's record -- is_locked stays True, the loop keeps ticking,
   and no field remembers "a heartbeat ran": is_held() has no cache and always reads the object, so a
   holder whose renewals fail until the lease lapses and who is then taken over answers False
   (C19_s3_superseded holds for every number of such SRenew events).
   Time is in milliseconds.

   Environment (event SEnv, may change at any moment of a run: TZ / tzset / a DST switch; a different
   endpoint or client library): `zone` = the process's local UTC offset; `lmrep` = how the head reply's
   LastModified is rendered as a datetime object (aware at some utcoffset, or naive).  The reply keeps the
   rendering it was built with (QAge's third argument).  The age test is the kernel regenerated from
   _try_takeover_expired (Gen/GenLockAge.v: takeover_age over Model/PyTime.v, takeover_keeps); an
   expression that raises (aware minus naive: TypeError) ends acquire() with that exception. *)
From Coq Require Import ZArith NArith List Bool.
Require Import DS.Model.PyTime DS.Gen.GenLockAge.
Import ListNotations.
Open Scope Z_scope.

Definition updN {A} (f : N -> A) (k : N) (v : A) : N -> A := fun x => if N.eqb x k then v else f x.

Record lobj := { owner : N; etag : N; lm : Z }.

Inductive fault := FNone | FTransient | FPermanent | FLost.

Inductive sres := SNone | SOk | STimeout | SRaised | STrue | SFalse | SReleased.

Inductive spc :=
| QIdle
| QStart                      (* acquire(): start_time = time.time() *)
| QCreate                     (* _try_acquire: put_object(IfNoneMatch=star) *)
| QHead                       (* _try_takeover_expired: head_object *)
| QAge (l : Z) (e : N) (r : option Z)  (* age = datetime.now(utc) - LastModified (rendered by r); if age <= lease: return False *)
| QTake (l : Z) (e : N)       (* put_object(IfMatch=etag) *)
| QTimeChk                    (* if time.time() - start_time >= timeout: raise TimeoutError *)
| QSleep (until : Z)          (* time.sleep(random.uniform(0.3, 0.9)) *)
| QHeldGet (second : bool)    (* is_held(): get_object, attempt 0 / 1 *)
| QHeldSleep (until : Z)      (* is_held(): time.sleep(0.2) between the attempts *)
| QRelGet                     (* release(): get_object *)
| QRelDel.                    (* release(): delete_object -- unconditional *)

Inductive scall := CAcquire (timeout : Z) | CIsHeld | CRelease.

Record sclient := {
  s_alive : bool;
  s_pc : spc;
  is_locked : bool;             (* self.is_locked *)
  my_etag : option N;           (* self._etag *)
  hb : bool;                    (* heartbeat thread running *)
  s_timeout : Z;
  s_start : Z;                  (* start_time *)
  s_res : sres;                 (* outcome of the last completed call *)
  (* ghost *)
  last_write : Z;               (* time of the last create/takeover/renew whose reply this client saw *)
  last_t : Z;                   (* latest time.time() reading of this acquire() *)
  t_prev : Z;                   (* the reading before the one that raised TimeoutError *)
  t_ret : Z;                    (* the reading at which TimeoutError was raised *)
  s_maxgap : Z                  (* largest distance between two consecutive readings *)
}.

Definition sclient0 : sclient :=
  {| s_alive := true; s_pc := QIdle; is_locked := false; my_etag := None; hb := false; s_timeout := 0;
     s_start := 0; s_res := SNone; last_write := 0; last_t := 0; t_prev := 0; t_ret := 0; s_maxgap := 0 |}.

Definition q_pc (c : sclient) (p : spc) : sclient :=
  {| s_alive := s_alive c; s_pc := p; is_locked := is_locked c; my_etag := my_etag c; hb := hb c;
     s_timeout := s_timeout c; s_start := s_start c; s_res := s_res c; last_write := last_write c;
     last_t := last_t c; t_prev := t_prev c; t_ret := t_ret c; s_maxgap := s_maxgap c |}.

Definition q_ret (c : sclient) (r : sres) : sclient :=
  {| s_alive := s_alive c; s_pc := QIdle; is_locked := is_locked c; my_etag := my_etag c; hb := hb c;
     s_timeout := s_timeout c; s_start := s_start c; s_res := r; last_write := last_write c;
     last_t := last_t c; t_prev := t_prev c; t_ret := t_ret c; s_maxgap := s_maxgap c |}.

(* acquire() succeeded: _etag = resp ETag; is_locked = True; _start_heartbeat(); return True *)
Definition q_won (c : sclient) (e : N) (t : Z) : sclient :=
  {| s_alive := s_alive c; s_pc := QIdle; is_locked := true; my_etag := Some e; hb := true;
     s_timeout := s_timeout c; s_start := s_start c; s_res := SOk; last_write := t;
     last_t := last_t c; t_prev := t_prev c; t_ret := t_ret c; s_maxgap := s_maxgap c |}.

Definition q_renewed (c : sclient) (e : N) (t : Z) : sclient :=
  {| s_alive := s_alive c; s_pc := s_pc c; is_locked := is_locked c; my_etag := Some e; hb := hb c;
     s_timeout := s_timeout c; s_start := s_start c; s_res := s_res c; last_write := t;
     last_t := last_t c; t_prev := t_prev c; t_ret := t_ret c; s_maxgap := s_maxgap c |}.

(* is_locked = False (renewal refused / is_held saw a foreign body) *)
Definition q_lost (c : sclient) : sclient :=
  {| s_alive := s_alive c; s_pc := s_pc c; is_locked := false; my_etag := my_etag c; hb := hb c;
     s_timeout := s_timeout c; s_start := s_start c; s_res := s_res c; last_write := last_write c;
     last_t := last_t c; t_prev := t_prev c; t_ret := t_ret c; s_maxgap := s_maxgap c |}.

Definition q_hb (c : sclient) (b : bool) : sclient :=
  {| s_alive := s_alive c; s_pc := s_pc c; is_locked := is_locked c; my_etag := my_etag c; hb := b;
     s_timeout := s_timeout c; s_start := s_start c; s_res := s_res c; last_write := last_write c;
     last_t := last_t c; t_prev := t_prev c; t_ret := t_ret c; s_maxgap := s_maxgap c |}.

(* end of release(): is_locked = False; _etag = None *)
Definition q_released (c : sclient) : sclient :=
  {| s_alive := s_alive c; s_pc := QIdle; is_locked := false; my_etag := None; hb := hb c;
     s_timeout := s_timeout c; s_start := s_start c; s_res := SReleased; last_write := last_write c;
     last_t := last_t c; t_prev := t_prev c; t_ret := t_ret c; s_maxgap := s_maxgap c |}.

Definition q_dead (c : sclient) : sclient :=
  {| s_alive := false; s_pc := s_pc c; is_locked := is_locked c; my_etag := my_etag c; hb := hb c;
     s_timeout := s_timeout c; s_start := s_start c; s_res := s_res c; last_write := last_write c;
     last_t := last_t c; t_prev := t_prev c; t_ret := t_ret c; s_maxgap := s_maxgap c |}.

Definition q_begin (c : sclient) (tmo : Z) : sclient :=
  {| s_alive := s_alive c; s_pc := QStart; is_locked := is_locked c; my_etag := my_etag c; hb := hb c;
     s_timeout := tmo; s_start := 0; s_res := SNone; last_write := last_write c;
     last_t := 0; t_prev := 0; t_ret := 0; s_maxgap := 0 |}.

Definition q_started (c : sclient) (t : Z) : sclient :=
  {| s_alive := s_alive c; s_pc := QCreate; is_locked := is_locked c; my_etag := my_etag c; hb := hb c;
     s_timeout := s_timeout c; s_start := t; s_res := SNone; last_write := last_write c;
     last_t := t; t_prev := t; t_ret := 0; s_maxgap := 0 |}.

Definition q_timechk (c : sclient) (t : Z) (p : spc) (r : sres) : sclient :=
  {| s_alive := s_alive c; s_pc := p; is_locked := is_locked c; my_etag := my_etag c; hb := hb c;
     s_timeout := s_timeout c; s_start := s_start c; s_res := r; last_write := last_write c;
     last_t := t; t_prev := last_t c; t_ret := t; s_maxgap := Z.max (s_maxgap c) (t - last_t c) |}.

(* observations compared with the real run *)
Inductive reqk := KPutAbsent | KHead | KPutMatch (e : N) | KGet | KDelete.
Inductive rrep :=
| RpEtag (e : N)              (* PUT served: new ETag *)
| RpHead (l : Z) (e : N)      (* HEAD served: LastModified, ETag *)
| RpOwner (o : N)             (* GET served: body *)
| RpDone                      (* DELETE served *)
| RpPrecond                   (* 412 PreconditionFailed *)
| RpMissing                   (* 404 / NoSuchKey *)
| RpErr (f : fault).          (* injected ClientError *)

Inductive sobs :=
| SONop
| SOCall (c : N)
| SOTime (c : N) (t : Z)
| SOSleep (c : N) (t : Z)
| SOReq (c : N) (k : reqk) (r : rrep)
| SODie
| SOTick
| SOEnv.

Record sstate := {
  obj : option lobj;
  next_etag : N;
  snow : Z;
  zone : Z;               (* local UTC offset of the process (ms, east positive) *)
  lmrep : option Z;       (* rendering of LastModified in head replies: Some off = aware, None = naive *)
  scl : N -> sclient;
  late_delete : bool;    (* ghost: some release's DELETE landed after the releaser's own lease had lapsed *)
  strace : list (sobs * sres)
}.

Definition sinit : sstate :=
  {| obj := None; next_etag := 0%N; snow := 0; zone := 0; lmrep := Some 0; scl := fun _ => sclient0;
     late_delete := false; strace := [] |}.

Inductive sevent :=
| SCall (c : N) (k : scall)
| SStep (c : N) (f : fault) (jitter : Z)
| SRenew (c : N) (f : fault)
| STick (d : Z)
| SDie (c : N)
| SEnv (z : Z) (r : option Z).

Definition s_set (s : sstate) (o : option lobj) (ne : N) (t : Z) (c : N) (x : sclient) (ld : bool)
           (ob : sobs) (r : sres) : sstate :=
  {| obj := o; next_etag := ne; snow := t; zone := zone s; lmrep := lmrep s; scl := updN (scl s) c x;
     late_delete := ld; strace := (ob, r) :: strace s |}.

(* client-only change *)
Definition s_cl (s : sstate) (c : N) (x : sclient) (ob : sobs) (r : sres) : sstate :=
  s_set s (obj s) (next_etag s) (snow s) c x (late_delete s) ob r.

Definition s_log (s : sstate) (ob : sobs) : sstate :=
  {| obj := obj s; next_etag := next_etag s; snow := snow s; zone := zone s; lmrep := lmrep s; scl := scl s;
     late_delete := late_delete s; strace := (ob, SNone) :: strace s |}.

Definition fresh_obj (s : sstate) (c : N) : lobj := {| owner := c; etag := next_etag s; lm := snow s |}.

(* does the store apply a request carrying this fault? *)
Definition lands (f : fault) : bool := match f with FNone | FLost => true | _ => false end.

Definition etag_matches (s : sstate) (e : N) : bool :=
  match obj s with Some o => N.eqb (etag o) e | None => false end.

Definition in_release (p : spc) : bool := match p with QRelGet | QRelDel => true | _ => false end.

Definition sstep (cd : bool) (lease rsleep : Z) (s : sstate) (ev : sevent) : sstate :=
  match ev with
  | STick d => s_log {| obj := obj s; next_etag := next_etag s; snow := snow s + Z.max 0 d; zone := zone s;
                        lmrep := lmrep s; scl := scl s; late_delete := late_delete s; strace := strace s |} SOTick
  | SEnv z r => s_log {| obj := obj s; next_etag := next_etag s; snow := snow s; zone := z; lmrep := r;
                         scl := scl s; late_delete := late_delete s; strace := strace s |} SOEnv
  | SDie c => s_cl s c (q_dead (scl s c)) SODie SNone
  | SCall c k =>
    let x := scl s c in
    if s_alive x then
      match s_pc x with
      | QIdle =>
        match k with
        | CAcquire tmo => s_cl s c (q_begin x tmo) (SOCall c) SNone
        | CIsHeld =>
          if is_locked x then s_cl s c (q_pc (q_ret x SNone) (QHeldGet false)) (SOCall c) SNone
          else s_cl s c (q_ret x SFalse) (SOCall c) SFalse
        | CRelease =>
          if is_locked x then s_cl s c (q_pc (q_hb (q_ret x SNone) false) QRelGet) (SOCall c) SNone
          else s_cl s c (q_ret x SNone) (SOCall c) SNone
        end
      | _ => s_log s SONop
      end
    else s_log s SONop
  | SRenew c f =>
    let x := scl s c in
    if s_alive x && hb x && is_locked x then
      match my_etag x with
      | None => s_log s SONop
      | Some e =>
        match f with
        | FNone =>
          if etag_matches s e
          then s_set s (Some (fresh_obj s c)) (N.succ (next_etag s)) (snow s) c
                     (q_renewed x (next_etag s) (snow s)) (late_delete s)
                     (SOReq c (KPutMatch e) (RpEtag (next_etag s))) SNone
          else s_cl s c (q_lost x) (SOReq c (KPutMatch e) (match obj s with Some _ => RpPrecond | None => RpMissing end)) SNone
        | FLost =>
          if etag_matches s e
          then s_set s (Some (fresh_obj s c)) (N.succ (next_etag s)) (snow s) c x (late_delete s)
                     (SOReq c (KPutMatch e) (RpErr FLost)) SNone
          else s_cl s c x (SOReq c (KPutMatch e) (RpErr FLost)) SNone
        | _ => s_cl s c x (SOReq c (KPutMatch e) (RpErr f)) SNone
        end
      end
    else s_log s SONop
  | SStep c f j =>
    let x := scl s c in
    if s_alive x then
      match s_pc x with
      | QIdle => s_log s SONop
      | QStart => s_cl s c (q_started x (snow s)) (SOTime c (snow s)) SNone
      | QCreate =>
        match f with
        | FNone =>
          match obj s with
          | None => s_set s (Some (fresh_obj s c)) (N.succ (next_etag s)) (snow s) c
                          (q_won x (next_etag s) (snow s)) (late_delete s)
                          (SOReq c KPutAbsent (RpEtag (next_etag s))) SOk
          | Some _ => s_cl s c (q_pc x QHead) (SOReq c KPutAbsent RpPrecond) SNone
          end
        | FLost =>
          match obj s with
          | None => s_set s (Some (fresh_obj s c)) (N.succ (next_etag s)) (snow s) c
                          (q_ret x SRaised) (late_delete s) (SOReq c KPutAbsent (RpErr FLost)) SRaised
          | Some _ => s_cl s c (q_ret x SRaised) (SOReq c KPutAbsent (RpErr FLost)) SRaised
          end
        | _ => s_cl s c (q_ret x SRaised) (SOReq c KPutAbsent (RpErr f)) SRaised
        end
      | QHead =>
        match f with
        | FNone =>
          match obj s with
          | Some o => s_cl s c (q_pc x (QAge (lm o) (etag o) (lmrep s))) (SOReq c KHead (RpHead (lm o) (etag o))) SNone
          | None => s_cl s c (q_pc x QTimeChk) (SOReq c KHead RpMissing) SNone
          end
        | _ => s_cl s c (q_pc x QTimeChk) (SOReq c KHead (RpErr f)) SNone
        end
      | QAge l e r =>
        match takeover_age (zone s) (snow s) (dt_render r l) lease with
        | Some age =>
          if takeover_keeps age lease
          then s_cl s c (q_pc x QTimeChk) (SOTime c (snow s)) SNone
          else s_cl s c (q_pc x (QTake l e)) (SOTime c (snow s)) SNone
        | None => s_cl s c (q_ret x SRaised) (SOTime c (snow s)) SRaised
        end
      | QTake l e =>
        match f with
        | FNone =>
          if etag_matches s e
          then s_set s (Some (fresh_obj s c)) (N.succ (next_etag s)) (snow s) c
                     (q_won x (next_etag s) (snow s)) (late_delete s)
                     (SOReq c (KPutMatch e) (RpEtag (next_etag s))) SOk
          else s_cl s c (q_pc x QTimeChk)
                    (SOReq c (KPutMatch e) (match obj s with Some _ => RpPrecond | None => RpMissing end)) SNone
        | FLost =>
          if etag_matches s e
          then s_set s (Some (fresh_obj s c)) (N.succ (next_etag s)) (snow s) c
                     (q_ret x SRaised) (late_delete s) (SOReq c (KPutMatch e) (RpErr FLost)) SRaised
          else s_cl s c (q_ret x SRaised) (SOReq c (KPutMatch e) (RpErr FLost)) SRaised
        | _ => s_cl s c (q_ret x SRaised) (SOReq c (KPutMatch e) (RpErr f)) SRaised
        end
      | QTimeChk =>
        let t := snow s in
        if t - s_start x >=? s_timeout x
        then s_cl s c (q_timechk x t QIdle STimeout) (SOTime c t) STimeout
        else s_cl s c (q_timechk x t (QSleep (t + j)) SNone) (SOTime c t) SNone
      | QSleep u =>
        let t := Z.max (snow s) u in
        s_set s (obj s) (next_etag s) t c (q_pc x QCreate) (late_delete s) (SOSleep c t) SNone
      | QHeldGet second =>
        let retry := if second then s_cl s c (q_ret x SFalse) else s_cl s c (q_pc x (QHeldSleep (snow s + rsleep))) in
        let rr := if second then SFalse else SNone in
        match f with
        | FNone =>
          match obj s with
          | Some o =>
            if N.eqb (owner o) c then s_cl s c (q_ret x STrue) (SOReq c KGet (RpOwner (owner o))) STrue
            else s_cl s c (q_ret (q_lost x) SFalse) (SOReq c KGet (RpOwner (owner o))) SFalse
          | None => retry (SOReq c KGet RpMissing) rr
          end
        | FPermanent => s_cl s c (q_ret x SFalse) (SOReq c KGet (RpErr f)) SFalse
        | _ => retry (SOReq c KGet (RpErr f)) rr
        end
      | QHeldSleep u =>
        let t := Z.max (snow s) u in
        s_set s (obj s) (next_etag s) t c (q_pc x (QHeldGet true)) (late_delete s) (SOSleep c t) SNone
      | QRelGet =>
        match f with
        | FNone =>
          match obj s with
          | Some o =>
            if N.eqb (owner o) c then s_cl s c (q_pc x QRelDel) (SOReq c KGet (RpOwner (owner o))) SNone
            else s_cl s c (q_released x) (SOReq c KGet (RpOwner (owner o))) SReleased
          | None => s_cl s c (q_released x) (SOReq c KGet RpMissing) SReleased
          end
        | _ => s_cl s c (q_released x) (SOReq c KGet (RpErr f)) SReleased
        end
      | QRelDel =>
        (* cd = false: the code as it stands, DELETE is unconditional.
           cd = true : the repair studied in C19_s3_mutex_conditional_delete, DELETE If-Match: my _etag *)
        if lands f && (negb cd || match my_etag x with Some e => etag_matches s e | None => false end)
        then s_set s None (next_etag s) (snow s) c (q_released x)
                   (late_delete s || negb (snow s - last_write x <=? lease))
                   (SOReq c KDelete (match f with FNone => RpDone | _ => RpErr f end)) SReleased
        else s_cl s c (q_released x) (SOReq c KDelete (if lands f then RpPrecond else RpErr f)) SReleased
      end
    else s_log s SONop
  end.

Definition srun (cd : bool) (lease rsleep : Z) (s : sstate) (evs : list sevent) : sstate :=
  fold_left (sstep cd lease rsleep) evs s.

(* a holder that may rely on the lock: believes it holds, has not started releasing, and its lease
   (counted from the last create/takeover/renew it saw succeed) has not lapsed *)
Definition holder_live (lease : Z) (s : sstate) (c : N) : Prop :=
  s_alive (scl s c) = true /\ is_locked (scl s c) = true /\ in_release (s_pc (scl s c)) = false
  /\ snow s - last_write (scl s c) <= lease.

Definition holder_liveb (lease : Z) (s : sstate) (c : N) : bool :=
  s_alive (scl s c) && is_locked (scl s c) && negb (in_release (s_pc (scl s c)))
  && (snow s - last_write (scl s c) <=? lease).

(* FULL mutual-exclusion statement for the S3 lock *)
Definition s3_mutex_at (lease : Z) (s : sstate) : Prop :=
  forall c1 c2, holder_live lease s c1 -> holder_live lease s c2 -> c1 = c2.

Definition s3_mutex_full (cd : bool) (lease rsleep : Z) : Prop :=
  forall evs, s3_mutex_at lease (srun cd lease rsleep sinit evs).

(* projection used by the correspondence harness *)
Definition ssummary (lease : Z) (s : sstate) (cs : list N) :=
  (rev (strace s),
   map (fun c => (is_locked (scl s c), s_res (scl s c), holder_liveb lease s c)) cs,
   (match obj s with Some o => Some (owner o) | None => None end, snow s, late_delete s)).

(* ---- the environment is invisible (statement of C19_s3_environment_irrelevant) ----
   env_sim s1 s2: two states that differ at most in the process zone, in the current rendering of
   LastModified and in the utcoffset of head replies already in clients' hands -- same lock object, same
   ETag counter, same clock, same client records and program counters, same request / result trace. *)
Definition is_env (ev : sevent) : bool := match ev with SEnv _ _ => true | _ => false end.
Definition aware_ev (ev : sevent) : bool := match ev with SEnv _ None => false | _ => true end.
Definition strip_env (evs : list sevent) : list sevent := filter (fun ev => negb (is_env ev)) evs.

(* a head reply in hand: forget at which utcoffset its LastModified is written *)
Definition pc_norm (p : spc) : spc := match p with QAge l e (Some _) => QAge l e (Some 0) | _ => p end.
Definition cl_norm (x : sclient) : sclient := q_pc x (pc_norm (s_pc x)).
Definition not_env_obs (p : sobs * sres) : bool := match fst p with SOEnv => false | _ => true end.
Definition tr_norm (tr : list (sobs * sres)) : list (sobs * sres) := filter not_env_obs tr.

Record env_sim (s1 s2 : sstate) : Prop := {
  V_obj : obj s1 = obj s2;
  V_ne : next_etag s1 = next_etag s2;
  V_now : snow s1 = snow s2;
  V_ld : late_delete s1 = late_delete s2;
  V_cl : forall c, cl_norm (scl s1 c) = cl_norm (scl s2 c);
  V_tr : tr_norm (strace s1) = tr_norm (strace s2);
  V_r1 : lmrep s1 <> None;
  V_r2 : lmrep s2 <> None;
  V_p1 : forall c l e, s_pc (scl s1 c) <> QAge l e None;
  V_p2 : forall c l e, s_pc (scl s2 c) <> QAge l e None
}.

