(* Model/SchemaTx.v -- explicit transactions over the append machine of Model/Schema.v (property C11).

   Source anchors: transaction.py  Transaction.begin / append_data / append_files (per-file loop:
   _require_canonical_path, validate_file_exists, parquet-only, _validate_file_schema; then the bounds are
   verified, then _protect_adopted_files puts the pre-built files under GC protection -- in-flight markers,
   refusal while a collection run is announced, existence re-check, removal of the markers it wrote when
   anything fails --; the operation is queued AFTER all of that) / commit (empty transaction: no snapshot; otherwise one snapshot holding the
   base files plus every queued file) / rollback / _rollback (deletes the files this transaction wrote).

   A transaction is a handle, a list of calls -- each of which the caller may see raise and catch -- and
   an end: commit (succeeding or failing before the commit point), rollback, or nothing at all (the
   handle is abandoned).  Definitions only; proofs are in Proofs/SchemaTxProofs.v. *)
From Coq Require Import ZArith QArith List Bool.
Require Import DS.Model.Value DS.Gen.GenPrune DS.Model.Prune DS.Gen.GenSchema DS.Model.Schema.
Import ListNotations.
Open Scope Z_scope.

(* What ELSE the caller's DataFile says about the file -- claims, stored in the manifest entry unless the code verifies them:
     pc_stat_keys  the keys of the column_sizes / value_counts / null_value_counts maps as the caller wrote them: Some z -- a key
                   k with int(str(k)) = z; None -- a key whose str() does not read back as an int ("abc", 1.5, None, True):
                   manifests write str(k) and read int(k), so ONE such key stored makes every later read of the table raise
     pc_sum        DataFile.checksum: None -- not supplied; Some b -- supplied, and b says whether it IS the SHA-256 of the file
                   (reads verify every data file against its stored checksum)
     pc_count      DataFile.record_count as supplied (row_count() sums the stored counts) *)
Record pclaims := { pc_stat_keys : list (option Z); pc_sum : option bool; pc_count : Z }.
Definition no_claims : pclaims := {| pc_stat_keys := []; pc_sum := None; pc_count := 0 |}.

(* a pre-built data file handed to append_files *)
Record pfile := {
  pf_id : Z;                          (* its name *)
  pf_canonical : bool;                (* the path is in canonical table-relative form *)
  pf_exists : bool;                   (* the file is there *)
  pf_parquet : bool;                  (* DataFile.file_format is parquet *)
  pf_footer : option aschema;         (* its parquet footer schema; None: no readable footer *)
  pf_rows : list srow;
  pf_lo : option (list (Z * value));  (* DataFile.lower_bounds / upper_bounds as the CALLER supplied them *)
  pf_hi : option (list (Z * value));  (* (None: not supplied) -- a claim about the file, not a fact *)
  pf_claims : pclaims                 (* the other caller-supplied fields a manifest stores *)
}.

(* A condition that lasts exactly as long as one call (cleared before the transaction ends) -- a window of failing
   storage operations, or a collection run announcing itself:
     FBefore      metadata reads fail from the start of the call: _resolve_table_schema -- the first thing both
                  append_data and append_files do -- meets a failing refresh()
     FMarker      writes of in-flight markers fail: append_data meets the failure once its schema argument has
                  been checked, before anything is written; append_files meets it in its protection step -- every file
                  validated, nothing queued yet -- at the first pre-built file this transaction holds no marker for
     FAfterWrite  metadata reads fail once the call has written something: append_data has validated, written
                  its marker and its data file, and meets the failure when it queues the file (append_files
                  reads the metadata again); the first write of append_files itself is a marker, and nothing it does
                  afterwards reads table metadata: it is not affected
     FAnnounce    the listing of announced collection runs (metadata/collecting) fails: append_files, having written
                  its markers, meets the failure in collection_in_progress; append_data never looks (its file has
                  had its marker since before it existed: the protection step returns at once)
     FCollecting  no storage failure: a collection run is announced while the call runs (an announcement in force, or
                  one that cannot be read: it counts as a run).  append_files refuses to adopt pre-built files
                  (CollectionInProgressError); append_data is not concerned
     FRecheck     existence checks of data files fail once the call has written something: append_files meets the
                  failure when it re-checks the adopted files; append_data when the file it has just written is checked
                  by the append_files that queues it
   What the code does with such a failure is NOT written down here: it is read off the source on every run
   (Gen/GenSchema.v: resolve_refresh_propagates, marker_failure_propagates, queue_failure_propagates,
   files_exists_failure_propagates, and for the protection step adopt_marker_failure_propagates,
   adopt_listing_failure_propagates, adopt_refused_while_collecting, adopt_recheck_failure_propagates,
   adopt_cleanup_on_failure -- is the failing operation outside every try block, or only inside try blocks whose
   handlers re-raise, so that the exception reaches the caller?).  A handler around refresh() would turn
   "metadata unreadable" into "no persisted schema, nothing to enforce". *)
Inductive fault := FBefore | FMarker | FAfterWrite | FAnnounce | FCollecting | FRecheck.

(* the windows an append_data call can meet at all / those that belong to the protection step of append_files *)
Definition hits_records (ft : fault) : bool := match ft with FAnnounce | FCollecting => false | _ => true end.
Definition hits_protection (ft : fault) : bool := match ft with FMarker | FAnnounce | FCollecting | FRecheck => true | _ => false end.

Inductive call :=
| CRecords (arg : option ischema) (recs : list record)      (* tx.append_data(records, schema=arg) *)
| CFiles (fs : list pfile)                                   (* tx.append_files(fs) *)
| CRecordsF (ft : fault) (arg : option ischema) (recs : list record)    (* the same calls under a storage fault *)
| CFilesF (ft : fault) (fs : list pfile).

Inductive tend := EndCommit (ok : bool) | EndRollback | EndAbandon.
Record txn := { t_handle : Z; t_calls : list call; t_end : tend }.

(* result tags of a call: 0 accepted; 1..4 as Schema.outcome for records; 6 append_files refused *)
Definition tag_of (o : outcome) : Z :=
  match o with Accepted => 0 | RejNoSchema => 1 | RejSchema => 2 | RejRecords => 3 | RejConvert => 4 | RejCommit => 5 | RejFile => 6 end.
Definition tag_files_refused : Z := 6.
Definition tag_storage_fault : Z := 7.

Definition footer_of (p : pfile) : aschema := match pf_footer p with Some a => a | None => [] end.

(* Transaction._with_verified_bounds: bounds that come with a pre-built file are never stored as given.  A
   file without any keeps none; otherwise they are RECOMPUTED from the file's content under the table
   schema's field ids, exactly as append_data computes them (dropped on a table without a schema). *)
Definition verified_bounds (ts : option ischema) (p : pfile) : list (Z * value) * list (Z * value) :=
  match pf_lo p, pf_hi p with
  | None, None => ([], [])
  | _, _ => match ts with Some s => bounds_for (sfields s) (footer_of p) (pf_rows p) | None => ([], []) end
  end.
(* Transaction._with_verified_bounds, the other claims (pinned by translator/gen_schema.py check_more_pins).  What the manifest
   entry of an adopted file stores: the statistics maps are RECOMPUTED from the parquet footer under the table schema's field ids
   when the caller supplied any (dropped on a table without a schema) -- the caller's keys are never stored --; a supplied
   checksum is compared with the file's and the file REFUSED when it differs (claims_verifiable, part of check_files), so a
   stored checksum is the file's; the record count is the footer's, i.e. the number of rows.
   sc_stat_keys: the stored keys, as pc_stat_keys; sc_sum_ok: a checksum is stored and it is / is not the file's (None: none
   stored); sc_count: the stored record_count. *)
Record sclaims := { sc_stat_keys : list (option Z); sc_sum_ok : option bool; sc_count : Z }.
Definition claims_verifiable (p : pfile) : bool :=
  match pc_sum (pf_claims p) with Some false => false | _ => true end.
Definition stored_claims (ts : option ischema) (p : pfile) : sclaims :=
  {| sc_stat_keys := match pc_stat_keys (pf_claims p), ts with
                     | _ :: _, Some s => map (fun f => Some (fid f)) (sfields s)
                     | _, _ => []
                     end;
     sc_sum_ok := pc_sum (pf_claims p);
     sc_count := Z.of_nat (length (pf_rows p)) |}.
(* the UNREPAIRED behaviour (what the audit reproduced): every claim stored as given *)
Definition stored_claims_as_given (p : pfile) : sclaims :=
  {| sc_stat_keys := pc_stat_keys (pf_claims p); sc_sum_ok := pc_sum (pf_claims p); sc_count := pc_count (pf_claims p) |}.
(* a manifest entry every read can decode (every key reads back as an int), whose checksum -- if any -- the file passes, and
   whose count is the file's number of rows *)
Definition claims_sound (c : sclaims) (p : pfile) : bool :=
  forallb (fun k => match k with Some _ => true | None => false end) (sc_stat_keys c)
  && match sc_sum_ok c with Some false => false | _ => true end
  && (sc_count c =? Z.of_nat (length (pf_rows p))).

Definition to_dfile (ts : option ischema) (p : pfile) : dfile :=
  {| df_id := pf_id p; df_arrow := footer_of p; df_rows := pf_rows p;
     df_lo := fst (verified_bounds ts p); df_hi := snd (verified_bounds ts p) |}.

(* the transaction in progress: the queued data files of its append operations, in order, and the names
   of the data files it wrote itself (deleted again by _rollback) *)
Record txstate := { q_files : list dfile; q_written : list Z }.
Definition tx_empty : txstate := {| q_files := []; q_written := [] |}.

(* The files the transaction holds an in-flight marker for (Transaction._inflight_markers, by file name): the data
   files it wrote itself (append_data registers the marker before it writes) and the pre-built files it has adopted,
   i.e. queued.  A call that raised leaves the set as it was: the protection step removes the markers it wrote.
   (Not listed: the marker of an append_data call that raised between its marker and its data file -- no file of
   that name exists -- and a marker whose removal failed as well, which only extends the protection.) *)
Definition marked (q : txstate) : list Z := q_written q ++ map df_id (q_files q).

(* _protect_adopted_files, the loop: the files that get a marker now -- those the transaction holds none for yet,
   each once *)
Fixpoint unprotected (m : list Z) (fs : list pfile) : list Z :=
  match fs with
  | [] => []
  | p :: r => if existsb (Z.eqb (pf_id p)) m then unprotected m r else pf_id p :: unprotected (pf_id p :: m) r
  end.

(* _protect_adopted_files: None -- the files are protected and the call goes on to queue them; Some t -- the call
   raises with tag t, nothing is queued.  With nothing to protect the step returns before it looks at anything.
   Otherwise: markers are written (FMarker), the announced collection runs are listed (FAnnounce) and an announced
   run refuses the adoption (FCollecting), the files are checked to be still there (FRecheck; in this model no
   collection runs concurrently, so without a fault they are).  Whether a failure reaches the caller is regenerated. *)
Definition protect (ft : option fault) (m : list Z) (fs : list pfile) : option Z :=
  match unprotected m fs with
  | [] => None
  | _ :: _ =>
    match ft with
    | Some FMarker => if adopt_marker_failure_propagates then Some tag_storage_fault else None
    | Some FAnnounce => if adopt_listing_failure_propagates then Some tag_storage_fault else None
    | Some FCollecting => if adopt_refused_while_collecting then Some tag_files_refused else None
    | Some FRecheck => if adopt_recheck_failure_propagates then Some tag_storage_fault else None
    | _ => None
    end
  end.

(* the markers the step leaves under metadata/inflight: those it wrote when the call goes on; none when marker writes
   fail; when it raises later, none -- as long as its handler deletes what the call wrote (regenerated) *)
Definition protect_left (ft : option fault) (m : list Z) (fs : list pfile) : list Z :=
  match ft with
  | Some FMarker => []
  | _ => match protect ft m fs with
         | None => unprotected m fs
         | Some _ => if adopt_cleanup_on_failure then [] else unprotected m fs
         end
  end.

(* append_files' loop: every file, in order, must have a canonical path, exist, be parquet, and -- on a
   table with a persisted schema -- carry exactly the Arrow schema the handle derives for the table schema
   (create_arrow_schema, through the cache).  true only when EVERY file passed. *)
Fixpoint check_layouts (ts : option ischema) (c : cache) (fs : list pfile) : cache * bool :=
  match fs with
  | [] => (c, true)
  | p :: r =>
    if pf_canonical p && pf_exists p && pf_parquet p then
      match ts with
      | None => check_layouts ts c r
      | Some s =>
        let (a, c') := create_arrow_schema c s in
        match pf_footer p with
        | Some ft => if aschema_eqb ft a then check_layouts ts c' r else (c', false)
        | None => (c', false)
        end
      end
    else (c, false)
  end.

(* ... and then (the list comprehension over _with_verified_bounds, after the loop) every file's verifiable claims must hold:
   a file whose supplied checksum is not its own is refused.  Nothing is queued unless both passes succeed. *)
Definition check_files (ts : option ischema) (c : cache) (fs : list pfile) : cache * bool :=
  let (c', ok) := check_layouts ts c fs in (c', ok && forallb claims_verifiable fs).

(* the names of the pre-built files a call / a history hands to append_files *)
Definition call_ids (c : call) : list Z := match c with CFiles fs | CFilesF _ fs => map pf_id fs | _ => [] end.
Definition adopted_ids (txs : list txn) : list Z := flat_map (fun t => flat_map call_ids (t_calls t)) txs.

Section TxMachine.
  Variable conv : catype -> pyval -> option pyval.

  Definition with_store (w : world) (store : list Z) (next : Z) : world :=
    {| w_schema := w_schema w; w_snaps := w_snaps w; w_store := store; w_next := next; w_caches := w_caches w |}.

  (* what _resolve_table_schema yields: Some t -- the persisted schema t (None: a table without one); None -- the
     call raises.  While metadata reads fail the failure reaches the caller iff refresh() is outside every try
     block (regenerated); otherwise the unreadable schema is taken for "no persisted schema". *)
  Definition seen_schema (unreadable : bool) (w : world) : option (option ischema) :=
    if unreadable then (if resolve_refresh_propagates then None else Some None) else Some (w_schema w).

  (* tx.append_data: resolve the table schema (s1) and check the argument against it, write the in-flight marker,
     validate, convert, WRITE the data file, then queue it through append_files -- which resolves the table schema
     again (s2) and checks the file just written like any other (s2 = None also stands for a failing existence
     check there); its protection step finds the marker append_data registered and returns at once *)
  Definition stage_records (s1 : option (option ischema)) (marker_fails : bool) (s2 : option (option ischema))
      (w : world) (h : Z) (arg : option ischema) (recs : list record) : world * option dfile * list Z * Z :=
    match s1 with
    | None => (w, None, [], tag_storage_fault)
    | Some t1 =>
      match resolve t1 arg with
      | inr o => (w, None, [], tag_of o)
      | inl s =>
        if marker_fails && marker_failure_propagates then (w, None, [], tag_storage_fault) else
        if negb (forallb (validate_record (sfields s)) recs) then (w, None, [], tag_of RejRecords) else
        let (a, c') := create_arrow_schema (cache_of w h) s in
        let w1 := set_cache w h c' in
        match convert conv a recs with
        | None => (w1, None, [], tag_of RejConvert)
        | Some rows =>
          let (lo, hi) := bounds_for (sfields s) a rows in
          let f := {| df_id := w_next w; df_arrow := a; df_rows := rows; df_lo := lo; df_hi := hi |} in
          let w2 := with_store w1 (w_next w :: w_store w1) (w_next w + 1) in
          let p := {| pf_id := w_next w; pf_canonical := true; pf_exists := true; pf_parquet := true; pf_footer := Some a;
                      pf_rows := rows; pf_lo := Some lo; pf_hi := Some hi;
                      pf_claims := {| pc_stat_keys := []; pc_sum := Some true; pc_count := Z.of_nat (length rows) |} |} in
          match s2 with
          | None =>                                   (* the file stays written, unqueued *)
            (w2, None, [w_next w], if queue_failure_propagates then tag_storage_fault else 0)
          | Some t2 =>
            let (c2, ok) := check_files t2 (cache_of w2 h) [p] in
            let w3 := set_cache w2 h c2 in
            if ok then (w3, Some f, [w_next w], 0) else (w3, None, [w_next w], tag_files_refused)
          end
        end
      end
    end.

  (* one call: the new world, the files this call wrote itself, its tag, and the files it ADDS to the queue *)
  Definition call_records (s1 : option (option ischema)) (marker_fails : bool) (s2 : option (option ischema))
      (w : world) (h : Z) (arg : option ischema) (recs : list record) : world * list Z * Z * list dfile :=
    match stage_records s1 marker_fails s2 w h arg recs with
    | (w', Some f, wr, t) => (w', wr, t, [f])
    | (w', None, wr, t) => (w', wr, t, [])
    end.

  (* tx.append_files: resolve the table schema, validate every file, verify the supplied bounds, protect the files
     (ft: what the protection step meets; m: the files this transaction holds markers for), queue them *)
  Definition call_files (s1 : option (option ischema)) (ft : option fault) (m : list Z) (w : world) (h : Z) (fs : list pfile)
      : world * list Z * Z * list dfile :=
    match s1 with
    | None => (w, [], tag_storage_fault, [])
    | Some t1 =>
      let (c', ok) := check_files t1 (cache_of w h) fs in
      let w1 := set_cache w h c' in
      if ok then
        match protect ft m fs with
        | None => (w1, [], 0, map (to_dfile t1) fs)
        | Some t => (w1, [], t, [])
        end
      else (w1, [], tag_files_refused, [])
    end.

  (* m: the files the transaction holds in-flight markers for when the call starts (marked) *)
  Definition call_step (w : world) (m : list Z) (h : Z) (c : call) : world * list Z * Z * list dfile :=
    let ok := seen_schema false w in
    let bad := seen_schema true w in
    match c with
    | CRecords arg recs => call_records ok false ok w h arg recs
    | CFiles fs => call_files ok None m w h fs
    | CRecordsF FBefore arg recs => call_records bad false bad w h arg recs
    | CRecordsF FMarker arg recs => call_records ok true ok w h arg recs
    | CRecordsF FAfterWrite arg recs => call_records ok false bad w h arg recs
    | CRecordsF FRecheck arg recs => call_records ok false (if files_exists_failure_propagates then None else ok) w h arg recs
    | CRecordsF FAnnounce arg recs | CRecordsF FCollecting arg recs => call_records ok false ok w h arg recs
    | CFilesF FBefore fs => call_files bad None m w h fs
    | CFilesF ft fs => call_files ok (Some ft) m w h fs
    end.

  (* the in-flight markers of pre-built files the call leaves behind (none for append_data: the markers of the files a
     transaction writes itself are not followed here) *)
  Definition call_marks (w : world) (m : list Z) (h : Z) (c : call) : list Z :=
    let go (s1 : option (option ischema)) (ft : option fault) (fs : list pfile) :=
      match s1 with
      | None => []
      | Some t1 => if snd (check_files t1 (cache_of w h) fs) then protect_left ft m fs else []
      end in
    match c with
    | CFiles fs => go (seen_schema false w) None fs
    | CFilesF FBefore fs => go (seen_schema true w) None fs
    | CFilesF ft fs => go (seen_schema false w) (Some ft) fs
    | _ => []
    end.

  Definition enqueue (q : txstate) (wr : list Z) (added : list dfile) : txstate :=
    {| q_files := q_files q ++ added; q_written := wr ++ q_written q |}.

  (* the calls of one transaction; the trace lists, per call, its tag and the files it queued *)
  Fixpoint run_calls (w : world) (q : txstate) (h : Z) (cs : list call) : world * txstate * list (Z * list dfile) :=
    match cs with
    | [] => (w, q, [])
    | c :: cs' =>
      match call_step w (marked q) h c with
      | (w', wr, t, added) =>
        match run_calls w' (enqueue q wr added) h cs' with
        | (w'', q'', tr) => (w'', q'', (t, added) :: tr)
        end
      end
    end.

  Definition publish (w : world) (fs : list dfile) : world :=
    {| w_schema := w_schema w; w_snaps := (current w ++ fs) :: w_snaps w; w_store := w_store w; w_next := w_next w; w_caches := w_caches w |}.

  Definition end_tx (w : world) (q : txstate) (e : tend) : world :=
    match e with
    | EndCommit ok =>
      match q_files q with
      | [] => w            (* empty transaction: commit() returns at once -- no snapshot, nothing that could fail,
                              and no cleanup either: a file written by a call that then raised stays an orphan *)
      | _ => if ok then publish w (q_files q)
             else with_store w (fold_right remove (w_store w) (q_written q)) (w_next w)
      end
    | EndRollback => with_store w (fold_right remove (w_store w) (q_written q)) (w_next w)
    | EndAbandon => w
    end.

  Definition run_tx (w : world) (t : txn) : world :=
    match run_calls w tx_empty (t_handle t) (t_calls t) with
    | (w', q, _) => end_tx w' q (t_end t)
    end.

  Fixpoint run_txs (w : world) (ts : list txn) : world :=
    match ts with [] => w | t :: ts' => run_txs (run_tx w t) ts' end.
End TxMachine.
