(* Model/SchemaTx.v -- explicit transactions over the append machine of Model/Schema.v (property C11).

   Source anchors: transaction.py  Transaction.begin / append_data / append_files (per-file loop:
   _require_canonical_path, validate_file_exists, parquet-only, _validate_file_schema; the operation is
   queued AFTER the loop) / commit (empty transaction: no snapshot; otherwise one snapshot holding the
   base files plus every queued file) / rollback / _rollback (deletes the files this transaction wrote).

   A transaction is a handle, a list of calls -- each of which the caller may see raise and catch -- and
   an end: commit (succeeding or failing before the commit point), rollback, or nothing at all (the
   handle is abandoned).  Definitions only; proofs are in Proofs/SchemaTxProofs.v. *)
From Coq Require Import ZArith QArith List Bool.
Require Import DS.Model.Value DS.Gen.GenPrune DS.Model.Prune DS.Gen.GenSchema DS.Model.Schema.
Import ListNotations.
Open Scope Z_scope.

(* a pre-built data file handed to append_files *)
Record pfile := {
  pf_id : Z;                          (* its name *)
  pf_canonical : bool;                (* the path is in canonical table-relative form *)
  pf_exists : bool;                   (* the file is there *)
  pf_parquet : bool;                  (* DataFile.file_format is parquet *)
  pf_footer : option aschema;         (* its parquet footer schema; None: no readable footer *)
  pf_rows : list srow;
  pf_lo : option (list (Z * value));  (* DataFile.lower_bounds / upper_bounds as the CALLER supplied them *)
  pf_hi : option (list (Z * value))   (* (None: not supplied) -- a claim about the file, not a fact *)
}.

(* A window of failing storage operations that lasts exactly as long as one call (cleared before the
   transaction ends):
     FBefore      metadata reads fail from the start of the call: _resolve_table_schema -- the first thing both
                  append_data and append_files do -- meets a failing refresh()
     FMarker      writes of in-flight markers fail: append_data meets the failure once its schema argument has
                  been checked, before anything is written (append_files writes no marker)
     FAfterWrite  metadata reads fail once the call has written something: append_data has validated, written
                  its marker and its data file, and meets the failure when it queues the file (append_files
                  reads the metadata again); append_files itself writes nothing and is not affected
   What the code does with such a failure is NOT written down here: it is read off the source on every run
   (Gen/GenSchema.v: resolve_refresh_propagates, marker_failure_propagates, queue_failure_propagates -- is the
   failing operation outside every try block, so that the exception reaches the caller?).  A handler around
   refresh() would turn "metadata unreadable" into "no persisted schema, nothing to enforce". *)
Inductive fault := FBefore | FMarker | FAfterWrite.

Inductive call :=
| CRecords (arg : option ischema) (recs : list record)      (* tx.append_data(records, schema=arg) *)
| CFiles (fs : list pfile)                                   (* tx.append_files(fs) *)
| CRecordsF (ft : fault) (arg : option ischema) (recs : list record)    (* the same calls under a storage fault *)
| CFilesF (ft : fault) (fs : list pfile).

Inductive tend := EndCommit (ok : bool) | EndRollback | EndAbandon.
Record txn := { t_handle : Z; t_calls : list call; t_end : tend }.

(* result tags of a call: 0 accepted; 1..4 as Schema.outcome for records; 6 append_files refused *)
Definition tag_of (o : outcome) : Z :=
  match o with Accepted => 0 | RejNoSchema => 1 | RejSchema => 2 | RejRecords => 3 | RejConvert => 4 | RejCommit => 5 | RejFile => 6 end.
Definition tag_files_refused : Z := 6.
Definition tag_storage_fault : Z := 7.

Definition footer_of (p : pfile) : aschema := match pf_footer p with Some a => a | None => [] end.

(* Transaction._with_verified_bounds: bounds that come with a pre-built file are never stored as given.  A
   file without any keeps none; otherwise they are RECOMPUTED from the file's content under the table
   schema's field ids, exactly as append_data computes them (dropped on a table without a schema). *)
Definition verified_bounds (ts : option ischema) (p : pfile) : list (Z * value) * list (Z * value) :=
  match pf_lo p, pf_hi p with
  | None, None => ([], [])
  | _, _ => match ts with Some s => bounds_for (sfields s) (footer_of p) (pf_rows p) | None => ([], []) end
  end.
Definition to_dfile (ts : option ischema) (p : pfile) : dfile :=
  {| df_id := pf_id p; df_arrow := footer_of p; df_rows := pf_rows p;
     df_lo := fst (verified_bounds ts p); df_hi := snd (verified_bounds ts p) |}.

(* the transaction in progress: the queued data files of its append operations, in order, and the names
   of the data files it wrote itself (deleted again by _rollback) *)
Record txstate := { q_files : list dfile; q_written : list Z }.
Definition tx_empty : txstate := {| q_files := []; q_written := [] |}.

(* append_files' loop: every file, in order, must have a canonical path, exist, be parquet, and -- on a
   table with a persisted schema -- carry exactly the Arrow schema the handle derives for the table schema
   (create_arrow_schema, through the cache).  true only when EVERY file passed. *)
Fixpoint check_files (ts : option ischema) (c : cache) (fs : list pfile) : cache * bool :=
  match fs with
  | [] => (c, true)
  | p :: r =>
    if pf_canonical p && pf_exists p && pf_parquet p then
      match ts with
      | None => check_files ts c r
      | Some s =>
        let (a, c') := create_arrow_schema c s in
        match pf_footer p with
        | Some ft => if aschema_eqb ft a then check_files ts c' r else (c', false)
        | None => (c', false)
        end
      end
    else (c, false)
  end.

Section TxMachine.
  Variable conv : catype -> pyval -> option pyval.

  Definition with_store (w : world) (store : list Z) (next : Z) : world :=
    {| w_schema := w_schema w; w_snaps := w_snaps w; w_store := store; w_next := next; w_caches := w_caches w |}.

  (* what _resolve_table_schema yields: Some t -- the persisted schema t (None: a table without one); None -- the
     call raises.  While metadata reads fail the failure reaches the caller iff refresh() is outside every try
     block (regenerated); otherwise the unreadable schema is taken for "no persisted schema". *)
  Definition seen_schema (unreadable : bool) (w : world) : option (option ischema) :=
    if unreadable then (if resolve_refresh_propagates then None else Some None) else Some (w_schema w).

  (* tx.append_data: resolve the table schema (s1) and check the argument against it, write the in-flight marker,
     validate, convert, WRITE the data file, then queue it through append_files -- which resolves the table schema
     again (s2) and checks the file just written like any other *)
  Definition stage_records (s1 : option (option ischema)) (marker_fails : bool) (s2 : option (option ischema))
      (w : world) (h : Z) (arg : option ischema) (recs : list record) : world * option dfile * list Z * Z :=
    match s1 with
    | None => (w, None, [], tag_storage_fault)
    | Some t1 =>
      match resolve t1 arg with
      | inr o => (w, None, [], tag_of o)
      | inl s =>
        if marker_fails && marker_failure_propagates then (w, None, [], tag_storage_fault) else
        if negb (forallb (validate_record (sfields s)) recs) then (w, None, [], tag_of RejRecords) else
        let (a, c') := create_arrow_schema (cache_of w h) s in
        let w1 := set_cache w h c' in
        match convert conv a recs with
        | None => (w1, None, [], tag_of RejConvert)
        | Some rows =>
          let (lo, hi) := bounds_for (sfields s) a rows in
          let f := {| df_id := w_next w; df_arrow := a; df_rows := rows; df_lo := lo; df_hi := hi |} in
          let w2 := with_store w1 (w_next w :: w_store w1) (w_next w + 1) in
          let p := {| pf_id := w_next w; pf_canonical := true; pf_exists := true; pf_parquet := true; pf_footer := Some a;
                      pf_rows := rows; pf_lo := Some lo; pf_hi := Some hi |} in
          match s2 with
          | None =>                                   (* the file stays written, unqueued *)
            (w2, None, [w_next w], if queue_failure_propagates then tag_storage_fault else 0)
          | Some t2 =>
            let (c2, ok) := check_files t2 (cache_of w2 h) [p] in
            let w3 := set_cache w2 h c2 in
            if ok then (w3, Some f, [w_next w], 0) else (w3, None, [w_next w], tag_files_refused)
          end
        end
      end
    end.

  (* one call: the new world, the files this call wrote itself, its tag, and the files it ADDS to the queue *)
  Definition call_records (s1 : option (option ischema)) (marker_fails : bool) (s2 : option (option ischema))
      (w : world) (h : Z) (arg : option ischema) (recs : list record) : world * list Z * Z * list dfile :=
    match stage_records s1 marker_fails s2 w h arg recs with
    | (w', Some f, wr, t) => (w', wr, t, [f])
    | (w', None, wr, t) => (w', wr, t, [])
    end.

  Definition call_files (s1 : option (option ischema)) (w : world) (h : Z) (fs : list pfile) : world * list Z * Z * list dfile :=
    match s1 with
    | None => (w, [], tag_storage_fault, [])
    | Some t1 =>
      let (c', ok) := check_files t1 (cache_of w h) fs in
      let w1 := set_cache w h c' in
      if ok then (w1, [], 0, map (to_dfile t1) fs) else (w1, [], tag_files_refused, [])
    end.

  Definition call_step (w : world) (h : Z) (c : call) : world * list Z * Z * list dfile :=
    let ok := seen_schema false w in
    let bad := seen_schema true w in
    match c with
    | CRecords arg recs => call_records ok false ok w h arg recs
    | CFiles fs => call_files ok w h fs
    | CRecordsF FBefore arg recs => call_records bad false bad w h arg recs
    | CRecordsF FMarker arg recs => call_records ok true ok w h arg recs
    | CRecordsF FAfterWrite arg recs => call_records ok false bad w h arg recs
    | CFilesF FBefore fs => call_files bad w h fs
    | CFilesF _ fs => call_files ok w h fs
    end.

  Definition enqueue (q : txstate) (wr : list Z) (added : list dfile) : txstate :=
    {| q_files := q_files q ++ added; q_written := wr ++ q_written q |}.

  (* the calls of one transaction; the trace lists, per call, its tag and the files it queued *)
  Fixpoint run_calls (w : world) (q : txstate) (h : Z) (cs : list call) : world * txstate * list (Z * list dfile) :=
    match cs with
    | [] => (w, q, [])
    | c :: cs' =>
      match call_step w h c with
      | (w', wr, t, added) =>
        match run_calls w' (enqueue q wr added) h cs' with
        | (w'', q'', tr) => (w'', q'', (t, added) :: tr)
        end
      end
    end.

  Definition publish (w : world) (fs : list dfile) : world :=
    {| w_schema := w_schema w; w_snaps := (current w ++ fs) :: w_snaps w; w_store := w_store w; w_next := w_next w; w_caches := w_caches w |}.

  Definition end_tx (w : world) (q : txstate) (e : tend) : world :=
    match e with
    | EndCommit ok =>
      match q_files q with
      | [] => w            (* empty transaction: commit() returns at once -- no snapshot, nothing that could fail,
                              and no cleanup either: a file written by a call that then raised stays an orphan *)
      | _ => if ok then publish w (q_files q)
             else with_store w (fold_right remove (w_store w) (q_written q)) (w_next w)
      end
    | EndRollback => with_store w (fold_right remove (w_store w) (q_written q)) (w_next w)
    | EndAbandon => w
    end.

  Definition run_tx (w : world) (t : txn) : world :=
    match run_calls w tx_empty (t_handle t) (t_calls t) with
    | (w', q, _) => end_tx w' q (t_end t)
    end.

  Fixpoint run_txs (w : world) (ts : list txn) : world :=
    match ts with [] => w | t :: ts' => run_txs (run_tx w t) ts' end.
End TxMachine.
