(* Model/GCPointer.v -- which metadata version a collection works from: MetadataManager._current_version_info (pointer,
   existence of the hinted file, recovery by scanning = highest version on storage) followed by the collector's own second,
   independent resolution of the pointer (GarbageCollector._require_hinted_metadata_present).  Definitions only.
   Storage may hold versions that were never published (a writer died between writing v(N+1) and flipping the pointer). *)
From Coq Require Import List Arith Bool.
Import ListNotations.

Inductive pans := PSome (v : nat) | PNone | PRaise.      (* a read of the pointer: names v / looks missing or garbled / raises *)
Inductive pex := XTrue | XFalse | XRaise.                (* exists(metadata file of version v) *)
Inductive pres := RAbort | RNoTable | RUse (v : nat).

Definition scan (vs : list nat) : pres :=
  match vs with [] => RNoTable | _ => RUse (fold_right Nat.max 0 vs) end.

(* refresh(): the pointer is only a hint *)
Definition refresh_resolve (vs : list nat) (a1 : pans) (x1 : nat -> pex) : pres :=
  match a1 with
  | PRaise => RAbort
  | PNone => scan vs
  | PSome v => match x1 v with XTrue => RUse v | XFalse => scan vs | XRaise => RAbort end
  end.

(* the collector's check: re-resolve the pointer; proceed only if it names an existing file holding the metadata in use *)
Definition guard (used : nat) (a2 : pans) (x2 : nat -> pex) : bool :=
  match a2 with
  | PRaise => false
  | PNone => true
  | PSome v => match x2 v with XTrue => Nat.eqb v used | _ => false end
  end.

Definition collect_resolve (vs : list nat) (a1 : pans) (x1 : nat -> pex) (a2 : pans) (x2 : nat -> pex) : pres :=
  match refresh_resolve vs a1 x1 with
  | RUse u => if guard u a2 x2 then RUse u else RAbort
  | r => r
  end.

(* a faulty read never fabricates another valid pointer: it tells the truth, looks missing / garbled, or raises *)
Definition honest (p : nat) (a : pans) : Prop := a = PSome p \/ a = PNone \/ a = PRaise.
