(* Model/GCPointer.v -- which metadata FILE a collection works from, and the collection run on it.  Definitions only.

   Layer 1 (generic in the type D of a decoded metadata document): MetadataManager._current_version_info (pointer, existence of
   the hinted file, recovery by scanning = highest version on storage, ties by modification time), refresh()'s read of the
   resolved file, then the collector's own second, independent resolution (GarbageCollector._require_hinted_metadata_present:
   the pointer is read again; when it names a file, that file must exist, must be readable, and must hold exactly the metadata
   refresh() returned -- `_metadata_to_dict(pointed) != _metadata_to_dict(metadata)`: the parameter `same`).
   A metadata file is identified by its NAME (v<N>[-<suffix>].metadata.json): two files may carry the same version number
   (historical races, a dead writer's unpublished leftover next to the published file of the same number), and the code
   compares metadata CONTENT, not version numbers.
   Storage may hold versions that were never published (a writer died between writing v(N+1) and flipping the pointer).

   Layer 2: the documents are JSON documents (Model/Doc.v jv); a file whose document the reader refuses
   (accepts ext gen_metadata_shape = false) or that is not JSON at all (mf_body = None) cannot be read: refresh() / the
   collector's re-read raise.  The collection then runs on the resolved document: Model/GCDoc.v collect_doc (dangling
   current_snapshot_id: refused; otherwise Model/GC.v gc_run on the manifest lists of all its snapshots). *)
From Coq Require Import ZArith List Arith Bool String.
Require Import DS.Model.PyStr DS.Gen.GenNorm DS.Model.GC DS.Model.Doc DS.Gen.GenDoc DS.Model.GCDoc.
Import ListNotations.
Open Scope Z_scope.

Inductive pans := PSome (name : string) | PNone | PRaise.   (* _read_version_hint: names a file / looks missing or garbled / raises *)
Inductive pex := XTrue | XFalse | XRaise.                   (* storage.exists(metadata/<name>) *)

(* what ONE resolution of the pointer is told by storage (truth and faults together) *)
Record answers := mkA {
  a_hint : pans;
  a_exists : string -> pex;
  a_list_raises : bool;                 (* list_files(metadata) of the recovery scan raises *)
  a_stat_raises : string -> bool;       (* get_modified_time during the scan raises (swallowed: mtime -1) *)
  a_read_raises : string -> bool        (* read_json of a metadata file raises (transient failure) *)
}.

Section Resolve.
  Variable D : Type.
  Variable same : D -> D -> bool.

  (* mf_body = None: the file cannot be read as table metadata (json.loads or _dict_to_metadata raises) *)
  Record mfile := mkMF { mf_name : string; mf_version : nat; mf_mtime : Z; mf_body : option D }.

  Fixpoint find_file (n : string) (fs : list mfile) : option mfile :=
    match fs with
    | [] => None
    | f :: r => if String.eqb n (mf_name f) then Some f else find_file n r
    end.

  (* _recover_version_from_files: highest version; among files of the same version the most recently modified; the first
     one listed among equals *)
  Definition scan_step (a : answers) (best : option (mfile * Z)) (f : mfile) : option (mfile * Z) :=
    let mt := if a_stat_raises a (mf_name f) then (-1) else mf_mtime f in
    match best with
    | None => Some (f, mt)
    | Some (b, bm) =>
        if Nat.ltb (mf_version b) (mf_version f) then Some (f, mt)
        else if Nat.eqb (mf_version f) (mf_version b) then (if bm <? mt then Some (f, mt) else best)
        else best
    end.
  Definition scan_pick (a : answers) (fs : list mfile) : option mfile :=
    option_map fst (fold_left (scan_step a) fs None).

  Inductive info := IAbort | INoTable | IName (n : string).

  Definition scan (a : answers) (fs : list mfile) : info :=
    if a_list_raises a then IAbort
    else match scan_pick a fs with Some f => IName (mf_name f) | None => INoTable end.

  (* _current_version_info: the pointer is only a hint *)
  Definition current_info (a : answers) (fs : list mfile) : info :=
    match a_hint a with
    | PRaise => IAbort
    | PNone => scan a fs
    | PSome n => match a_exists a n with XTrue => IName n | XFalse => scan a fs | XRaise => IAbort end
    end.

  (* _read_metadata_file: a file that is not there, a read that fails, a document that does not parse: raises *)
  Definition load (a : answers) (fs : list mfile) (n : string) : option (mfile * D) :=
    match find_file n fs with
    | Some f => if a_read_raises a n then None else match mf_body f with Some d => Some (f, d) | None => None end
    | None => None
    end.

  Inductive rres := RAbort | RNoTable | RUse (f : mfile) (d : D).

  (* refresh() *)
  Definition refresh_resolve (a : answers) (fs : list mfile) : rres :=
    match current_info a fs with
    | IAbort => RAbort
    | INoTable => RNoTable
    | IName n => match load a fs n with Some (f, d) => RUse f d | None => RAbort end
    end.

  (* the collector's check: re-resolve the pointer; proceed only if there is no pointer, or it names an existing, readable
     file holding the metadata in use *)
  Definition guard (a : answers) (fs : list mfile) (d : D) : bool :=
    match a_hint a with
    | PRaise => false
    | PNone => true
    | PSome n =>
        match a_exists a n with
        | XTrue => match load a fs n with Some (_, d') => same d' d | None => false end
        | _ => false
        end
    end.

  Definition collect_resolve (a1 a2 : answers) (fs : list mfile) : rres :=
    match refresh_resolve a1 fs with
    | RUse f d => if guard a2 fs d then RUse f d else RAbort
    | r => r
    end.

  (* a faulty read of the pointer never fabricates another valid pointer: it tells the truth (the published file p), looks
     missing / garbled, or raises.  Nothing is assumed about the other answers (exists, listing, stat, file reads). *)
  Definition honest (p : mfile) (a : answers) : Prop :=
    a_hint a = PSome (mf_name p) \/ a_hint a = PNone \/ a_hint a = PRaise.
End Resolve.

Arguments mkMF {D}. Arguments mf_name {D}. Arguments mf_version {D}. Arguments mf_mtime {D}. Arguments mf_body {D}.
Arguments find_file {D}. Arguments scan_pick {D}. Arguments refresh_resolve {D}. Arguments guard {D}.
Arguments collect_resolve {D}. Arguments honest {D}. Arguments RAbort {D}. Arguments RNoTable {D}. Arguments RUse {D}.

(* ---------------------------------------------------------------- layer 2: documents, and the collection on top *)
(* what the reader makes of a file's document *)
Definition parse_file (ext : string -> jv -> bool) (f : mfile jv) : mfile jv :=
  mkMF (mf_name f) (mf_version f) (mf_mtime f)
       (match mf_body f with Some d => if accepts ext gen_metadata_shape d then Some d else None | None => None end).

Inductive presult := PAbort | PNoTable | PUse (f : mfile jv) (res : doc_result).

(* collect(): pointer resolved twice, then the collection on the resolved document.  PAbort: GarbageCollectionAborted (or the
   exception refresh() raised) before anything was deleted; PNoTable: `if not metadata: return stats`. *)
Definition collect_pointer (ext : string -> jv -> bool) (same : jv -> jv -> bool) (tp : string) (grace now timeout : Z) (o : oracle)
    (a1 a2 : answers) (files : list (mfile jv)) (st : store) : presult :=
  match collect_resolve same a1 a2 (map (parse_file ext) files) with
  | RAbort => PAbort
  | RNoTable => PNoTable
  | RUse f d => PUse f (collect_doc ext tp grace now timeout o d st)
  end.

Definition pointer_deleted (r : presult) : list key :=
  match r with PUse _ res => doc_deleted res | _ => [] end.

(* rendering for the correspondence harness (D := string, the file's own name as its content; same := String.eqb):
   "!abort" / "!notable" / the name of the file the collection worked from *)
Definition render_resolve (r : @rres string) : string :=
  match r with RAbort => "!abort" | RNoTable => "!notable" | RUse f _ => mf_name f end.
