(* Model/Manifest13.v -- column bounds through a manifest: FileManager.create_manifest_file writes one
   record per entry (ADDED entries for the files of this commit -- several when a transaction appends
   several files -- then EXISTING entries for the survivors of a partial delete), read_manifest_file
   gives back one DataFile per record.  The per-entry pieces are Gen/GenManifest13.v, regenerated from the
   source on every run; the Avro container in between is the identity on the list of records
   (assumption Avro-exact).  Definitions only. *)
From Coq Require Import ZArith List Bool String.
Require Import DS.Model.Value DS.Model.BoundPrim DS.Gen.GenBound DS.Model.Bound DS.Model.ManifestPrim
               DS.Gen.GenManifest13 DS.Gen.GenPrune DS.Model.Prune.
Import ListNotations.
Open Scope Z_scope.

(* create_manifest_file(data_files, existing_files=...): the records handed to fastavro.writer *)
Definition write_manifest (data_files existing_files : list dfb) : list mrec :=
  map (fun p => gen_record (fst p) (snd p)) (gen_entries data_files existing_files).

(* read_manifest_file: one DataFile per record, in order *)
Definition read_manifest (records : list mrec) : list dfb := map gen_read_entry records.

Definition via_manifest (data_files existing_files : list dfb) : list dfb :=
  read_manifest (write_manifest data_files existing_files).

(* `data_file.lower_bounds or {}`: how _file_may_match looks at an Optional[dict] *)
Definition bview (b : option bmap) : bmap := match b with Some l => l | None => [] end.
Definition df_view (d : dfb) : bmap * bmap := (bview (df_lower d), bview (df_upper d)).

(* the only thing the trip may change: an empty dict comes back as None *)
Definition norm_b (b : option bmap) : option bmap := match b with Some [] => None | _ => b end.
Definition norm_df (d : dfb) : dfb := {| df_lower := norm_b (df_lower d); df_upper := norm_b (df_upper d) |}.

(* every stored bound is a value the codec is specified for (not None: the writer never stores None) *)
Definition boundable_map (b : option bmap) : Prop := forall k v, In (k, v) (bview b) -> boundable v = true.
Definition boundable_df (d : dfb) : Prop := boundable_map (df_lower d) /\ boundable_map (df_upper d).

(* the DataFile write_data_file builds for a file's rows: `lower_bounds if lower_bounds else None` *)
Definition opt_of (l : bmap) : option bmap := match l with [] => None | _ => Some l end.
Definition df_of_file (schema : list (Z * Z)) (rows : list row) : dfb :=
  {| df_lower := opt_of (fst (file_bounds schema rows)); df_upper := opt_of (snd (file_bounds schema rows)) |}.

(* the bounds the planner sees for the files of one manifest *)
Definition manifest_bounds (schema : list (Z * Z)) (added existing : list (list row)) : list (bmap * bmap) :=
  map df_view (via_manifest (map (df_of_file schema) added) (map (df_of_file schema) existing)).

(* prune_files_by_bounds over the DataFiles read back from the manifest; each keeps its rows *)
Definition prune_via_manifest (schema : list (Z * Z)) (es : list fexpr) (added existing : list (list row)) : list (list row) :=
  map fst (prune (fun fb : list row * (bmap * bmap) => snd fb) schema es
                 (combine (added ++ existing) (manifest_bounds schema added existing))).
