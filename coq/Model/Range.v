(* Model/Range.v -- S3RangeFile (storage_backend.py): a seekable reader issuing ranged GETs, and the plain
   local file it must be indistinguishable from.

   rf_step_on size fetch : S3RangeFile.seek / tell / readinto / readall for a reader whose size was fixed at open
               (`size`) and whose ranged GETs are answered by `fetch first last` (None = refused).  The integer
               kernels -- where a seek lands and when it is refused, when a read issues no request, which byte
               range it asks for -- are Gen/GenRange.v, REGENERATED from the source on every run; what remains
               hand-written is the glue the translator checks the shape of (advance the position by the bytes
               received, return them).  Every ranged GET is logged as (first, last).
   rf_step content = rf_step_on (zlen content) (server_range content): the reader over an object that does not
               change while it is read; server_range is what S3 / fakes3 answer to Range: bytes=first-last
               (the bytes first..min(last,size-1), or 416 when first >= size).
   file_step : an unbuffered local file (io.FileIO) on the same content -- the specification.
   Definitions only. *)
From Coq Require Import List ZArith Bool.
Require Import DS.Gen.GenRange.
Import ListNotations.
Open Scope Z_scope.

Inductive whence := SeekSet | SeekCur | SeekEnd | SeekBad.

Inductive rop :=
| Seek (off : Z) (w : whence)
| ReadInto (n : Z)            (* readinto(bytearray(n)) == RawIOBase.read(n), n >= 0 *)
| ReadAll                     (* readall() == read(-1) *)
| Tell.

Definition wf_rop (o : rop) : Prop := match o with ReadInto n => 0 <= n | _ => True end.
Definition wf_ropb (o : rop) : bool := match o with ReadInto n => 0 <=? n | _ => true end.

(* io.SEEK_SET / SEEK_CUR / SEEK_END; SeekBad stands for a whence that is none of them *)
Definition whence_code (w : whence) : Z := match w with SeekSet => 0 | SeekCur => 1 | SeekEnd => 2 | SeekBad => 7 end.

Section Range.
  Context {A : Type}.

  Inductive robs :=
  | RPos (p : Z)                (* seek / tell result *)
  | RData (d : list A)          (* bytes returned by a read *)
  | RErr.                       (* ValueError (reader) / OSError EINVAL (file) / refused range *)

  Definition zfirstn (n : Z) (l : list A) : list A := firstn (Z.to_nat n) l.
  Definition zskipn (n : Z) (l : list A) : list A := skipn (Z.to_nat n) l.
  Definition zlen (l : list A) : Z := Z.of_nat (length l).

  (* GetObject with Range: bytes=first-last *)
  Definition server_range (content : list A) (first last : Z) : option (list A) :=
    if (0 <=? first) && (first <=? last) && (first <? zlen content)
    then Some (zfirstn (last - first + 1) (zskipn first content))
    else None.

  Definition seek_target (size pos off : Z) (w : whence) : option Z :=
    match w with
    | SeekSet => Some off
    | SeekCur => Some (pos + off)
    | SeekEnd => Some (size + off)
    | SeekBad => None
    end.

  Definition do_seek (size pos off : Z) (w : whence) : Z * robs :=
    match seek_target size pos off w with
    | None => (pos, RErr)
    | Some new => if new <? 0 then (pos, RErr) else (new, RPos new)
    end.

  (* S3RangeFile.seek over the regenerated kernel: refused = ValueError, position unchanged *)
  Definition rf_seek (size pos off : Z) (w : whence) : Z * robs :=
    match gen_rf_seek pos size off (whence_code w) with
    | Some (pos', ret) => (pos', RPos ret)
    | None => (pos, RErr)
    end.

  (* the part of readinto / readall after the kernel: no request, or one ranged GET [first, last]; the position
     advances by the number of bytes RECEIVED *)
  Definition rf_get (fetch : Z -> Z -> option (list A)) (pos : Z) (r : option (Z * Z)) : Z * robs * list (Z * Z) :=
    match r with
    | None => (pos, RData [], [])
    | Some (first, last) =>
      match fetch first last with
      | Some data => (pos + zlen data, RData data, [(first, last)])
      | None => (pos, RErr, [(first, last)])
      end
    end.

  (* S3RangeFile: state = _pos; _size = `size`, fixed when the reader was opened *)
  Definition rf_step_on (size : Z) (fetch : Z -> Z -> option (list A)) (pos : Z) (o : rop) : Z * robs * list (Z * Z) :=
    match o with
    | Seek off w => (rf_seek size pos off w, [])
    | Tell => (pos, RPos pos, [])
    | ReadInto want => rf_get fetch pos (gen_rf_readinto pos size want)
    | ReadAll => rf_get fetch pos (gen_rf_readall pos size)
    end.

  (* the reader over an object that does not change while it is read *)
  Definition rf_step (content : list A) : Z -> rop -> Z * robs * list (Z * Z) :=
    rf_step_on (zlen content) (server_range content).

  (* a plain file *)
  Definition file_step (content : list A) (pos : Z) (o : rop) : Z * robs :=
    match o with
    | Seek off w => do_seek (zlen content) pos off w
    | Tell => (pos, RPos pos)
    | ReadInto n => let d := zfirstn n (zskipn pos content) in (pos + zlen d, RData d)
    | ReadAll => let d := zskipn pos content in (pos + zlen d, RData d)
    end.

  (* programs: observations, final position, Range requests issued *)
  Fixpoint run_rf_on (size : Z) (fetch : Z -> Z -> option (list A)) (pos : Z) (prog : list rop) : list robs * Z * list (Z * Z) :=
    match prog with
    | [] => ([], pos, [])
    | o :: prog' =>
      let '(pos', ob, rs) := rf_step_on size fetch pos o in
      let '(obs, final, rs') := run_rf_on size fetch pos' prog' in
      (ob :: obs, final, rs ++ rs')
    end.

  Definition run_rf (content : list A) : Z -> list rop -> list robs * Z * list (Z * Z) :=
    run_rf_on (zlen content) (server_range content).

  Fixpoint run_file (content : list A) (pos : Z) (prog : list rop) : list robs * Z :=
    match prog with
    | [] => ([], pos)
    | o :: prog' =>
      let '(pos', ob) := file_step content pos o in
      let '(obs, final) := run_file content pos' prog' in
      (ob :: obs, final)
    end.

  Definition in_range (content : list A) (r : Z * Z) : Prop := 0 <= fst r /\ fst r <= snd r /\ snd r < zlen content.
End Range.
