(* Model/Range.v -- S3RangeFile (storage_backend.py:405-508): a seekable reader issuing ranged GETs,
   and the plain local file it must be indistinguishable from.

   rf_step   : S3RangeFile.seek / tell / readinto / readall over an object `content`; every ranged GET is
               logged as (first, last) and answered by `server_range` (what S3 / fakes3 answer to
               Range: bytes=first-last: the bytes first..min(last,size-1), or 416 when first >= size).
   file_step : an unbuffered local file (io.FileIO) on the same content.
   The functions seek / readinto / readall are pinned by golden AST digests in translator/gen_s3.py.
   Definitions only. *)
From Coq Require Import List ZArith Bool.
Import ListNotations.
Open Scope Z_scope.

Inductive whence := SeekSet | SeekCur | SeekEnd | SeekBad.

Inductive rop :=
| Seek (off : Z) (w : whence)
| ReadInto (n : Z)            (* readinto(bytearray(n)) == RawIOBase.read(n), n >= 0 *)
| ReadAll                     (* readall() == read(-1) *)
| Tell.

Definition wf_rop (o : rop) : Prop := match o with ReadInto n => 0 <= n | _ => True end.

Section Range.
  Context {A : Type}.

  Inductive robs :=
  | RPos (p : Z)                (* seek / tell result *)
  | RData (d : list A)          (* bytes returned by a read *)
  | RErr.                       (* ValueError (reader) / OSError EINVAL (file) / refused range *)

  Definition zfirstn (n : Z) (l : list A) : list A := firstn (Z.to_nat n) l.
  Definition zskipn (n : Z) (l : list A) : list A := skipn (Z.to_nat n) l.
  Definition zlen (l : list A) : Z := Z.of_nat (length l).

  (* GetObject with Range: bytes=first-last *)
  Definition server_range (content : list A) (first last : Z) : option (list A) :=
    if (0 <=? first) && (first <=? last) && (first <? zlen content)
    then Some (zfirstn (last - first + 1) (zskipn first content))
    else None.

  Definition seek_target (size pos off : Z) (w : whence) : option Z :=
    match w with
    | SeekSet => Some off
    | SeekCur => Some (pos + off)
    | SeekEnd => Some (size + off)
    | SeekBad => None
    end.

  Definition do_seek (size pos off : Z) (w : whence) : Z * robs :=
    match seek_target size pos off w with
    | None => (pos, RErr)
    | Some new => if new <? 0 then (pos, RErr) else (new, RPos new)
    end.

  (* one ranged GET [first, last] at position pos *)
  Definition get_range (content : list A) (pos last : Z) : Z * robs * list (Z * Z) :=
    match server_range content pos last with
    | Some data => (pos + zlen data, RData data, [(pos, last)])
    | None => (pos, RErr, [(pos, last)])
    end.

  (* S3RangeFile: state = _pos; _size = the object's size *)
  Definition rf_step (content : list A) (pos : Z) (o : rop) : Z * robs * list (Z * Z) :=
    let size := zlen content in
    match o with
    | Seek off w => (do_seek size pos off w, [])
    | Tell => (pos, RPos pos, [])
    | ReadInto want =>
      if (want =? 0) || (size <=? pos) then (pos, RData [], [])
      else get_range content pos (Z.min (pos + want) size - 1)
    | ReadAll =>
      if size <=? pos then (pos, RData [], [])
      else get_range content pos (size - 1)
    end.

  (* a plain file *)
  Definition file_step (content : list A) (pos : Z) (o : rop) : Z * robs :=
    match o with
    | Seek off w => do_seek (zlen content) pos off w
    | Tell => (pos, RPos pos)
    | ReadInto n => let d := zfirstn n (zskipn pos content) in (pos + zlen d, RData d)
    | ReadAll => let d := zskipn pos content in (pos + zlen d, RData d)
    end.

  (* programs: observations, final position, Range requests issued *)
  Fixpoint run_rf (content : list A) (pos : Z) (prog : list rop) : list robs * Z * list (Z * Z) :=
    match prog with
    | [] => ([], pos, [])
    | o :: prog' =>
      let '(pos', ob, rs) := rf_step content pos o in
      let '(obs, final, rs') := run_rf content pos' prog' in
      (ob :: obs, final, rs ++ rs')
    end.

  Fixpoint run_file (content : list A) (pos : Z) (prog : list rop) : list robs * Z :=
    match prog with
    | [] => ([], pos)
    | o :: prog' =>
      let '(pos', ob) := file_step content pos o in
      let '(obs, final) := run_file content pos' prog' in
      (ob :: obs, final)
    end.

  Definition in_range (content : list A) (r : Z * Z) : Prop := 0 <= fst r /\ fst r <= snd r /\ snd r < zlen content.
End Range.
