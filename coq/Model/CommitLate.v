(* Model/CommitLate.v -- the assumption "a refused conditional write was not applied", made visible (C01, C08).

   Commit.v's `EFlip false` (and Gen/GenCommit.v's gen_flip_exn FEPrecondition = XConflict) read a 412 Precondition
   Failed on the conditional PUT of the version pointer as "my write did not happen": the committer discards its
   metadata file and retries or reports a conflict.  That is what the object store guarantees for ONE request.  An
   HTTP client that transparently RE-SENDS the request (botocore's default retry policy does, after a connection
   error or a 5xx on the response) can have the first copy land and the second be refused -- by the first copy's own
   effect.  The machine below adds exactly that event: `LLate a` = committer a's conditional write is applied by the
   store (the pointer held the ETag it named), yet a is told "precondition failed".  Everything else is Commit.step.

   Proofs/CommitLateProofs.v: without LLate events the machine IS Commit.run (the theorems of Props/C01.v apply);
   with one, "a commit that reported a conflict is not reflected" is refuted by a concrete strict run.  The harness
   cannot produce the event offline (the fake object store answers every request once); it is recorded as an explicit
   assumption in the evidence of C01.

   Definitions only. *)
From Coq Require Import ZArith List Bool Arith.
Require Import DS.Model.CommitBase DS.Gen.GenCommit DS.Model.Commit.
Import ListNotations.

Inductive lateev := LEv (e : event) | LLate (a : aid).

Definition late_step (c : cfg) (w : world) (le : lateev) : option world :=
  match le with
  | LEv e => step c w e
  | LLate a =>
    let s := w_actors w a in
    match a_pc s with
    | PFenced =>
      if cas c && Nat.eqb (w_ptr w) (a_etag s) then
        Some {| w_ptr := a_new s; w_files := w_files w; w_lock := w_lock w;
                w_hist := w_hist w ++ [(a_new s, a)]; w_repl := w_repl w ++ [(w_ptr w, a_cur s)];
                w_actors := upd a (set_pc s PConflict) (w_actors w) |}
      else None
    | _ => None
    end
  end.

Definition late_step_skip (c : cfg) (w : world) (le : lateev) : world :=
  match late_step c w le with Some w' => w' | None => w end.
Definition late_run (c : cfg) (w : world) (evs : list lateev) : world := fold_left (late_step_skip c) evs w.

Fixpoint late_run_strict (c : cfg) (w : world) (evs : list lateev) (i : nat) : world + nat :=
  match evs with
  | [] => inl w
  | e :: evs' => match late_step c w e with Some w' => late_run_strict c w' evs' (S i) | None => inr i end
  end.

Definition no_late (evs : list lateev) : Prop := Forall (fun le => match le with LEv _ => True | LLate _ => False end) evs.
Definition plain (evs : list lateev) : list event :=
  flat_map (fun le => match le with LEv e => [e] | LLate _ => [] end) evs.

(* the full statement: a commit that reported a conflict is not reflected, whatever the HTTP layer does *)
Definition conflict_not_reflected_with_resent_writes : Prop :=
  forall c m0 kind mr evs, cas c = true ->
    let w := late_run c (init_world m0 kind mr) evs in
    forall a, a_pc (w_actors w a) = PDone Conflict -> ~ In a (map snd (w_hist w)).
