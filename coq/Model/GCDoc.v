(* Model/GCDoc.v -- the garbage collector over DOCUMENTS: what the collection works from when the metadata file, a
   manifest list or a manifest is a well-formed JSON / Avro document whose STRUCTURE may be damaged (a key dropped,
   nulled, of another type).  Definitions only.  The readers' demands are the regenerated shapes of Gen/GenDoc.v
   (translator/gen_doc.py); Model/GC.v is the collector below them.

     collect_doc      metadata_manager.refresh() = _read_metadata_file = json.loads + _dict_to_metadata on the current
                      metadata file: a document the reader refuses makes collect() raise before it has deleted anything
                      (DocRefused); so does a document whose current_snapshot_id names none of the snapshots it lists
                      (collect()'s _require_current_snapshot_listed: the snapshot list lost at least the current snapshot);
                      otherwise collect() runs on the manifest lists of ALL the document's snapshots.
     list_records_content / manifest_records_content
                      the content class (Model/GC.v `content`) of an Avro manifest list / manifest given its decoded
                      records: the reader converts the records one by one (a record it refuses ends the read with an
                      exception: nothing decoded so far is used), and the collector refuses an entry whose path is not a
                      string (collect(): `if not isinstance(m_path, str): raise GarbageCollectionAborted`; a data-file
                      path that is not a string makes _normalize_path raise).
   Tied to the code by the `doc_decode` / `doc_runs` correspondences of harness/props/c07.py. *)
From Coq Require Import ZArith List Bool String Ascii.
Require Import DS.Model.PyStr DS.Gen.GenNorm DS.Model.GC DS.Model.Doc DS.Gen.GenDoc.
Import ListNotations.
Open Scope string_scope.
Open Scope Z_scope.

(* ---- what a record shape demands (computed on the regenerated shapes) *)
Definition shape_req (sh : shape) : fields := match sh with SRec r _ => r | _ => FNil end.

(* the reader of `sh` demands: key `section` is a LIST (isinstance guard) whose items carry key k as a STRING *)
Definition demands_section_strings (sh : shape) (section k : string) : bool :=
  match field_shape section (shape_req sh) with
  | Some (SSeq true item) => match field_shape k (shape_req item) with Some SStr => true | _ => false end
  | _ => false
  end.

(* the reader of `sh` demands: key `section` is there (subscripted) and is a LIST (isinstance guard) *)
Definition demands_list_section (sh : shape) (section : string) : bool :=
  match field_shape section (shape_req sh) with Some (SSeq true _) => true | _ => false end.

(* the reader of `sh` subscripts key k (KeyError when it is missing) *)
Definition demands_key (sh : shape) (k : string) : bool :=
  match field_shape k (shape_req sh) with Some _ => true | None => false end.

(* ---- the metadata document *)
(* Snapshot.manifest_list of every snapshot of the document *)
Definition doc_lists (d : jv) : list string :=
  match section_strings gen_snapshots_key gen_manifest_list_key d with Some l => l | None => [] end.

Inductive doc_result := DocRefused | DocRun (r : result).

(* Python `a == b` on decoded values: numbers by value (True == 1, False == 0), strings, None, lists element-wise, dicts
   as key -> value maps (json.loads never yields a dict with a repeated key).  JOther (a float that is not an integer,
   bytes) compares unequal to everything: the model does not look into such values. *)
Fixpoint py_eqb (a b : jv) {struct a} : bool :=
  match a, b with
  | JNull, JNull => true
  | JBool x, JBool y => Bool.eqb x y
  | JBool x, JNum y => Z.eqb (if x then 1 else 0) y
  | JNum x, JBool y => Z.eqb x (if y then 1 else 0)
  | JNum x, JNum y => Z.eqb x y
  | JStr x, JStr y => String.eqb x y
  | JArr l, JArr m =>
      (fix go (l m : list jv) {struct l} : bool :=
         match l, m with
         | [], [] => true
         | x :: l', y :: m' => py_eqb x y && go l' m'
         | _, _ => false
         end) l m
  | JObj fs, JObj gs =>
      Nat.eqb (List.length fs) (List.length gs)
      && (fix go (fs : list (string * jv)) {struct fs} : bool :=
            match fs with
            | [] => true
            | kv :: r => match assoc (fst kv) gs with Some v' => py_eqb (snd kv) v' | None => false end && go r
            end) fs
  | _, _ => false
  end.

(* GarbageCollector._require_current_snapshot_listed on the document (TableMetadata.current_snapshot_id and
   Snapshot.snapshot_id are the document's values at gen_current_snapshot_key / gen_snapshot_id_key, passed on unchanged):
       current_id = metadata.current_snapshot_id
       if current_id is None or current_id == -1: return                     -- "no snapshot yet"
       for snapshot in metadata.snapshots: if snapshot.snapshot_id == current_id: return
       raise GarbageCollectionAborted
   The helper's body is pinned by translator/gen_norm.py; whether collect() calls it (after refresh(), before the first
   sweep) is the regenerated COLLECT_CHECKS_CURRENT_SNAPSHOT. *)
Definition current_unset (c : jv) : bool :=
  match c with JNull => true | _ => py_eqb c (JNum CURRENT_UNSET_NUM) end.
Definition snapshot_has_id (c : jv) (it : jv) : bool :=
  match py_getitem it gen_snapshot_id_key with Some i => py_eqb i c | None => false end.
Definition current_listed (d : jv) : bool :=
  match py_getitem d gen_current_snapshot_key, py_getitem d gen_snapshots_key with
  | Some c, Some (JArr items) => current_unset c || existsb (snapshot_has_id c) items
  | _, _ => false
  end.

(* specification vocabulary: the document names a current snapshot (its current_snapshot_id is not null and not -1, "no
   snapshot yet") and NONE of the snapshots it lists has that id -- the document contradicts itself about which snapshots
   the table has (`snapshots: []` under a set current_snapshot_id; the current snapshot gone from the list) *)
Definition dangling_current (d : jv) : Prop :=
  exists c items, py_getitem d gen_current_snapshot_key = Some c /\ py_getitem d gen_snapshots_key = Some (JArr items)
    /\ c <> JNull /\ py_eqb c (JNum (-1)) = false
    /\ forall it, In it items -> forall i, py_getitem it gen_snapshot_id_key = Some i -> py_eqb i c = false.

Definition collect_doc (ext : string -> jv -> bool) (tp : string) (grace now timeout : Z) (o : oracle) (d : jv) (st : store) : doc_result :=
  if accepts ext gen_metadata_shape d then
    if negb COLLECT_CHECKS_CURRENT_SNAPSHOT || current_listed d then DocRun (gc_run tp grace now timeout o (doc_lists d) st)
    else DocRefused
  else DocRefused.

Definition doc_deleted (r : doc_result) : list key := match r with DocRefused => [] | DocRun r => r_deleted r end.

(* ---- manifest lists and manifests given as decoded records *)
Definition unreadable : content := CPartialAvro [] false.

Definition list_records_content (ext : string -> jv -> bool) (recs : list jv) : content :=
  if forallb (accepts ext gen_list_record_shape) recs then
    match strings_at gen_list_path_key recs with Some ps => CList FAvro ps | None => unreadable end
  else unreadable.

(* record[file_key][path_key] of every record *)
Fixpoint strings_at2 (k1 k2 : string) (recs : list jv) : option (list string) :=
  match recs with
  | [] => Some []
  | r :: rest =>
      match py_getitem r k1 with
      | Some h =>
          match py_getitem h k2, strings_at2 k1 k2 rest with
          | Some (JStr s), Some ss => Some (s :: ss)
          | _, _ => None
          end
      | None => None
      end
  end.

Definition manifest_records_content (ext : string -> jv -> bool) (recs : list jv) : content :=
  if forallb (accepts ext gen_manifest_record_shape) recs then
    match strings_at2 gen_manifest_file_key gen_manifest_path_key recs with Some ps => CManifest FAvro ps | None => unreadable end
  else unreadable.

(* the legacy JSON documents: `doc.get("manifests", [])` / `doc.get("files", [])` iterated *)
Definition json_items (k : string) (d : jv) : option (list jv) :=
  match d with
  | JObj fs => match assoc k fs with None => Some [] | Some v => py_iter v end
  | _ => None
  end.

Definition list_json_content (ext : string -> jv -> bool) (d : jv) : content :=
  if accepts ext gen_list_json_shape d then
    match json_items gen_list_json_key d with
    | Some items =>
        match strings_at gen_list_path_key items with
        | Some ps => match py_getitem d gen_list_json_key with None => CJsonEmpty | Some _ => CList FJson ps end
        | None => CGarbage
        end
    | None => CGarbage
    end
  else CGarbage.

Definition manifest_json_content (ext : string -> jv -> bool) (d : jv) : content :=
  if accepts ext gen_manifest_json_shape d then
    match json_items gen_manifest_json_key d with
    | Some items =>
        match strings_at gen_manifest_path_key items with
        | Some ps => match py_getitem d gen_manifest_json_key with None => CJsonEmpty | Some _ => CManifest FJson ps end
        | None => CGarbage
        end
    | None => CGarbage
    end
  else CGarbage.

(* rendering for the correspondence harness: 0 = refused; 1 = accepted with these manifest lists *)
Definition render_decode (ext : string -> jv -> bool) (d : jv) : Z * list string :=
  if accepts ext gen_metadata_shape d then (1, doc_lists d) else (0, []).
(* 0 = the reader refuses the document; 1 = accepted, the collection runs on these lists; 2 = accepted by the reader, refused
   by the collector (dangling current_snapshot_id) *)
Definition render_collect_decision (ext : string -> jv -> bool) (d : jv) : Z * list string :=
  if accepts ext gen_metadata_shape d then
    if negb COLLECT_CHECKS_CURRENT_SNAPSHOT || current_listed d then (1, doc_lists d) else (2, doc_lists d)
  else (0, []).
Definition content_code (c : content) : Z * list string :=
  match c with
  | CList FAvro ps => (1, ps) | CList FJson ps => (2, ps) | CManifest FAvro ps => (3, ps) | CManifest FJson ps => (4, ps)
  | CJsonEmpty => (5, []) | _ => (0, [])
  end.
Definition render_doc (res : doc_result) := match res with DocRefused => None | DocRun r => Some (render r) end.
