(* Model/Value.v -- the value domain shared by the filter / pruning / bound-codec models.

   Python values that can appear as cell values, filter literals and column bounds:
     None, bool, int, float (finite, +-inf, NaN), str (code points), datetime (naive, microseconds),
     date (days), time (microseconds).
   Finite floats and ints live on one exact number line (Q): Python compares int with float exactly,
   and every finite double is a (dyadic) rational.

   Definitions only; proofs are in Proofs/. *)
From Coq Require Import ZArith QArith List Bool.
Import ListNotations.
Open Scope Z_scope.

Inductive num := Fin (q : Q) | PInf | NInf | NaN.

Inductive value :=
| VNull
| VBool (b : bool)
| VInt (z : Z)
| VFlt (f : num)
| VStr (s : list Z)
| VTs (us : Z)
| VDate (d : Z)
| VTime (us : Z).

(* numeric view: bool is an int subclass in Python *)
Definition num_of (v : value) : option num :=
  match v with
  | VBool b => Some (Fin (inject_Z (if b then 1 else 0)))
  | VInt z => Some (Fin (inject_Z z))
  | VFlt f => Some f
  | _ => None
  end.

(* three-way comparison with an "unordered" outcome for NaN *)
Inductive ord := OLt | OEq | OGt | OUn.

Definition ord_of (c : comparison) : ord :=
  match c with Lt => OLt | Eq => OEq | Gt => OGt end.

Definition num_cmp (a b : num) : ord :=
  match a, b with
  | NaN, _ | _, NaN => OUn
  | NInf, NInf => OEq
  | NInf, _ => OLt
  | _, NInf => OGt
  | PInf, PInf => OEq
  | PInf, _ => OGt
  | _, PInf => OLt
  | Fin x, Fin y => ord_of (x ?= y)%Q
  end.

(* lexicographic order on code-point lists = Python str ordering (= UTF-8 byte order) *)
Fixpoint lex_cmp (s t : list Z) : comparison :=
  match s, t with
  | [], [] => Eq
  | [], _ :: _ => Lt
  | _ :: _, [] => Gt
  | a :: s', b :: t' => match a ?= b with Eq => lex_cmp s' t' | c => c end
  end.

(* Python ordering comparison of two values: None = TypeError *)
Definition vcmp (a b : value) : option ord :=
  match num_of a, num_of b with
  | Some x, Some y => Some (num_cmp x y)
  | _, _ =>
    match a, b with
    | VStr s, VStr t => Some (ord_of (lex_cmp s t))
    | VTs x, VTs y => Some (ord_of (x ?= y))
    | VDate x, VDate y => Some (ord_of (x ?= y))
    | VTime x, VTime y => Some (ord_of (x ?= y))
    | _, _ => None
    end
  end.

Definition is_lt (o : ord) : bool := match o with OLt => true | _ => false end.
Definition is_le (o : ord) : bool := match o with OLt | OEq => true | _ => false end.
Definition is_gt (o : ord) : bool := match o with OGt => true | _ => false end.
Definition is_ge (o : ord) : bool := match o with OGt | OEq => true | _ => false end.
Definition is_eq (o : ord) : bool := match o with OEq => true | _ => false end.

(* Python `a < b` etc.: None = TypeError *)
Definition py_lt (a b : value) : option bool := option_map is_lt (vcmp a b).
Definition py_le (a b : value) : option bool := option_map is_le (vcmp a b).
Definition py_gt (a b : value) : option bool := option_map is_gt (vcmp a b).
Definition py_ge (a b : value) : option bool := option_map is_ge (vcmp a b).

(* Python `a == b`: never raises; values of incomparable kinds are unequal; None == None *)
Definition py_eqb (a b : value) : bool :=
  match vcmp a b with
  | Some o => is_eq o
  | None => match a, b with VNull, VNull => true | _, _ => false end
  end.
Definition py_eq (a b : value) : option bool := Some (py_eqb a b).
Definition py_ne (a b : value) : option bool := Some (negb (py_eqb a b)).

(* ---- short-circuit combinators over "bool or TypeError" ---- *)
Definition p_bind {A} (x : option bool) (k : bool -> option A) : option A :=
  match x with None => None | Some b => k b end.

Definition p_or (x : option bool) (y : unit -> option bool) : option bool :=
  match x with None => None | Some true => Some true | Some false => y tt end.

Definition p_and (x : option bool) (y : unit -> option bool) : option bool :=
  match x with None => None | Some false => Some false | Some true => y tt end.

Definition p_not (x : option bool) : option bool :=
  match x with None => None | Some b => Some (negb b) end.

(* any(f v for v in l): stops at the first True; an exception propagates *)
Fixpoint p_any {A} (f : A -> option bool) (l : list A) : option bool :=
  match l with
  | [] => Some false
  | v :: l' => match f v with None => None | Some true => Some true | Some false => p_any f l' end
  end.

Definition is_float (v : value) : bool := match v with VFlt _ => true | _ => false end.
Definition is_bool (v : value) : bool := match v with VBool _ => true | _ => false end.
Definition is_nan (v : value) : bool := match v with VFlt NaN => true | _ => false end.
Definition is_null (v : value) : bool := match v with VNull => true | _ => false end.

(* filter operators (filters.FilterOp) *)
Inductive fop := EQ | NE | LT | LE | GT | GE | IN | NOT_IN | IS_NULL | IS_NOT_NULL.

Definition fop_eqb (a b : fop) : bool :=
  match a, b with
  | EQ, EQ | NE, NE | LT, LT | LE, LE | GT, GT | GE, GE | IN, IN | NOT_IN, NOT_IN
  | IS_NULL, IS_NULL | IS_NOT_NULL, IS_NOT_NULL => true
  | _, _ => false
  end.
