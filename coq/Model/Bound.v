(* Model/Bound.v -- the bound codec round trip (file_manager._encode_bound / _decode_bound).
   enc = GenBound.gen_encode (regenerated); the JSON text in between is abstracted by the assumption
   JSON-exact: json.loads(json.dumps({"t": tag, "v": p})) gives back tag and p for bool / int / float
   (including NaN, +-Infinity, -0.0) / str payloads -- validated by the harness on boundary values.
   dec follows _decode_bound: tagged object -> dispatch on the tag; a conversion that raises
   ValueError / TypeError returns the raw payload. *)
From Coq Require Import ZArith List Bool String.
Require Import DS.Model.Value DS.Model.BoundPrim DS.Gen.GenBound.

Definition enc (v : value) : string * jpayload := gen_encode v.

Definition dec (e : string * jpayload) : value :=
  match gen_decode_tag (fst e) (snd e) with
  | Some v => v
  | None => raw_value (snd e)
  end.

Definition boundable (v : value) : bool := negb (is_null v).
