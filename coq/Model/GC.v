(* Model/GC.v -- executable model of GarbageCollector.collect (garbage_collector.py) over an abstract
   store, following the code call by call, with a fault oracle indexed by storage-call number.
   Definitions only.  `normalize_path`, the marker fallback, INFLIGHT_PATH come from Gen/GenNorm.v,
   regenerated from the source on every run.

   What is modelled (and tied to the code by the `gc_run` correspondence of harness/props/c05.py, c07.py):
     collect():   reachable lists from ALL retained snapshots (normalised, de-duplicated) ->
                  per list:  exists, [read_manifest_list_file: exists, open_file+Avro, (JSON fallback: read_file)]
                  per manifest: exists, [read_manifest_file: exists, open_file+Avro, (fallback read_file)]
                  any exception -> GarbageCollectionAborted (phase PhLists / PhManifests)
     _load_inflight_protection(): list_files(INFLIGHT_PATH) (failure -> abort, PhMarkers);
                  per marker: normalise, get_modified_time (failure -> age_ok = True), basename / ".inflight"
                  test, _marker_targets (read_file; unusable payload -> fallback names), abandoned marker ->
                  delete_file (failure -> keep protecting)
     _gc_prefix("data"), _gc_prefix("metadata/manifests"): list_files (failure -> abort), per key: normalise,
                  ".." escape -> abort, not in reachable|protected -> get_modified_time, older than cutoff ->
                  delete_file; any exception in the two calls -> skip this key.
   Not modelled here: metadata_manager.refresh() (the retained snapshots' manifest-list paths `snaps`
   are an input; pointer / metadata-file damage is C10 / C14), the three time.time() reads are one `now`. *)
From Coq Require Import ZArith List Bool String Ascii.
Require Import DS.Model.PyStr DS.Gen.GenNorm.
Import ListNotations.
Open Scope string_scope.
Open Scope Z_scope.

Definition key := string.

(* ---------------------------------------------------------------- store *)
Inductive fmt := FAvro | FJson.

Inductive content :=
| CData                                           (* a data file (opaque) *)
| CManifest (f : fmt) (entries : list string)     (* data-file paths exactly as written *)
| CList (f : fmt) (manifests : list string)       (* manifest paths exactly as written *)
| CMarker (payload : option string)               (* Some p: JSON payload with "file_path" = p; None: no usable payload *)
| CGarbage                                        (* bytes that parse as nothing (fastavro: ValueError, no Avro header) *)
| CTruncAvro                                      (* an Avro container cut inside a block (fastavro: EOFError, not caught) *)
| CJsonEmpty                                      (* a JSON object WITHOUT the section a legacy list / manifest consists of
                                                     ("manifests" / "files"): not a list, not a manifest (as_list / as_manifest
                                                     below).  What the legacy JSON fallback of the readers makes of it is read
                                                     off the source: Gen/GenNorm.v *_JSON_MISSING_SECTION_READS_EMPTY
                                                     (`DOC.get(key, [])`: an EMPTY list / manifest; `DOC[key]`: refused) *)
| CPartialAvro (decoded : list string) (caught : bool).
                                                  (* an Avro container (or a stream) that yields the paths `decoded` of its first
                                                     records and THEN fails: a damaged later record / block / sync marker, or a
                                                     read error mid-stream.  caught = the exception is of the class the readers
                                                     catch (ValueError incl. UnicodeDecodeError, IndexError, StopIteration, OSError).
                                                     The records already decoded must never be used. *)

Record obj := mkObj { mtime : Z (* ms *); body : content }.
Definition store := list (key * obj).

Fixpoint lookup (k : key) (st : store) : option obj :=
  match st with
  | [] => None
  | (k', o) :: r => if String.eqb k k' then Some o else lookup k r
  end.

Definition remove_key (k : key) (st : store) : store :=
  filter (fun p => negb (String.eqb k (fst p))) st.

(* LocalStorageBackend.list_files(prefix): every file below directory `prefix`, table-relative *)
Definition list_dir (prefix : string) (st : store) : list key :=
  filter (startswith (prefix ++ "/")) (map fst st).

(* ---------------------------------------------------------------- faults and calls *)
(* FRaise: the call raises (OSError / FileNotFoundError / ClientError ...).
   FBad  : the call returns something unusable: exists -> False; open_file / read_file -> unparseable
           bytes; list_files -> the true listing followed by "../x"; stat / delete -> raises. *)
(* FRaiseX: the call raises an exception that is NOT an OSError (e.g. botocore ClientError): identical to
   FRaise everywhere except inside read_manifest(_list)_file, whose Avro attempt only catches
   (ValueError, IndexError, StopIteration, OSError) -- anything else propagates without the JSON fallback. *)
Inductive fault := FRaise | FRaiseX | FBad.
Definition oracle := nat -> option fault.
Definition no_faults : oracle := fun _ => None.

Inductive call :=
| KExists (k : key) | KOpen (k : key) | KRead (k : key)
| KListDir (p : string) | KStat (k : key) | KDelete (k : key).

Record gst := mkG { g_calls : nat; g_store : store; g_trace : list (call * option fault) (* newest first *) }.

Definition tick (o : oracle) (g : gst) (c : call) : option fault * gst :=
  (o (g_calls g), mkG (S (g_calls g)) (g_store g) ((c, o (g_calls g)) :: g_trace g)).

Definition is_some {A} (x : option A) : bool := match x with Some _ => true | None => false end.

(* Each primitive returns None when the call raised. *)
Definition do_exists (o : oracle) (g : gst) (k : key) : option bool * gst :=
  let (f, g') := tick o g (KExists k) in
  match f with
  | Some FBad => (Some false, g')
  | Some _ => (None, g')
  | None => (Some (is_some (lookup k (g_store g))), g')
  end.

Definition do_listdir (o : oracle) (g : gst) (p : string) : option (list key) * gst :=
  let (f, g') := tick o g (KListDir p) in
  match f with
  | Some FBad => (Some (list_dir p (g_store g) ++ ["../x"])%list, g')
  | Some _ => (None, g')
  | None => (Some (list_dir p (g_store g)), g')
  end.

Definition do_stat (o : oracle) (g : gst) (k : key) : option Z * gst :=
  let (f, g') := tick o g (KStat k) in
  match f with
  | Some _ => (None, g')
  | None => (option_map mtime (lookup k (g_store g)), g')
  end.

(* delete_file on a missing file is a no-op *)
Definition do_delete (o : oracle) (g : gst) (k : key) : option unit * gst :=
  let (f, g') := tick o g (KDelete k) in
  match f with
  | Some _ => (None, g')
  | None => (Some tt, mkG (g_calls g') (remove_key k (g_store g')) (g_trace g'))
  end.

(* read_file: the bytes, as the content they parse to *)
Definition do_read (o : oracle) (g : gst) (k : key) : option content * gst :=
  let (f, g') := tick o g (KRead k) in
  match f with
  | Some FBad => (Some CGarbage, g')
  | Some _ => (None, g')
  | None => (option_map body (lookup k (g_store g)), g')
  end.

(* open_file + fastavro: OCaught = an exception of the caught tuple (OSError incl. FileNotFoundError),
   OOther = any other exception, OContent = the stream's bytes *)
Inductive open_res := OCaught | OOther | OContent (c : content).
Definition do_open (o : oracle) (g : gst) (k : key) : open_res * gst :=
  let (f, g') := tick o g (KOpen k) in
  match f with
  | Some FRaise => (OCaught, g')
  | Some FRaiseX => (OOther, g')
  | Some FBad => (OContent CGarbage, g')
  | None => (match lookup k (g_store g) with Some ob => OContent (body ob) | None => OCaught end, g')
  end.

(* ---------------------------------------------------------------- reading lists and manifests *)
Inductive want := WList | WManifest.

(* fastavro on the stream: parsed records / not an Avro container (ValueError... -> JSON fallback) /
   an Avro container of the other schema (KeyError: propagates, no fallback) *)
Inductive avro_view := AvOk (xs : list string) | AvNot | AvWrong.

Definition avro_parse (w : want) (c : content) : avro_view :=
  match w, c with
  | WList, CList FAvro ms => AvOk ms
  | WManifest, CManifest FAvro es => AvOk es
  | WList, CManifest FAvro _ => AvWrong
  | WManifest, CList FAvro _ => AvWrong
  | _, CTruncAvro => AvWrong
  | _, CPartialAvro _ caught => if caught then AvNot else AvWrong
  | _, _ => AvNot
  end.

Definition json_parse (w : want) (c : content) : option (list string) :=
  match w, c with
  | WList, CList FJson ms => Some ms
  | WManifest, CManifest FJson es => Some es
  | WList, CJsonEmpty => if LIST_JSON_MISSING_SECTION_READS_EMPTY then Some [] else None
  | WManifest, CJsonEmpty => if MANIFEST_JSON_MISSING_SECTION_READS_EMPTY then Some [] else None
  | _, _ => None
  end.

(* the JSON fallback of read_manifest(_list)_file: read_file + json.loads *)
Definition read_fallback (w : want) (o : oracle) (g : gst) (k : key) : option (list string) * gst :=
  match do_read o g k with
  | (None, g1) => (None, g1)
  | (Some c, g1) => (json_parse w c, g1)
  end.

(* collect()'s `exists` + FileManager.read_manifest(_list)_file (its own `exists`, Avro, JSON fallback);
   None = an exception left the try block (=> GarbageCollectionAborted) *)
Definition read_one (w : want) (o : oracle) (g : gst) (k : key) : option (list string) * gst :=
  match do_exists o g k with
  | (Some true, g1) =>
      match do_exists o g1 k with
      | (Some true, g2) =>
          match do_open o g2 k with
          | (OCaught, g3) => read_fallback w o g3 k        (* OSError is in the caught tuple *)
          | (OOther, g3) => (None, g3)
          | (OContent c, g3) =>
              match avro_parse w c with
              | AvOk xs => (Some xs, g3)
              | AvNot => read_fallback w o g3 k
              | AvWrong => (None, g3)
              end
          end
      | (_, g2) => (None, g2)
      end
  | (_, g1) => (None, g1)
  end.

Fixpoint read_all (w : want) (o : oracle) (g : gst) (ks : list key) : option (list string) * gst :=
  match ks with
  | [] => (Some [], g)
  | k :: r =>
      match read_one w o g k with
      | (None, g1) => (None, g1)
      | (Some xs, g1) =>
          match read_all w o g1 r with
          | (None, g2) => (None, g2)
          | (Some ys, g2) => (Some (xs ++ ys)%list, g2)
          end
      end
  end.

Definition norm_set (tp : string) (paths : list string) : list key :=
  nodup string_dec (map (normalize_path tp) (filter nonempty paths)).

(* ---------------------------------------------------------------- in-flight markers *)
Definition INFLIGHT_SUFFIX : string := ".inflight".

(* _marker_targets *)
Definition marker_targets (tp : string) (o : oracle) (g : gst) (nm bn : string) : list key * gst :=
  match do_read o g nm with
  | (Some (CMarker (Some t)), g1) => if nonempty t then ([normalize_path tp t], g1) else (marker_fallback nm bn, g1)
  | (_, g1) => (marker_fallback nm bn, g1)
  end.

Fixpoint markers_loop (tp : string) (cutoff : Z) (o : oracle) (g : gst) (ms : list key) (prot : list key)
  : list key * gst :=
  match ms with
  | [] => (prot, g)
  | mp :: r =>
      let nm := normalize_path tp mp in
      let (st_, g1) := do_stat o g nm in
      let age_ok := match st_ with Some t => cutoff <=? t | None => true end in
      let bn := basename nm in
      if negb (endswith INFLIGHT_SUFFIX bn) then markers_loop tp cutoff o g1 r prot
      else
        let (targets, g2) := marker_targets tp o g1 nm bn in
        if age_ok then markers_loop tp cutoff o g2 r (targets ++ prot)%list
        else
          match do_delete o g2 nm with
          | (None, g3) => markers_loop tp cutoff o g3 r (targets ++ prot)%list
          | (Some _, g3) => markers_loop tp cutoff o g3 r prot
          end
  end.

(* None: the marker listing failed (=> GarbageCollectionAborted) *)
Definition load_protection (tp : string) (timeout now : Z) (o : oracle) (g : gst) : option (list key) * gst :=
  match do_listdir o g INFLIGHT_PATH with
  | (None, g1) => (None, g1)
  | (Some ms, g1) => let (p, g2) := markers_loop tp (now - timeout) o g1 ms [] in (Some p, g2)
  end.

(* ---------------------------------------------------------------- sweep *)
Definition escapes (p : string) : bool := String.eqb p ".." || startswith "../" p.

(* returns (aborted?, deleted keys (newest first), state) *)
Fixpoint sweep_loop (tp : string) (cutoff : Z) (keep : list key) (o : oracle) (g : gst) (ks : list key) (dels : list key)
  : bool * list key * gst :=
  match ks with
  | [] => (false, dels, g)
  | k :: r =>
      let nk := normalize_path tp k in
      if escapes nk then (true, dels, g)
      else if str_mem nk keep then sweep_loop tp cutoff keep o g r dels
      else
        match do_stat o g k with
        | (None, g1) => sweep_loop tp cutoff keep o g1 r dels
        | (Some t, g1) =>
            if t <? cutoff then
              match do_delete o g1 k with
              | (None, g2) => sweep_loop tp cutoff keep o g2 r dels
              | (Some _, g2) => sweep_loop tp cutoff keep o g2 r (k :: dels)
              end
            else sweep_loop tp cutoff keep o g1 r dels
        end
  end.

Definition sweep (tp : string) (grace now : Z) (keep : list key) (o : oracle) (g : gst) (prefix : string) (dels : list key)
  : bool * list key * gst :=
  match do_listdir o g prefix with
  | (None, g1) => (true, dels, g1)
  | (Some ks, g1) => sweep_loop tp (now - grace) keep o g1 ks dels
  end.

(* ---------------------------------------------------------------- collect *)
Inductive phase := PhLists | PhManifests | PhMarkers | PhSweepData | PhSweepManifests.
Inductive outcome := Done | Aborted (ph : phase).

Record result := mkR {
  r_out : outcome;
  r_deleted : list key;          (* files removed by the two sweeps *)
  r_reach_lists : list key; r_reach_manifests : list key; r_reach_data : list key;
  r_protected : list key;
  r_final : gst
}.

Definition DATA_PREFIX : string := "data".
Definition MANIFESTS_PREFIX : string := "metadata/manifests".

(* reachability: every retained snapshot's list -> manifests -> data files; any exception aborts *)
Inductive reach_res := RAbort (ph : phase) (rl rm : list key) | ROk (rl rm rd : list key).

Definition reach (tp : string) (o : oracle) (snaps : list string) (g : gst) : reach_res * gst :=
  let rl := norm_set tp snaps in
  match read_all WList o g rl with
  | (None, g1) => (RAbort PhLists rl [], g1)
  | (Some mpaths, g1) =>
      let rm := norm_set tp mpaths in
      match read_all WManifest o g1 rm with
      | (None, g2) => (RAbort PhManifests rl rm, g2)
      | (Some entries, g2) => (ROk rl rm (map (normalize_path tp) entries), g2)
      end
  end.

(* the two sweeps: _gc_prefix("data", reachable_data | protected), _gc_prefix("metadata/manifests", manifests | lists | protected) *)
Definition sweeps (tp : string) (grace now : Z) (o : oracle) (rl rm rd prot : list key) (g : gst) : result :=
  match sweep tp grace now (rd ++ prot)%list o g DATA_PREFIX [] with
  | (true, d1, g4) => mkR (Aborted PhSweepData) d1 rl rm rd prot g4
  | (false, d1, g4) =>
      match sweep tp grace now ((rm ++ rl) ++ prot)%list o g4 MANIFESTS_PREFIX d1 with
      | (true, d2, g5) => mkR (Aborted PhSweepManifests) d2 rl rm rd prot g5
      | (false, d2, g5) => mkR Done d2 rl rm rd prot g5
      end
  end.

(* collect().  `markers_first` is the order of the two preparatory phases IN THE SOURCE (regenerated:
   GenNorm.MARKERS_FIRST): false = reachability, then in-flight protection (the code as it stands);
   true = in-flight protection before the metadata is read (the repair DESIGN.md plans for C06).
   Every theorem is proved for both orders. *)
Definition gc_run_from (markers_first : bool) (tp : string) (grace now timeout : Z) (o : oracle) (snaps : list string) (g0 : gst) : result :=
  if markers_first then
    match load_protection tp timeout now o g0 with
    | (None, g1) => mkR (Aborted PhMarkers) [] [] [] [] [] g1
    | (Some prot, g1) =>
        match reach tp o snaps g1 with
        | (RAbort ph rl rm, g2) => mkR (Aborted ph) [] rl rm [] prot g2
        | (ROk rl rm rd, g2) => sweeps tp grace now o rl rm rd prot g2
        end
    end
  else
    match reach tp o snaps g0 with
    | (RAbort ph rl rm, g1) => mkR (Aborted ph) [] rl rm [] [] g1
    | (ROk rl rm rd, g1) =>
        match load_protection tp timeout now o g1 with
        | (None, g2) => mkR (Aborted PhMarkers) [] rl rm rd [] g2
        | (Some prot, g2) => sweeps tp grace now o rl rm rd prot g2
        end
    end.

Definition gc_run (tp : string) (grace now timeout : Z) (o : oracle) (snaps : list string) (st : store) : result :=
  gc_run_from MARKERS_FIRST tp grace now timeout o snaps (mkG 0 st []).

(* ---------------------------------------------------------------- rendering for the correspondence harness *)
Definition oracle_of (l : list (nat * fault)) : oracle :=
  fun n => match find (fun p => Nat.eqb (fst p) n) l with Some p => Some (snd p) | None => None end.
Definition call_code (c : call) : string * string :=
  match c with
  | KExists k => ("E", k) | KOpen k => ("O", k) | KRead k => ("R", k)
  | KListDir p => ("L", p) | KStat k => ("S", k) | KDelete k => ("D", k)
  end.
Definition fault_code (f : option fault) : Z :=
  match f with None => 0 | Some FRaise => 1 | Some FRaiseX => 2 | Some FBad => 3 end.
Definition out_code (o : outcome) : Z :=
  match o with
  | Done => 0 | Aborted PhLists => 1 | Aborted PhManifests => 2 | Aborted PhMarkers => 3
  | Aborted PhSweepData => 4 | Aborted PhSweepManifests => 5
  end.
Definition render (r : result) :=
  (out_code (r_out r), r_deleted r, (r_reach_lists r, r_reach_manifests r, r_reach_data r), r_protected r,
   map (fun cf => (call_code (fst cf), fault_code (snd cf))) (rev (g_trace (r_final r))),
   map fst (g_store (r_final r))).

(* ---------------------------------------------------------------- specification vocabulary
   (independent of normalize_path: this is how every READER resolves a stored path) *)
Definition resolve (p : string) : string := lstrip_c slash p.

Definition table_relative (p : string) : Prop := startswith "data/" p = true \/ startswith "metadata/" p = true.

(* a stored reference as the writers produce it: "data/x", "/data/x", "metadata/manifests/y", ... *)
Definition wf_ref (r : string) : Prop := table_relative (resolve r).
Definition wf_data_ref (r : string) : Prop := startswith "data/" (resolve r) = true.      (* data files live under data/ *)
Definition wf_meta_ref (r : string) : Prop := startswith "metadata/manifests/" (resolve r) = true.  (* lists, manifests *)

(* what a file IS (Avro or legacy JSON).  A JSON object without its `manifests` / `files` section is NOT a list / manifest
   without entries: the document does not say what the snapshot consists of (specification; that the readers agree is
   Proofs/GCProofs.v json_parse_ok, through the regenerated *_JSON_MISSING_SECTION_READS_EMPTY) *)
Definition as_list (c : content) : option (list string) :=
  match c with CList _ ms => Some ms | _ => None end.
Definition as_manifest (c : content) : option (list string) :=
  match c with CManifest _ es => Some es | _ => None end.
Definition list_at (st : store) (k : key) (ms : list string) : Prop :=
  exists o, lookup k st = Some o /\ as_list (body o) = Some ms.
Definition manifest_at (st : store) (k : key) (es : list string) : Prop :=
  exists o, lookup k st = Some o /\ as_manifest (body o) = Some es.

Definition ref_list (snaps : list string) (k : key) : Prop :=
  exists l, In l snaps /\ nonempty l = true /\ k = resolve l.
Definition ref_manifest (snaps : list string) (st : store) (k : key) : Prop :=
  exists l ms m, In l snaps /\ nonempty l = true /\ list_at st (resolve l) ms /\ In m ms /\ nonempty m = true /\ k = resolve m.
Definition ref_data (snaps : list string) (st : store) (k : key) : Prop :=
  exists l ms m es e, In l snaps /\ nonempty l = true /\ list_at st (resolve l) ms /\ In m ms /\ nonempty m = true
                      /\ manifest_at st (resolve m) es /\ In e es /\ k = resolve e.
(* k is a file some retained snapshot needs *)
Definition referenced (snaps : list string) (st : store) (k : key) : Prop :=
  ref_list snaps k \/ ref_manifest snaps st k \/ ref_data snaps st k.

(* markers *)
Definition is_marker_key (mk : key) : Prop :=
  startswith (INFLIGHT_PATH ++ "/") mk = true /\ endswith INFLIGHT_SUFFIX (basename mk) = true.
(* the paths a marker's KEY can denote.  _register_inflight keys a marker by the WHOLE table-relative path of the file it
   protects ("metadata/inflight/" ++ path ++ ".inflight"): the key spells the path.  A key that spells no table-relative
   path is a marker of an older version, "<basename of the protected file>.inflight", written for data files (data/) and
   for manifests / manifest lists (metadata/manifests/) alike: both are denoted. *)
Definition name_candidates (mk : key) : list key :=
  let stem := py_drop_end (String.length INFLIGHT_SUFFIX) (basename mk) in
  let keyed := py_drop_end (String.length INFLIGHT_SUFFIX) (py_drop (String.length (INFLIGHT_PATH ++ "/")) mk) in
  if startswith "data/" keyed || startswith "metadata/" keyed then [keyed]
  else ["data/" ++ stem; "metadata/manifests/" ++ stem].
Definition marker_denotes (mk : key) (o : obj) (k : key) : Prop :=
  match body o with
  | CMarker (Some t) => if nonempty t then k = resolve t else In k (name_candidates mk)
  | _ => In k (name_candidates mk)
  end.
(* k is registered by a transaction whose marker is younger than the abandonment timeout *)
Definition live_target (now timeout : Z) (st : store) (k : key) : Prop :=
  exists mk o, lookup mk st = Some o /\ is_marker_key mk /\ now - timeout <= mtime o /\ marker_denotes mk o k.

(* writer-side path forms (an invariant of the sequential machine, Model/GCHist.v) *)
Record wf_store (snaps : list string) (st : store) : Prop := {
  wf_nodup : NoDup (map fst st);
  wf_snaps : forall l, In l snaps -> nonempty l = true -> wf_meta_ref l;
  wf_lists : forall k o ms m, lookup k st = Some o -> as_list (body o) = Some ms -> In m ms -> nonempty m = true -> wf_meta_ref m;
  wf_manifests : forall k o es e, lookup k st = Some o -> as_manifest (body o) = Some es -> In e es -> wf_data_ref e;
  (* _register_inflight: marker "metadata/inflight/<path>.inflight", payload = <path>, the table-relative path of the file
     (markers of older versions: "<basename>.inflight" for a file under data/ or metadata/manifests/) *)
  wf_markers : forall mk o t, lookup mk st = Some o -> is_marker_key mk -> body o = CMarker (Some t) -> nonempty t = true ->
               In (resolve t) (name_candidates mk)
}.

(* decidable version of wf_store (sound: Proofs/GCProofs.v wf_storeb_sound); used for the non-vacuity
   examples and by the harness to confirm that the stores it builds from real tables are well-formed *)
Fixpoint nodupb (l : list string) : bool :=
  match l with [] => true | x :: r => negb (str_mem x r) && nodupb r end.
Definition is_marker_keyb (mk : key) : bool :=
  startswith (INFLIGHT_PATH ++ "/") mk && endswith INFLIGHT_SUFFIX (basename mk).
Definition wf_objb (k : key) (o : obj) : bool :=
  match body o with
  | CList _ ms => forallb (fun m => negb (nonempty m) || startswith "metadata/manifests/" (resolve m)) ms
  | CManifest _ es => forallb (fun e => startswith "data/" (resolve e)) es
  | CMarker (Some t) => negb (is_marker_keyb k && nonempty t) || str_mem (resolve t) (name_candidates k)
  | _ => true
  end.
Definition wf_storeb (snaps : list string) (st : store) : bool :=
  nodupb (map fst st)
  && forallb (fun l => negb (nonempty l) || startswith "metadata/manifests/" (resolve l)) snaps
  && forallb (fun p => wf_objb (fst p) (snd p)) st.
