(* Model/ManifestPrim.v -- vocabulary for the manifest-level round trip of column bounds
   (file_manager.FileManager.create_manifest_file -> read_manifest_file), used by the regenerated
   Gen/GenManifest13.v.  Definitions only.

   A DataFile carries two Optional[Dict[int, Any]] (lower_bounds / upper_bounds: field id -> bound).
   A manifest is an Avro file with one record per entry; the bounds travel in two map<string> fields
   whose keys are str(field id) and whose values are the JSON text _encode_bound returns (modelled as
   the (tag, payload) pair of Model/BoundPrim.v).  fastavro writes and reads a list of records and
   their string maps exactly (assumption Avro-exact, validated by the harness on real manifests).

   The field ids here are INTS: what Schema.__post_init__ accepts (Proofs/SchemaIdsProofs.v, over the regenerated
   guards).  Their keys are the real strings: Model/FieldKey.v str_of_Z (Python str(int)) and kdec (Python int(str));
   that the two are inverse is PROVED (Proofs/FieldKeyProofs.v kdec_str_of_Z), not built into the key type.  What the
   two dict comprehensions do to ids that are NOT ints (1 and "1" meet) is Model/FieldKey.v key_trip. *)
From Coq Require Import ZArith List Bool String.
Require Import DS.Model.Value DS.Model.BoundPrim DS.Model.FieldKey.
Import ListNotations.
Open Scope Z_scope.

Definition bmap := list (Z * value).                  (* Dict[int, Any] *)
Definition ebound := (string * jpayload)%type.        (* json.dumps({"t": tag, "v": payload}) *)
Definition akey := list Z.                            (* str(field id), an Avro map key: a string (code points) *)
Definition amap := list (akey * ebound).              (* Avro map<string> *)

(* the bounds fields of a DataFile, and of a manifest entry record *)
Record dfb := { df_lower : option bmap; df_upper : option bmap }.
Record mrec := { r_status : Z; r_lower : option amap; r_upper : option amap }.

(* str(k) on an int field id; int(k) on a key.  (A key int() refuses makes read_manifest_file raise: not reached for the keys
   the writer produces from int ids -- Proofs/FieldKeyProofs.v py_int_of_str_of_id -- and rendered as 0 here.) *)
Definition py_str_of_id (k : Z) : akey := str_of_Z k.
Definition py_int_of_key (k : akey) : Z := match kdec k with IntOk z => z | _ => 0 end.

(* truthiness of an Optional[dict]: None and {} are falsy *)
Definition truthy {A} (m : option (list A)) : bool :=
  match m with Some (_ :: _) => true | _ => false end.
(* d.items() of a dict known to be truthy (the empty list otherwise; never reached) *)
Definition items {A} (m : option (list A)) : list A :=
  match m with Some l => l | None => [] end.
(* a falsy Optional[dict] (None or {}) that is passed on unchanged, seen at the other element type *)
Definition keep_falsy {A B} (m : option (list A)) : option (list B) :=
  match m with None => None | Some _ => Some [] end.
