(* Model/Read.v -- the fail-closed read pipeline of DataShard (property C14).

   What is modelled (after the code that exists; anchors in comments):
     resolve            MetadataManager.refresh / _current_version_info / _read_version_hint /
                        _read_metadata_file           (metadata_manager.py:120-134, 569-574, 622-633)
     get_all_data_files Table._get_all_data_files / _data_files_of (ONE resolution; transaction.py)
     read_list          FileManager.read_manifest_list_file (file_manager.py:419-475)
     read_manifest      FileManager.read_manifest_file      (file_manager.py:275-366)
     read_data          Table._read_datafile_table / the loop head of _iter_file_batches
                                                      (transaction.py:897-943, 1136-1148)
     read_current       scan / scan(parallel) / scan_batches / iter_records / row_count

   External behaviour is a record of functions [env] (never an axiom): SHA-256, the pointer parser
   (C10's subject), json.loads + _dict_to_metadata, fastavro + record conversion, the JSON fallback
   parsers, pyarrow's parquet reader, and what scanning the metadata directory recovers.  The
   exception classes that send an Avro failure to the JSON fallback are GenRead.list_fallback /
   GenRead.manifest_fallback, regenerated from the source on every run.

   A store maps every key (file name) to a cell: Absent, Present bytes, or Flaky site bytes -- a
   file whose access at one call site raises a transient OSError and which reads as [bytes] at every
   other site.  A site is (operation, occurrence index of that operation on that key within one API
   call); tables built by the library never list one file twice, so occurrence = call site.
   "Garbage" is not a separate cell: it is Present b for bytes b that the relevant parser rejects,
   which lets the theorems quantify over every parser behaviour.

   Every storage call the pipeline makes is logged in the result's trace; the correspondence harness
   compares it with the calls the real code makes.

   Not modelled: filters / pruning (C12, C13), path normalisation (C17), the pointer grammar and the
   recovery scan themselves (C10; here: [parse_hint], [recovered]), the S3 backend.
   Definitions only. *)
From Coq Require Import ZArith NArith List Bool String.
Require Import DS.Gen.GenRead.
Import ListNotations.
Open Scope list_scope.
Open Scope Z_scope.

Definition key := N.
Definition bytes := N.          (* identity of a byte string; the harness numbers the strings in play *)
Definition digest := N.
Definition row := Z.

(* ---------------------------------------------------------------- results *)
Inductive errk :=
| EInconsistent   (* RuntimeError: dangling snapshot id, missing manifest list, missing manifest *)
| ENotFound       (* FileNotFoundError *)
| EParse          (* neither parser accepts the bytes / json / parquet error / propagated Avro error *)
| ECorrupt        (* CorruptDataError: checksum mismatch *)
| EIO.            (* the injected transient OSError, propagated *)

Inductive res (A : Type) := Ok (a : A) | Err (e : errk).
Arguments Ok {A} a.
Arguments Err {A} e.

Inductive op := OpExists | OpOpen | OpRead | OpList.
Definition site := (op * nat)%type.
Definition access := (key * site)%type.

Definition op_eqb (a b : op) : bool :=
  match a, b with
  | OpExists, OpExists | OpOpen, OpOpen | OpRead, OpRead | OpList, OpList => true
  | _, _ => false
  end.
Definition site_eqb (a b : site) : bool := op_eqb (fst a) (fst b) && Nat.eqb (snd a) (snd b).

(* ---------------------------------------------------------------- store *)
Inductive cell := Absent | Present (b : bytes) | Flaky (s : site) (b : bytes).
Definition store := key -> cell.

Definition cur_bytes (st : store) (k : key) : option bytes :=
  match st k with Absent => None | Present b => Some b | Flaky _ b => Some b end.

(* ---------------------------------------------------------------- writer monad: result + storage-call trace *)
Definition M (A : Type) := (res A * list access)%type.
Definition ret {A} (a : A) : M A := (Ok a, []).
Definition fail {A} (e : errk) : M A := (Err e, []).
Definition bind {A B} (m : M A) (f : A -> M B) : M B :=
  match fst m with
  | Ok a => let r := f a in (fst r, (snd m ++ snd r)%list)
  | Err e => (Err e, snd m)
  end.
Notation "x <- m ;; f" := (bind m (fun x => f)) (at level 61, m at next level, right associativity).

Fixpoint mapM {A B} (f : A -> M B) (l : list A) : M (list B) :=
  match l with
  | [] => ret []
  | x :: tl => y <- f x ;; ys <- mapM f tl ;; ret (y :: ys)
  end.

(* storage primitives (LocalStorageBackend.exists / open_file / read_file, open_parquet_source) *)
Definition st_exists (st : store) (k : key) (s : site) : M bool :=
  match st k with
  | Absent => (Ok false, [(k, s)])
  | Present _ => (Ok true, [(k, s)])
  | Flaky s' _ => if site_eqb s s' then (Err EIO, [(k, s)]) else (Ok true, [(k, s)])
  end.

Definition st_get (st : store) (k : key) (s : site) : M bytes :=
  match st k with
  | Absent => (Err ENotFound, [(k, s)])
  | Present b => (Ok b, [(k, s)])
  | Flaky s' b => if site_eqb s s' then (Err EIO, [(k, s)]) else (Ok b, [(k, s)])
  end.

(* ---------------------------------------------------------------- file contents and parsers *)
Record dfile := { dpath : key; dcount : Z; dsum : option digest }.
Record snap := { sid : Z; slist : key }.
Record meta := { mcur : option Z; msnaps : list snap }.

(* outcome of the Avro attempt on a byte string: records, or the raised exception as its MRO *)
Inductive avro (A : Type) := AvOk (a : A) | AvRaise (mro : list string).
Arguments AvOk {A} a.
Arguments AvRaise {A} mro.

(* outcome of the parquet reader: all rows, or a failure after [prefix] rows had been produced by
   iter_batches (the prefix matters only for the generator APIs) *)
Inductive pq := PqOk (rows : list row) | PqFail (prefix : list row).

Record env := {
  sha : bytes -> digest;
  parse_hint : bytes -> option key;                 (* _parse_hint_content: None = unparseable pointer *)
  recovered : option key;                           (* _recover_version_from_files on this directory *)
  parse_meta : bytes -> option meta;                (* json.loads + _dict_to_metadata; None = raises *)
  avro_list : bytes -> avro (list (option key));    (* manifest paths; None = empty manifest_path *)
  json_list : bytes -> option (list (option key));
  avro_man : bytes -> avro (list dfile);
  json_man : bytes -> option (list dfile);
  parquet : bytes -> pq
}.

Definition HINT : key := 0%N.
Definition METADIR : key := 1%N.

Definition caught (classes mro : list string) : bool :=
  existsb (fun c => existsb (String.eqb c) classes) mro.

Definition mro_of (e : errk) : list string :=
  match e with
  | EIO => ["TransientIO"; "OSError"; "Exception"]
  | ENotFound => ["FileNotFoundError"; "OSError"; "Exception"]
  | _ => ["Exception"]
  end%string.

(* ---------------------------------------------------------------- metadata resolution *)
(* _recover_version_from_files: list_files("metadata"), then the choice among the listed files (C10's subject, here
   [recovered E]).  A listing that fails propagates (it used to be swallowed into "no metadata"). *)
Definition st_list (E : env) (st : store) (r : nat) : M (option key) :=
  match st METADIR with
  | Flaky s _ => if site_eqb (OpList, r) s then (Err EIO, [(METADIR, (OpList, r))])
                 else (Ok (recovered E), [(METADIR, (OpList, r))])
  | _ => (Ok (recovered E), [(METADIR, (OpList, r))])
  end.

(* refresh(): r is the number of refreshes already made by this API call *)
Definition resolve (E : env) (st : store) (r : nat) : M (option meta) :=
  ex <- st_exists st HINT (OpExists, r) ;;
  hinted <- (if ex then b <- st_get st HINT (OpRead, r) ;; ret (parse_hint E b) else ret None) ;;
  target <- match hinted with
            | Some mk => ex2 <- st_exists st mk (OpExists, r) ;;
                         if ex2 then ret (Some mk) else st_list E st r
            | None => st_list E st r
            end ;;
  match target with
  | None => ret None
  | Some mk => b <- st_get st mk (OpRead, r) ;;
               match parse_meta E b with Some md => ret (Some md) | None => fail EParse end
  end.

Definition find_snap (md : meta) : option snap :=
  match mcur md with
  | None => None
  | Some id => find (fun s => sid s =? id) (msnaps md)
  end.

(* ---------------------------------------------------------------- Avro-then-JSON readers *)
(* the `try: with open_file ... fastavro.reader ...  except (classes): pass` block:
   Some a = parsed; None = fall through to JSON *)
Definition avro_stage {A} (st : store) (k : key) (parse : bytes -> avro A) (classes : list string) : M (option A) :=
  let m := st_get st k (OpOpen, 0%nat) in
  match fst m with
  | Ok b => match parse b with
            | AvOk a => (Ok (Some a), snd m)
            | AvRaise mro => if caught classes mro then (Ok None, snd m) else (Err EParse, snd m)
            end
  | Err e => if caught classes (mro_of e) then (Ok None, snd m) else (Err e, snd m)
  end.

Definition two_stage {A} (st : store) (k : key) (av : bytes -> avro A) (js : bytes -> option A)
           (classes : list string) : M A :=
  ex <- st_exists st k (OpExists, 1%nat) ;;
  if negb ex then fail ENotFound else
  a <- avro_stage st k av classes ;;
  match a with
  | Some x => ret x
  | None => b <- st_get st k (OpRead, 0%nat) ;;
            match js b with Some x => ret x | None => fail EParse end
  end.

Definition read_list (E : env) (st : store) (k : key) : M (list (option key)) :=
  two_stage st k (avro_list E) (json_list E) list_fallback.
Definition read_manifest (E : env) (st : store) (k : key) : M (list dfile) :=
  two_stage st k (avro_man E) (json_man E) manifest_fallback.

(* de-duplication by path, first occurrence wins (seen_paths) *)
Fixpoint dedupe_aux (seen : list key) (l : list dfile) : list dfile :=
  match l with
  | [] => []
  | d :: tl => if existsb (N.eqb (dpath d)) seen then dedupe_aux seen tl
               else d :: dedupe_aux (dpath d :: seen) tl
  end.
Definition dedupe := dedupe_aux [].

Definition manifest_step (E : env) (st : store) (mref : option key) : M (list dfile) :=
  match mref with
  | None => ret []                                           (* `if not manifest_path: continue` *)
  | Some m => ex <- st_exists st m (OpExists, 0%nat) ;;
              if negb ex then fail EInconsistent else read_manifest E st m
  end.

(* _get_all_data_files *)
Definition get_all_data_files (E : env) (st : store) : M (list dfile) :=
  r0 <- resolve E st 0 ;;
  match (match r0 with Some md => find_snap md | None => None end) with
  | None =>
      (* emptiness is decided on the SAME metadata object (Table._data_files_of): no second resolution *)
      match r0 with
      | Some md => match mcur md with
                   | Some id => if id =? -1 then ret [] else fail EInconsistent
                   | None => ret []
                   end
      | None => ret []
      end
  | Some s =>
      ex <- st_exists st (slist s) (OpExists, 0%nat) ;;
      if negb ex then fail EInconsistent else
      ms <- read_list E st (slist s) ;;
      dfss <- mapM (manifest_step E st) ms ;;
      ret (dedupe (List.concat dfss))
  end.

(* ---------------------------------------------------------------- data files *)
Definition data_site (verify : bool) (df : dfile) : site :=
  match verify, dsum df with
  | true, Some _ => (OpRead, 0%nat)      (* storage.read_file, then sha256, then parse the bytes *)
  | _, _ => (OpOpen, 0%nat)              (* open_parquet_source, parse from the file *)
  end.

Definition read_data (E : env) (st : store) (verify : bool) (df : dfile) : M (list row) :=
  b <- st_get st (dpath df) (data_site verify df) ;;
  match verify, dsum df with
  | true, Some d => if N.eqb (sha E b) d
                    then match parquet E b with PqOk rows => ret rows | PqFail _ => fail EParse end
                    else fail ECorrupt
  | _, _ => match parquet E b with PqOk rows => ret rows | PqFail _ => fail EParse end
  end.

(* rows a generator API has handed out from one file before it stops or fails *)
Definition yield_of (E : env) (st : store) (verify : bool) (df : dfile) : list row :=
  match fst (st_get st (dpath df) (data_site verify df)) with
  | Ok b => match verify, dsum df with
            | true, Some d => if N.eqb (sha E b) d
                              then match parquet E b with PqOk rows => rows | PqFail p => p end else []
            | _, _ => match parquet E b with PqOk rows => rows | PqFail p => p end
            end
  | Err _ => []
  end.

Fixpoint yielded_of (E : env) (st : store) (verify : bool) (dfs : list dfile) : list row :=
  match dfs with
  | [] => []
  | df :: tl => match fst (read_data E st verify df) with
                | Ok rows => rows ++ yielded_of E st verify tl
                | Err _ => yield_of E st verify df
                end
  end.

(* parallel scan: executor.map submits every file; the first failure in list order is raised *)
Fixpoint first_err {A} (l : list (res A)) : res (list A) :=
  match l with
  | [] => Ok []
  | Ok a :: tl => match first_err tl with Ok r => Ok (a :: r) | Err e => Err e end
  | Err e :: _ => Err e
  end.
Definition par_map {A B} (f : A -> M B) (l : list A) : M (list B) :=
  (first_err (map (fun x => fst (f x)) l), List.concat (map (fun x => snd (f x)) l)).

(* ---------------------------------------------------------------- the read APIs *)
Inductive api := Scan | ScanPar | Batches | IterRecords | RowCount.
Record opts := { verify : bool }.
Inductive answer := ARows (rows : list row) | ACount (n : Z).

Definition is_generator (a : api) : bool := match a with Batches | IterRecords => true | _ => false end.
Definition reads_data (a : api) : bool := match a with RowCount => false | _ => true end.

Definition data_stage (E : env) (st : store) (a : api) (v : bool) (dfs : list dfile) : M (list row) :=
  match a with
  | ScanPar => tabs <- par_map (read_data E st v) dfs ;; ret (List.concat tabs)
  | _ => tabs <- mapM (read_data E st v) dfs ;; ret (List.concat tabs)
  end.

Definition run (E : env) (st : store) (a : api) (o : opts) : M answer :=
  dfs <- get_all_data_files E st ;;
  match a with
  | RowCount => ret (ACount (fold_right Z.add 0 (map dcount dfs)))
  | _ => rows <- data_stage E st a (verify o) dfs ;; ret (ARows rows)
  end.

Record result := { out : res answer; trace : list access; yielded : list row }.

Definition read_current (E : env) (st : store) (a : api) (o : opts) : result :=
  let m := run E st a o in
  {| out := fst m;
     trace := snd m;
     yielded := match fst m with
                | Ok (ARows rows) => rows
                | Ok (ACount _) => []
                | Err _ => if is_generator a
                           then match fst (get_all_data_files E st) with
                                | Ok dfs => yielded_of E st (verify o) dfs
                                | Err _ => []
                                end
                           else []
                end |}.

(* ---------------------------------------------------------------- the batched reader's row-count guard
   A parquet file is a sequence of row groups.  ParquetFile.iter_batches hands out, for each group, a PREFIX of
   its rows (all of them; fewer when a damaged footer count makes it stop early -- without an error).  The
   generator APIs then compare the number of rows handed out with the footer's file-level count
   (GenRead.batch_guard_is_file_level_count) and raise when they differ. *)
Definition guarded_batches (declared : nat) (handed : list (list row)) : res (list row) :=
  if Nat.eqb (List.length (List.concat handed)) declared then Ok (List.concat handed) else Err EParse.

Definition prefix_of (a b : list row) : Prop := exists c, b = a ++ c.

(* ---------------------------------------------------------------- what a manifest-list entry carries
   A manifest-list record has many fields; the reader uses ONE of them, manifest_path (ManifestFile.content,
   manifest_length, partition_spec_id, the snapshot id and the three counts carry no read meaning: the library
   writes content = DATA only).  [env.avro_list] is therefore the full decoder followed by this projection;
   C14_list_fields_without_read_meaning says nothing else of an entry can change what a read returns. *)
Record lentry := { le_path : option key; le_content : Z; le_length : Z; le_spec : Z; le_snapshot : Z; le_counts : list Z }.

Definition project_list (d : avro (list lentry)) : avro (list (option key)) :=
  match d with AvOk l => AvOk (map le_path l) | AvRaise m => AvRaise m end.

Definition with_list_decoder (E : env) (dec : bytes -> avro (list lentry)) : env :=
  {| sha := sha E; parse_hint := parse_hint E; recovered := recovered E; parse_meta := parse_meta E;
     avro_list := fun b => project_list (dec b); json_list := json_list E;
     avro_man := avro_man E; json_man := json_man E; parquet := parquet E |}.

(* ---------------------------------------------------------------- a store that changes while the call runs
   ts n is the store as the call's n-th storage operation sees it.  The data stage makes exactly one storage
   operation per data file (read_data: one st_get, then hash and parse of the bytes it returned), so the file
   at position i of the stage is read at time t + i.  There is no second look at a file: nothing can change
   between "checked" and "used". *)
Fixpoint data_stage_t (E : env) (ts : nat -> store) (t : nat) (v : bool) (dfs : list dfile) : M (list (list row)) :=
  match dfs with
  | [] => ret []
  | df :: tl => y <- read_data E (ts t) v df ;; ys <- data_stage_t E ts (S t) v tl ;; ret (y :: ys)
  end.

(* ---------------------------------------------------------------- sessions on one handle
   A Table handle carries no read state (the read path of the code caches nothing between calls): a session
   is a sequence of reads, each evaluated against the store as it is at that moment.  The session
   correspondence (harness: reads, then damage, then a read through the SAME handle) ties this to the code. *)
Definition read_session (E : env) (reads : list (store * api * opts)) : list result :=
  map (fun r => read_current E (fst (fst r)) (snd (fst r)) (snd r)) reads.

(* ================================================================ specification side
   What the table *is*, read off the store without any error handling: used by the theorems to say
   "exactly the rows of the current snapshot" and "reachable from the current snapshot". *)
Definition present (st : store) (k : key) : bool := match st k with Absent => false | _ => true end.

Definition hinted (E : env) (st : store) : option key :=
  match cur_bytes st HINT with Some b => parse_hint E b | None => None end.

(* the metadata file the resolution settles on (transient faults aside) *)
Definition resolved (E : env) (st : store) : option key :=
  match hinted E st with
  | Some mk => if present st mk then Some mk else recovered E
  | None => recovered E
  end.

Definition content {A} (av : bytes -> avro A) (js : bytes -> option A) (classes : list string) (b : bytes) : option A :=
  match av b with
  | AvOk a => Some a
  | AvRaise mro => if caught classes mro then js b else None
  end.
Definition list_content (E : env) := content (avro_list E) (json_list E) list_fallback.
Definition man_content (E : env) := content (avro_man E) (json_man E) manifest_fallback.

Definition obind {A B} (o : option A) (f : A -> option B) : option B :=
  match o with Some a => f a | None => None end.

Fixpoint all_some {A} (l : list (option A)) : option (list A) :=
  match l with
  | [] => Some []
  | Some a :: tl => match all_some tl with Some r => Some (a :: r) | None => None end
  | None :: _ => None
  end.

(* the metadata of the version the resolution SERVES: the file the pointer names when it is there, otherwise
   whatever the recovery scan settles on.  This is the code's choice, not the table's truth: when the pointer names
   a file that is gone, the version served is an OLDER one (possibly v0, the empty table of create_table). *)
Definition served_meta (E : env) (st : store) : option meta :=
  obind (resolved E st) (fun mk => obind (cur_bytes st mk) (parse_meta E)).

(* the metadata of the CURRENT version: the file the pointer names (the commit point writes the pointer last, so on
   a table whose pointer is intact that file is the last committed version).  No recovery on the specification side:
   a pointer that names nothing readable leaves "the current snapshot" undefined here. *)
Definition spec_meta (E : env) (st : store) : option meta :=
  obind (hinted E st) (fun mk => obind (cur_bytes st mk) (parse_meta E)).

Definition spec_manifest (E : env) (st : store) (mref : option key) : option (list dfile) :=
  match mref with
  | None => Some []
  | Some m => obind (cur_bytes st m) (man_content E)
  end.

(* the data files of snapshot s *)
Definition spec_dfiles (E : env) (st : store) (s : snap) : option (list dfile) :=
  obind (cur_bytes st (slist s)) (fun b =>
  obind (list_content E b) (fun ms =>
  obind (all_some (map (spec_manifest E st) ms)) (fun dfss =>
  Some (dedupe (List.concat dfss))))).

Definition spec_file_rows (E : env) (st : store) (df : dfile) : option (list row) :=
  obind (cur_bytes st (dpath df)) (fun b => match parquet E b with PqOk rows => Some rows | PqFail _ => None end).

Definition spec_rows (E : env) (st : store) (dfs : list dfile) : option (list row) :=
  obind (all_some (map (spec_file_rows E st) dfs)) (fun rs => Some (List.concat rs)).

(* the complete answer of an API on metadata md: None when the table is broken *)
Definition spec_answer (E : env) (st : store) (a : api) (md : meta) : option answer :=
  match find_snap md with
  | Some s => obind (spec_dfiles E st s) (fun dfs =>
              if reads_data a then obind (spec_rows E st dfs) (fun rows => Some (ARows rows))
              else Some (ACount (fold_right Z.add 0 (map dcount dfs))))
  | None => match mcur md with
            | Some id => if id =? -1 then Some (if reads_data a then ARows [] else ACount 0) else None
            | None => Some (if reads_data a then ARows [] else ACount 0)
            end
  end.

(* ---------------------------------------------------------------- reachability, damage, touched *)
Inductive role := RMeta | RList | RManifest | RData.

Inductive reach (E : env) (st : store) : role -> key -> Prop :=
| reach_hinted : forall mk, hinted E st = Some mk -> reach E st RMeta mk
| reach_resolved : forall mk, resolved E st = Some mk -> reach E st RMeta mk
| reach_list : forall md s, served_meta E st = Some md -> find_snap md = Some s -> reach E st RList (slist s)
| reach_manifest : forall l b ms m, reach E st RList l -> cur_bytes st l = Some b ->
    list_content E b = Some ms -> In (Some m) ms -> reach E st RManifest m
| reach_data : forall m b dfs df, reach E st RManifest m -> cur_bytes st m = Some b ->
    man_content E b = Some dfs -> In df dfs -> reach E st RData (dpath df).

Definition unparseable (E : env) (r : role) (b : bytes) : Prop :=
  match r with
  | RMeta => parse_meta E b = None
  | RList => list_content E b = None
  | RManifest => man_content E b = None
  | RData => exists p, parquet E b = PqFail p
  end.

(* the three damage classes of the property (Garbage = present bytes the parser rejects:
   an unparseable prefix and a non-parsing replacement are both this) *)
Inductive damaged (E : env) (st : store) (r : role) (k : key) : Prop :=
| dmg_absent : st k = Absent -> damaged E st r k
| dmg_garbage : forall b, st k = Present b -> unparseable E r b -> damaged E st r k
| dmg_flaky : forall s b, st k = Flaky s b -> damaged E st r k.

(* the call sites the pipeline exercises on a file of a given role holding bytes b *)
Definition falls_back {A} (av : bytes -> avro A) (classes : list string) (b : bytes) : bool :=
  match av b with AvOk _ => false | AvRaise mro => caught classes mro end.

(* a transient OSError on open_file is itself one of the fallback classes: the reader then re-reads the
   file with read_file and tries JSON, so the failure is fatal only when that second attempt fails
   (always, for the Avro files the library writes) *)
Definition open_fatal {A} (js : bytes -> option A) (classes : list string) (b : bytes) : bool :=
  negb (caught classes (mro_of EIO)) || match js b with None => true | Some _ => false end.

Definition reader_sites {A} (av : bytes -> avro A) (js : bytes -> option A) (classes : list string) (b : bytes) : list site :=
  [(OpExists, 0%nat); (OpExists, 1%nat)]
  ++ (if open_fatal js classes b then [(OpOpen, 0%nat)] else [])
  ++ (if falls_back av classes b then [(OpRead, 0%nat)] else []).

Definition sites_of (E : env) (st : store) (r : role) (k : key) (b : bytes) : list site :=
  match r with
  | RMeta => (if match hinted E st with Some mk => N.eqb mk k | None => false end then [(OpExists, 0%nat)] else [])
             ++ [(OpRead, 0%nat)]
  | RList => reader_sites (avro_list E) (json_list E) list_fallback b
  | RManifest => reader_sites (avro_man E) (json_man E) manifest_fallback b
  | RData => []   (* see [touched]: the site depends on the selected entry's checksum *)
  end.

(* Avro files start with the magic "Obj\001", which is not JSON: bytes the JSON fallback accepts make
   the Avro attempt raise one of the fallback classes (checked on every byte string of every run) *)
Definition json_not_avro (E : env) : Prop :=
  (forall b x, json_list E b = Some x -> falls_back (avro_list E) list_fallback b = true) /\
  (forall b x, json_man E b = Some x -> falls_back (avro_man E) manifest_fallback b = true).

(* the entry the de-duplication keeps for path k *)
Definition selected (dfs : list dfile) (k : key) : option dfile := find (fun d => N.eqb (dpath d) k) dfs.

(* "the API touches k (at the failing site, when the damage is transient)" *)
Definition touched (E : env) (st : store) (a : api) (o : opts) (r : role) (k : key) : Prop :=
  match r with
  | RData => reads_data a = true /\
             match st k with
             | Flaky s _ => forall md sn dfs df, served_meta E st = Some md -> find_snap md = Some sn ->
                              spec_dfiles E st sn = Some dfs -> selected dfs k = Some df ->
                              s = data_site (verify o) df
             | _ => True
             end
  | _ => match st k with
         | Flaky s b => In s (sites_of E st r k b)
         | _ => True
         end
  end.

(* ---------------------------------------------------------------- a broken table
   What "a broken table" of the property text covers on the metadata plane: the pointer names a metadata file that
   is gone; or the current metadata names a snapshot that is not there (dangling id), a manifest list that is gone,
   a manifest that is gone. *)
Definition broken_snapshot (E : env) (st : store) (md : meta) : Prop :=
  (find_snap md = None /\ exists id, mcur md = Some id /\ id <> -1)
  \/ (exists s, find_snap md = Some s /\ st (slist s) = Absent)
  \/ (exists s b ms m, find_snap md = Some s /\ cur_bytes st (slist s) = Some b /\ list_content E b = Some ms
                        /\ In (Some m) ms /\ st m = Absent).

Definition broken_table (E : env) (st : store) : Prop :=
  (exists mk, hinted E st = Some mk /\ st mk = Absent)
  \/ (exists md, spec_meta E st = Some md /\ broken_snapshot E st md).

(* the options of a call that passes none: verify_checksums=None resolves to GenRead.verify_default_on
   (Table._resolve_verify_checksums with the environment variable unset), regenerated from the source *)
Definition default_opts : opts := {| verify := verify_default_on |}.

(* ---------------------------------------------------------------- the write side the checksum travels through
   "SHA-256 of each data file recorded at write, verified on read": between the write and the read lie the
   commits that carry the entry along.  FileManager.create_manifest_file writes [ADDED entries] ++ [EXISTING
   entries]; Transaction's snapshot builder (transaction.py, "2. Process deletes" / "3. Process appends") keeps
   a manifest no delete touches, rewrites one that loses some files (survivors as EXISTING entries), drops one
   that loses all, and writes the appended files into one new manifest.  The checksum field of a written entry
   is GenRead.gen_entry_checksum, regenerated from create_manifest_file on every run. *)
Definition written_entry (added : bool) (d : dfile) : dfile :=
  {| dpath := dpath d; dcount := dcount d; dsum := gen_entry_checksum added (dsum d) |}.

Definition create_manifest (added existing : list dfile) : list dfile :=
  map (written_entry true) added ++ map (written_entry false) existing.

Definition survivors (deleted : list key) (dfs : list dfile) : list dfile :=
  filter (fun d => negb (existsb (N.eqb (dpath d)) deleted)) dfs.

Definition rewrite_step (deleted : list key) (dfs : list dfile) : list (list dfile) :=
  let s := survivors deleted dfs in
  if Nat.eqb (List.length s) (List.length dfs) then [dfs]
  else match s with [] => [] | _ => [create_manifest [] s] end.

Record commit := { c_deleted : list key; c_appended : list dfile }.

(* the manifests (as entry lists, in manifest-list order) of the snapshot a commit creates over base ms *)
Definition apply_commit (ms : list (list dfile)) (c : commit) : list (list dfile) :=
  (match c_deleted c with [] => ms | del => flat_map (rewrite_step del) ms end)
  ++ (match c_appended c with [] => [] | app => [create_manifest app []] end).

Definition run_history (h : list commit) : list (list dfile) := fold_left apply_commit h [].

(* ---------------------------------------------------------------- table-driven environments (harness) *)
Definition lookup {A} (d : A) (l : list (N * A)) (k : N) : A :=
  match find (fun p => N.eqb (fst p) k) l with Some p => snd p | None => d end.
Definition store_of (l : list (key * cell)) : store := lookup Absent l.

Definition mk_env (shas : list (bytes * digest)) (hints : list (bytes * option key)) (rec : option key)
           (metas : list (bytes * option meta))
           (alists : list (bytes * avro (list (option key)))) (jlists : list (bytes * option (list (option key))))
           (amans : list (bytes * avro (list dfile))) (jmans : list (bytes * option (list dfile)))
           (pqs : list (bytes * pq)) : env :=
  {| sha := lookup 0%N shas;
     parse_hint := lookup None hints;
     recovered := rec;
     parse_meta := lookup None metas;
     avro_list := lookup (AvRaise ["ValueError"; "Exception"]%string) alists;
     json_list := lookup None jlists;
     avro_man := lookup (AvRaise ["ValueError"; "Exception"]%string) amans;
     json_man := lookup None jmans;
     parquet := lookup (PqFail []) pqs |}.

Definition show (r : result) : res answer * list access * list row := (out r, trace r, yielded r).
