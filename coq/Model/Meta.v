(* Model/Meta.v -- executable model of DataShard's table-metadata mutators (property C15, reused by C09).
   Definitions only; proofs are in Proofs/RepointProofs.v and Proofs/MetaProofs.v.

   Mirrors, statement by statement:
     snapshot_manager.py  create_snapshot, _apply_retention, delete_snapshot, _most_recent_snapshot_id,
                          get_snapshot_by_timestamp, get_snapshot_by_id (via metadata_manager)
     transaction.py       commit's operation partitioning, _commit_file_ops (manifest carry-over for
                          delete_files), _make_expire_mutator
     metadata_manager.py  commit (last_updated_ms, metadata log), _append_metadata_log
     file_manager.py      create_manifest_file entry statuses / snapshot-id and sequence-number inheritance
   The parent-repointing walk is NOT written here: it is Gen/GenRepoint.v, regenerated from the source.

   Conventions: ids, timestamps, file names are Z.  `cur`/`parent` are `option Z` exactly as the JSON holds
   them: None = null, Some (-1) = the code's "-1 = no snapshot" sentinel.  Time is supplied by the event
   (snapshot timestamp `t` and metadata timestamp `tu` are independent and unconstrained). *)
From Coq Require Import ZArith List Bool.
Require Import DS.Model.MetaBase DS.Gen.GenRepoint.
Import ListNotations.
Open Scope Z_scope.

(* ------------------------------------------------------------------ data *)
(* A table-relative path: (number of leading '/', the rest as an opaque name). "/data/x" = (1, x). *)
Definition path := (Z * Z)%type.
Definition path_eqb (a b : path) : bool := (fst a =? fst b) && (snd a =? snd b).
Definition lstrip (p : path) : path := (0, snd p).                   (* str.lstrip("/") *)
Definition mem_path (p : path) (l : list path) : bool := existsb (path_eqb p) l.

Definition ST_EXISTING : Z := 0.
Definition ST_ADDED : Z := 1.

Record entry := { epath : path; estatus : Z; eadded : Z; eseq : Z }.   (* manifest entry *)
Definition manifest := list entry.

Record snap := { sid : Z; ts : Z; parent : option Z; seq : Z; mlist : list manifest }.

(* A table property as Python's int() sees it. *)
Inductive pval := PUnset | PInt (n : Z) | PBad.

Record meta := {
  cur : option Z;
  snaps : list snap;
  slog : list (Z * Z);           (* (timestamp_ms, snapshot_id) *)
  last_seq : Z;
  last_updated : Z;
  retention : pval;              (* datashard.snapshot.retention-count *)
  prevmax : pval;                (* write.metadata.previous-versions-max *)
  mlog : list (Z * Z)            (* (timestamp-ms, metadata-file) *)
}.

Definition sids (m : meta) : list Z := map sid (snaps m).

Definition with_snaps (m : meta) (c : option Z) (sn : list snap) (sl : list (Z * Z)) : meta :=
  {| cur := c; snaps := sn; slog := sl; last_seq := last_seq m; last_updated := last_updated m;
     retention := retention m; prevmax := prevmax m; mlog := mlog m |}.

(* ------------------------------------------------------------------ repointing (frame around Gen) *)
Definition parent_map (all : list snap) : list (Z * option Z) := map (fun s => (sid s, parent s)) all.
Definition set_parent (s : snap) (p : option Z) : snap :=
  {| sid := sid s; ts := ts s; parent := p; seq := seq s; mlist := mlist s |}.
(* fuel exhaustion is dead code: RepointProofs.gen_repoint_one_total *)
Definition repoint_one (po : list (Z * option Z)) (kept_ids : list Z) (p : option Z) : option Z :=
  match gen_repoint_one po kept_ids p with Some r => r | None => None end.
Definition repoint_all (all kept : list snap) : list snap :=
  map (fun s => set_parent s (repoint_one (parent_map all) (map sid kept) (parent s))) kept.

(* ------------------------------------------------------------------ create_snapshot pieces *)
Definition add_snapshot (m : meta) (s : snap) : meta :=
  {| cur := Some (sid s); snaps := snaps m ++ [s]; slog := slog m ++ [(ts s, sid s)];
     last_seq := Z.max (last_seq m) (seq s); last_updated := last_updated m;
     retention := retention m; prevmax := prevmax m; mlog := mlog m |}.

(* transaction._make_expire_mutator *)
Definition expire (cutoff : Z) (m : meta) : meta :=
  let kept := filter (fun s => (cutoff <=? ts s) || opt_eqb (Some (sid s)) (cur m)) (snaps m) in
  let kept_ids := map sid kept in
  with_snaps m (cur m) (repoint_all (snaps m) kept) (filter (fun e => memZ (snd e) kept_ids) (slog m)).

(* sorted(..., key=timestamp_ms): stable *)
Fixpoint insert_ts (x : snap) (l : list snap) : list snap :=
  match l with
  | [] => [x]
  | y :: l' => if ts x <=? ts y then x :: l else y :: insert_ts x l'
  end.
Definition sort_ts (l : list snap) : list snap := fold_right insert_ts [] l.

Definition lastn {A} (n : nat) (l : list A) : list A := skipn (length l - n) l.

(* snapshot_manager._apply_retention *)
Definition apply_retention (m : meta) : meta :=
  match retention m with
  | PInt n =>
      if (n <? 1) || (Z.of_nat (length (snaps m)) <=? n) then m
      else
        let sorted := sort_ts (snaps m) in
        let kept0 := map sid (lastn (Z.to_nat n) sorted) in
        let kept_ids :=
          match cur m with
          | Some c => if negb (memZ c kept0) && existsb (fun s => sid s =? c) (snaps m) then kept0 ++ [c] else kept0
          | None => kept0
          end in
        let surviving := filter (fun s => memZ (sid s) kept_ids) sorted in
        with_snaps m (cur m) (repoint_all (snaps m) surviving) (filter (fun e => memZ (snd e) kept_ids) (slog m))
  | _ => m
  end.

(* the Snapshot object create_snapshot builds from the base metadata *)
Definition new_snap (m : meta) (id t : Z) (ml : list manifest) : snap :=
  {| sid := id; ts := t; parent := Some (match cur m with Some c => c | None => -1 end);
     seq := last_seq m + 1; mlist := ml |}.

(* create_snapshot up to (excluding) metadata_manager.commit; None = "mutator removed the snapshot" *)
Definition create_snapshot (m : meta) (id t : Z) (ml : list manifest) (cut : option Z) : option meta :=
  let m1 := add_snapshot m (new_snap m id t ml) in
  let m2 := match cut with Some c => expire c m1 | None => m1 end in
  if existsb (fun s => sid s =? id) (snaps m2) then Some (apply_retention m2) else None.

(* ------------------------------------------------------------------ manifests (_commit_file_ops) *)
(* a delete names a file up to leading '/' ("/data/x" and "data/x" are the same table-relative file) *)
Definition named (ps : list path) (e : entry) : bool := mem_path (lstrip (epath e)) (map lstrip ps).
Definition to_existing (e : entry) : entry :=
  {| epath := epath e; estatus := ST_EXISTING; eadded := eadded e; eseq := eseq e |}.
Definition rewrite_manifest (ps : list path) (mf : manifest) : list manifest :=
  let surv := filter (fun e => negb (named ps e)) mf in
  if Nat.eqb (length surv) (length mf) then [mf]
  else match surv with [] => [] | _ => [map to_existing surv] end.
Definition apply_deletes (ps : list path) (mfs : list manifest) : list manifest :=
  match ps with [] => mfs | _ => flat_map (rewrite_manifest ps) mfs end.
Definition append_manifest (id sq : Z) (adds : list path) : list manifest :=
  match adds with [] => [] | _ => [map (fun p => {| epath := p; estatus := ST_ADDED; eadded := id; eseq := sq |}) adds] end.

(* manifests of the base snapshot; None = dangling current_snapshot_id (the code raises) *)
Definition base_manifests (m : meta) : option (list manifest) :=
  match cur m with
  | None => Some []
  | Some c => if c =? -1 then Some []
              else match find (fun s => sid s =? c) (snaps m) with Some s => Some (mlist s) | None => None end
  end.

(* ------------------------------------------------------------------ delete_snapshot *)
Fixpoint remove_first (id : Z) (l : list snap) : option (list snap) :=
  match l with
  | [] => None
  | s :: l' => if sid s =? id then Some l'
               else match remove_first id l' with Some r => Some (s :: r) | None => None end
  end.

(* max(snapshots, key=timestamp_ms): the FIRST maximal element *)
Definition max_ts (d : snap) (l : list snap) : snap := fold_left (fun best s => if ts best <? ts s then s else best) l d.

Definition most_recent (m : meta) : option Z :=
  match snaps m with
  | [] => None
  | s0 :: rest =>
      match find (fun e => memZ (snd e) (sids m)) (rev (slog m)) with
      | Some e => Some (snd e)
      | None => Some (sid (max_ts s0 rest))
      end
  end.

(* None = no snapshot with that id: returns False, nothing is committed *)
Definition delete_snapshot (m : meta) (id : Z) : option meta :=
  match remove_first id (snaps m) with
  | None => None
  | Some rest =>
      let m1 := with_snaps m (cur m) (repoint_all (snaps m) rest) (filter (fun e => negb (snd e =? id)) (slog m)) in
      Some (if opt_eqb (cur m) (Some id) then with_snaps m1 (most_recent m1) (snaps m1) (slog m1) else m1)
  end.

(* ------------------------------------------------------------------ lookups (C09) *)
Definition by_id (m : meta) (id : Z) : option snap := find (fun s => sid s =? id) (snaps m).
Fixpoint scan_upto (t : Z) (l : list snap) (acc : option snap) : option snap :=
  match l with
  | [] => acc
  | s :: l' => if ts s <=? t then scan_upto t l' (Some s) else acc
  end.
Definition by_timestamp (m : meta) (t : Z) : option snap := scan_upto t (sort_ts (snaps m)) None.

(* ------------------------------------------------------------------ metadata_manager.commit *)
Definition DEFAULT_PREVMAX : Z := 100.
Definition mlog_max (p : pval) : Z := match p with PInt n => n | _ => DEFAULT_PREVMAX end.

(* _append_metadata_log *)
Definition append_mlog (p : pval) (log : list (Z * Z)) (base_updated prev_file : Z) : list (Z * Z) :=
  if match rev log with e :: _ => snd e =? prev_file | [] => false end then log
  else
    let log' := log ++ [(base_updated, prev_file)] in
    let mx := mlog_max p in
    if (1 <=? mx) && (mx <? Z.of_nat (length log')) then lastn (Z.to_nat mx) log' else log'.

Record state := { md : meta; curfile : Z }.

Definition md_commit (st : state) (new : meta) (tu f : Z) : state :=
  {| md := {| cur := cur new; snaps := snaps new; slog := slog new; last_seq := last_seq new;
              last_updated := Z.max tu (last_updated (md st) + 1);   (* commit: now_ms = max(now_ms, current.last_updated_ms + 1) *)
              retention := retention new; prevmax := prevmax new;
              mlog := append_mlog (prevmax new) (mlog new) (last_updated (md st)) (curfile st) |};
     curfile := f |}.

(* ------------------------------------------------------------------ operations *)
Inductive txop := TAppend (files : list path) | TDelete (paths : list path) | TExpire (cutoff : Z).

Definition tx_adds (ops : list txop) : list path := flat_map (fun o => match o with TAppend fs => fs | _ => [] end) ops.
Definition tx_dels (ops : list txop) : list path := flat_map (fun o => match o with TDelete ps => ps | _ => [] end) ops.
Definition tx_expire (ops : list txop) : option Z :=
  fold_left (fun acc o => match o with
                          | TExpire c => Some (match acc with None => c | Some a => Z.max a c end)
                          | _ => acc end) ops None.

Inductive op :=
| Txn (ops : list txop) (id t tu f : Z)      (* a transaction: queued ops, snapshot id, snapshot time, metadata time, new metadata file *)
| DeleteSnap (id tu f : Z)
| SetRetention (v : pval) (tu f : Z)         (* metadata-only commit that sets the property *)
| SetPrevMax (v : pval) (tu f : Z).

Inductive outcome := Committed | NoCommit | Aborted.

Definition set_props (m : meta) (r pm : pval) : meta :=
  {| cur := cur m; snaps := snaps m; slog := slog m; last_seq := last_seq m; last_updated := last_updated m;
     retention := r; prevmax := pm; mlog := mlog m |}.

(* One operation. Third component: the snapshot committed by this step as create_snapshot built it
   (original parent) -- used only for the ghost history. *)
Definition step_full (st : state) (o : op) : state * outcome * option snap :=
  let m := md st in
  match o with
  | Txn ops id t tu f =>
      match ops with
      | [] => (st, NoCommit, None)
      | _ =>
        let adds := tx_adds ops in
        let dels := tx_dels ops in
        let cut := tx_expire ops in
        match adds, dels with
        | [], [] =>
            (md_commit st (match cut with Some c => expire c m | None => m end) tu f, Committed, None)
        | _, _ =>
            match base_manifests m with
            | None => (st, Aborted, None)
            | Some base =>
                let ml := apply_deletes dels base ++ append_manifest id (last_seq m + 1) adds in
                match create_snapshot m id t ml cut with
                | None => (st, Aborted, None)
                | Some m' => (md_commit st m' tu f, Committed, Some (new_snap m id t ml))
                end
            end
        end
      end
  | DeleteSnap id tu f =>
      match delete_snapshot m id with
      | None => (st, NoCommit, None)
      | Some m' => (md_commit st m' tu f, Committed, None)
      end
  | SetRetention v tu f => (md_commit st (set_props m v (prevmax m)) tu f, Committed, None)
  | SetPrevMax v tu f => (md_commit st (set_props m (retention m) v) tu f, Committed, None)
  end.

Definition step (st : state) (o : op) : state := fst (fst (step_full st o)).

(* the freshly created table: current_snapshot_id = -1, no snapshots, metadata file f0 written at t0 *)
Definition init (t0 f0 : Z) : state :=
  {| md := {| cur := Some (-1); snaps := []; slog := []; last_seq := 0; last_updated := t0;
              retention := PUnset; prevmax := PUnset; mlog := [] |};
     curfile := f0 |}.

Definition run (st : state) (ops : list op) : state := fold_left step ops st.

(* ghost: every snapshot ever committed, as committed, in commit order; every metadata version
   (last_updated it carried, file name) in commit order *)
Record ghost := { hist : list snap; versions : list (Z * Z) }.

Definition gstep (sg : state * ghost) (o : op) : state * ghost :=
  let '(st, g) := sg in
  let '(st', oc, ns) := step_full st o in
  (st',
   {| hist := match ns with Some s => hist g ++ [s] | None => hist g end;
      versions := match oc with Committed => versions g ++ [(last_updated (md st'), curfile st')] | _ => versions g end |}).

Definition ginit (t0 f0 : Z) : state * ghost := (init t0 f0, {| hist := []; versions := [(t0, f0)] |}).
Definition grun (sg : state * ghost) (ops : list op) : state * ghost := fold_left gstep ops sg.

(* for the correspondence harness: the state and outcome after every step *)
Fixpoint trace (st : state) (ops : list op) : list (state * outcome) :=
  match ops with
  | [] => []
  | o :: ops' => let r := step_full st o in (fst (fst r), snd (fst r)) :: trace (fst (fst r)) ops'
  end.
