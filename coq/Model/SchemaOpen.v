(* Model/SchemaOpen.v -- handle PROVENANCE over the append machine of Model/Schema.v and the transactions of
   Model/SchemaTx.v (property C11).

   A Table handle is obtained by iceberg.load_table(path), by iceberg.create_table(path, schema=..., ...) on a
   table that already exists (the schema argument is then NOT applied), or by Table(path, schema=...) directly.
   Several handles on one table live in one process; a name can be re-bound to a newly obtained handle at any
   time.  Each handle carries its own DataFileManager and hence its own Arrow-schema cache (Model/Schema.v
   `cache`, keyed by schema_id only), which every later append through that handle consults.

   What obtaining a handle does is REGENERATED from the source (Gen/GenOpen.v: the actions of create_table /
   load_table / Table.__init__ in program order, helpers inlined); this file interprets those actions on the
   world of the append machine.  The table itself is never touched by an opening (it exists already); the new
   handle's cache starts empty and receives one entry per `OADerive` the opening code performs.

   Definitions only; proofs are in Proofs/SchemaOpenProofs.v. *)
From Coq Require Import ZArith QArith List Bool.
Require Import DS.Model.Value DS.Gen.GenPrune DS.Model.Prune DS.Gen.GenSchema DS.Model.Schema DS.Model.SchemaTx.
Require Import DS.Model.OpenBase DS.Gen.GenOpen.
Import ListNotations.
Open Scope Z_scope.

(* how a handle is obtained; the argument is the caller's schema= (None: omitted) *)
Inductive opener :=
| OLoad                              (* load_table(path) *)
| OCreate (arg : option ischema)     (* create_table(path, schema=arg) on the existing table *)
| OCtor (arg : option ischema).      (* Table(path, schema=arg) *)

Definition actions_of (o : opener) : list oaction :=
  match o with OLoad => gen_open_load | OCreate _ => gen_open_create | OCtor _ => gen_open_ctor end.
Definition opener_arg (o : opener) : option ischema :=
  match o with OLoad => None | OCreate a | OCtor a => a end.

(* the effect of one opening action on the NEW handle's cache.  ts: the table's persisted schema.
   OAWhenArg runs only when a schema argument was given; OAMaybe (a data-dependent branch) is taken. *)
Fixpoint act_cache (ts arg : option ischema) (a : oaction) (c : cache) : cache :=
  match a with
  | OADerive SrcArg => match arg with Some s => snd (create_arrow_schema c s) | None => c end
  | OADerive SrcPersisted => match ts with Some s => snd (create_arrow_schema c s) | None => c end
  | OAWhenArg b => match arg with Some _ => act_cache ts arg b c | None => c end
  | OAMaybe b => act_cache ts arg b c
  | OARefresh | OAInitIfAbsent | OAReadSchema => c
  end.

Definition open_cache (ts arg : option ischema) (acts : list oaction) : cache :=
  fold_left (fun c a => act_cache ts arg a c) acts [].

(* obtaining handle h (a new name, or re-binding an old one): only the handle's cache is (re)set *)
Definition open_with (acts : list oaction) (w : world) (h : Z) (arg : option ischema) : world :=
  set_cache w h (open_cache (w_schema w) arg acts).
Definition open_handle (w : world) (h : Z) (o : opener) : world :=
  open_with (actions_of o) w h (opener_arg o).

(* ------------------------------------------------------------------ histories of openings and appends *)
Section HandleHistories.
  Variable conv : catype -> pyval -> option pyval.

  Inductive hevent :=
  | HOpen (h : Z) (o : opener)
  | HAppend (e : event).             (* Table.append_records through handle e_handle e *)

  Definition hstep (w : world) (x : hevent) : world :=
    match x with
    | HOpen h o => open_handle w h o
    | HAppend e => fst (step conv w e)
    end.

  Fixpoint hrun (w : world) (xs : list hevent) : world :=
    match xs with [] => w | x :: xs' => hrun (hstep w x) xs' end.

  (* the outcomes of the appends of a history, in order *)
  Fixpoint houtcomes (w : world) (xs : list hevent) : list outcome :=
    match xs with
    | [] => []
    | HOpen h o :: xs' => houtcomes (open_handle w h o) xs'
    | HAppend e :: xs' => snd (step conv w e) :: houtcomes (fst (step conv w e)) xs'
    end.

  (* the same history with every opening erased: all appends go through handles nobody ever configured *)
  Fixpoint appends (xs : list hevent) : list event :=
    match xs with
    | [] => []
    | HOpen _ _ :: xs' => appends xs'
    | HAppend e :: xs' => e :: appends xs'
    end.

  Fixpoint run_outcomes (w : world) (es : list event) : list outcome :=
    match es with [] => [] | e :: es' => snd (step conv w e) :: run_outcomes (fst (step conv w e)) es' end.

  (* everything of the world but the handles' caches: what the property speaks about *)
  Definition table_of (w : world) : option ischema * list (list dfile) * list Z * Z :=
    (w_schema w, w_snaps w, w_store w, w_next w).

  (* ---- openings and explicit transactions ---- *)
  Inductive thevent :=
  | TOpen (h : Z) (o : opener)
  | TTx (t : txn).

  Definition thstep (w : world) (x : thevent) : world :=
    match x with
    | TOpen h o => open_handle w h o
    | TTx t => run_tx conv w t
    end.

  Fixpoint thrun (w : world) (xs : list thevent) : world :=
    match xs with [] => w | x :: xs' => thrun (thstep w x) xs' end.
End HandleHistories.
