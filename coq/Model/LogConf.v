(* Model/LogConf.v -- the process-wide configuration the library reads without being handed it: Python's logging tree as far as
   a module logger "datashard.<module>" (logging.getLogger(__name__)) sees it, and the environment.

   State: logging.disable's threshold, the levels of the root logger, of the library logger LIB_LOGGER_NAME, of its handlers, and
   of the module logger (0 = NOTSET: inherit); the environment as an association list.  Events: what the library offers
   (DataShardLogger.set_level -- body pinned by translator/gen_gclog.py: the library logger AND each of its handlers) and what an
   application can do around it (Logger.setLevel on any of the three loggers, logging.disable, os.environ).
   `enabled c lvl` is Logger.isEnabledFor(lvl) of the module logger: manager.disable >= lvl -> False, else
   lvl >= getEffectiveLevel(), the first non-NOTSET level on the chain module -> library -> root.
   Tied to the real logging module by the 'logconf' correspondence of harness/props/c05.py (random event histories).
   Definitions only. *)
From Coq Require Import ZArith List String Bool.
Require Import DS.Gen.GenGCLog.
Import ListNotations.
Open Scope Z_scope.

Definition NOTSET : Z := 0.
Definition DEBUG : Z := 10.
Definition INFO : Z := 20.
Definition WARNING : Z := 30.
Definition ERROR : Z := 40.
Definition CRITICAL : Z := 50.

Record logconf := mkConf {
  lc_disable : Z;        (* logging.root.manager.disable *)
  lc_root : Z;           (* logging.getLogger().level *)
  lc_lib : Z;            (* logging.getLogger(LIB_LOGGER_NAME).level *)
  lc_handler : Z;        (* level of the library logger's handlers *)
  lc_mod : Z;            (* logging.getLogger("datashard.<module>").level *)
  lc_env : list (string * option string)   (* newest first; None = unset *)
}.

(* a fresh process that imported the library: _setup_logging's levels (regenerated), Python's root default WARNING *)
Definition conf_default : logconf := mkConf 0 WARNING LIB_DEFAULT_LEVEL LIB_HANDLER_DEFAULT_LEVEL NOTSET [].

Inductive conf_ev :=
| ESetLevel (l : Z)                       (* DataShardLogger.set_level(l) *)
| ELibLevel (l : Z)                       (* logging.getLogger("datashard").setLevel(l) *)
| EModLevel (l : Z)                       (* logging.getLogger("datashard.<module>").setLevel(l) *)
| ERootLevel (l : Z)                      (* logging.getLogger().setLevel(l) *)
| EDisable (l : Z)                        (* logging.disable(l) *)
| EEnv (k : string) (v : option string).  (* os.environ[k] = v / del os.environ[k] *)

Definition conf_step (c : logconf) (e : conf_ev) : logconf :=
  match e with
  | ESetLevel l => mkConf (lc_disable c) (lc_root c) l (if SET_LEVEL_SETS_HANDLERS then l else lc_handler c) (lc_mod c) (lc_env c)
  | ELibLevel l => mkConf (lc_disable c) (lc_root c) l (lc_handler c) (lc_mod c) (lc_env c)
  | EModLevel l => mkConf (lc_disable c) (lc_root c) (lc_lib c) (lc_handler c) l (lc_env c)
  | ERootLevel l => mkConf (lc_disable c) l (lc_lib c) (lc_handler c) (lc_mod c) (lc_env c)
  | EDisable l => mkConf l (lc_root c) (lc_lib c) (lc_handler c) (lc_mod c) (lc_env c)
  | EEnv k v => mkConf (lc_disable c) (lc_root c) (lc_lib c) (lc_handler c) (lc_mod c) ((k, v) :: lc_env c)
  end.

Definition conf_run (evs : list conf_ev) (c : logconf) : logconf := fold_left conf_step evs c.

(* Logger.getEffectiveLevel of the module logger *)
Definition effective (c : logconf) : Z :=
  if negb (lc_mod c =? NOTSET) then lc_mod c else if negb (lc_lib c =? NOTSET) then lc_lib c else lc_root c.

(* Logger.isEnabledFor(lvl) of the module logger *)
Definition enabled (c : logconf) (lvl : Z) : bool :=
  if lc_disable c >=? lvl then false else lvl >=? effective c.

(* os.getenv(k) *)
Fixpoint getenv (env : list (string * option string)) (k : string) : option string :=
  match env with
  | [] => None
  | (k', v) :: rest => if String.eqb k' k then v else getenv rest k
  end.

Definition is_disable (e : conf_ev) : bool := match e with EDisable _ => true | _ => false end.
