(* Model/ProcLock.v -- the layer below Commit.v's `Excl`: the metadata lock of a table on a local filesystem.

   Writers of one table are FileLock handles (one per LocalLockProvider = per MetadataManager = per Table handle;
   threads sharing a Table handle share the handle and are serialised by the handle's RLock before they reach it).
   Handles live in OS processes: `proc : hid -> pid` is the PROCESS TOPOLOGY and is arbitrary -- all handles in one
   process, one process per handle, or any mixture.  Each handle runs FileLock's program on the one lock file, one
   kernel primitive per event (file_lock.py):

       _try_acquire_once   KOpen ; KTry ok ; ok: flag := true            (HHeld)
                                            refused: KCloseRefused       (back to HIdle; acquire() polls again)
       release             KUnlock ; KClose ; flag := false

   and a process can be killed (LKill: the kernel closes every descriptor of the process).  The kernel keeps the table
   of REFERENCES to open descriptions of the lock file (`l_open`: description, a handle that has a descriptor for it)
   and the owner of the advisory lock, under one of the two ownership disciplines of Model/ProcLockBase.v.  The
   discipline the SOURCE uses is Gen/GenFileLock.v `gen_lock_disc`, regenerated on every run.

   DESCRIPTOR INHERITANCE.  A writer process can also come into being by fork(): the child gets a copy of the handle
   OBJECT and of every open descriptor, and an inherited descriptor refers to the SAME open file description as the
   parent's (`LFork h h'`: handle h' -- a new handle, in the process `proc h'` -- becomes the twin of h: two handles
   sharing one description).  For a description with several references the kernel's rules are flock(2)'s: a lock
   attempt through ANY reference to the owning description is granted (it merely re-locks), an unlock through any
   reference drops the lock for all of them, and closing a descriptor drops the lock only when it was the LAST
   reference (`close_release`, `owner_after_kill`).  The twin's program state is what the copied object fields say:
   holding (flag set, descriptor stored) if the original holds or is inside release(), idle otherwise -- an attempt in
   progress lives in a local variable of a thread that does not exist in the child; the descriptor leaks there.
   A fork is QUIESCENT when the copied handle is idle (`fork_quiescent`: the application forks its workers between
   commits, not from inside one).  FileLock opens the lock file per attempt and closes it on refusal and in release(),
   so an idle handle holds no descriptor and a quiescent fork inherits NOTHING: that is what the theorems rest on, and
   what a handle that kept its descriptor across acquisitions would break (Model/ProcLockKeep.v).

   Commit.v abstracts all of this to `w_lock : option aid` with `lockkind = Excl`: an attempt succeeds iff nobody
   holds, and a holder cannot lose the lock (Commit.v's `holds` is constantly true: the fence reads the handle's local flag).
   Proofs/ProcLockProofs.v proves that abstraction for ByDescription under EVERY topology and every interleaving, and
   exhibits how it fails for ByProcess as soon as one process has two handles.

   Definitions only. *)
From Coq Require Import List Bool Arith.
Require Import DS.Model.ProcLockBase DS.Gen.GenFileLock.
Import ListNotations.

Definition hid := nat.      (* FileLock handle *)
Definition pid := nat.      (* OS process *)
Definition fdn := nat.      (* open file description of the lock file (never reused in the model) *)

Inductive lowner := OwnD (d : fdn) | OwnP (p : pid).

Inductive hstate :=
| HIdle
| HOpened (d : fdn)         (* lock file opened, attempt not yet made *)
| HRefused (d : fdn)        (* attempt refused, descriptor not yet closed *)
| HHeld (d : fdn)           (* _locked = True, _lock_fd = d *)
| HUnlocked (d : fdn)       (* release(): unlocked, descriptor not yet closed (flag still set; the owner thread is inside release) *)
| HDead.

Record lstate := {
  l_open : list (fdn * hid);
  l_next : fdn;
  l_owner : option lowner;
  l_h : hid -> hstate }.

Inductive lkind := KOpen | KTry (ok : bool) | KCloseRefused | KUnlock | KClose.
Inductive levent := LStep (h : hid) (k : lkind) | LKill (p : pid) | LFork (h h' : hid).

Definition linit : lstate := {| l_open := []; l_next := 0; l_owner := None; l_h := fun _ => HIdle |}.

(* ---- the kernel *)
Definition grants (dc : disc) (proc : hid -> pid) (o : option lowner) (d : fdn) (h : hid) : bool :=
  match o with
  | None => true
  | Some (OwnD d') => match dc with ByDescription => Nat.eqb d' d | ByProcess => false end
  | Some (OwnP p) => match dc with ByProcess => Nat.eqb p (proc h) | ByDescription => false end
  end.

Definition owner_for (dc : disc) (proc : hid -> pid) (d : fdn) (h : hid) : lowner :=
  match dc with ByDescription => OwnD d | ByProcess => OwnP (proc h) end.

(* does an unlock through description d / the close of description d, issued by handle h, release owner o? *)
Definition drops (dc : disc) (proc : hid -> pid) (o : lowner) (d : fdn) (h : hid) : bool :=
  match o, dc with
  | OwnD d', ByDescription => Nat.eqb d' d
  | OwnP p, ByProcess => Nat.eqb p (proc h)
  | _, _ => false
  end.

Definition release_by (dc : disc) (proc : hid -> pid) (o : option lowner) (d : fdn) (h : hid) : option lowner :=
  match o with
  | Some x => if drops dc proc x d h then None else Some x
  | None => None
  end.

(* handle h closes ITS descriptor of description d: that reference goes away, the others stay *)
Definition close_ref (l : list (fdn * hid)) (d : fdn) (h : hid) : list (fdn * hid) :=
  filter (fun x => negb (Nat.eqb (fst x) d && Nat.eqb (snd x) h)) l.

(* is some descriptor of description d still open? *)
Definition still_open (l : list (fdn * hid)) (d : fdn) : bool := existsb (fun x => Nat.eqb (fst x) d) l.

(* what the close of h's descriptor of d does to the lock; l' = the reference table after the close.
   flock: the lock goes away with the LAST descriptor of the owning description.  POSIX record locks: with ANY
   descriptor of the file the process closes. *)
Definition close_release (dc : disc) (proc : hid -> pid) (o : option lowner) (l' : list (fdn * hid)) (d : fdn) (h : hid) : option lowner :=
  match dc with
  | ByDescription => if still_open l' d then o else release_by dc proc o d h
  | ByProcess => release_by dc proc o d h
  end.

Fixpoint opener (l : list (fdn * hid)) (d : fdn) : option hid :=
  match l with
  | [] => None
  | (d', h) :: l' => if Nat.eqb d' d then Some h else opener l' d
  end.

Definition in_proc (proc : hid -> pid) (p : pid) (h : hid) : bool := Nat.eqb (proc h) p.

(* process death: what the kernel does to the lock owner *)
Definition refs_after_kill (proc : hid -> pid) (s : lstate) (p : pid) : list (fdn * hid) :=
  filter (fun x => negb (in_proc proc p (snd x))) (l_open s).

Definition owner_after_kill (proc : hid -> pid) (s : lstate) (p : pid) : option lowner :=
  match l_owner s with
  | Some (OwnD d) => if still_open (refs_after_kill proc s p) d then Some (OwnD d) else None
  | Some (OwnP p') => if Nat.eqb p' p then None else Some (OwnP p')
  | None => None
  end.

(* fork: the references of the copied handle, duplicated for its twin; the twin's state = the copied object fields *)
Definition inherited (l : list (fdn * hid)) (h h' : hid) : list (fdn * hid) :=
  map (fun x => (fst x, h')) (filter (fun x => Nat.eqb (snd x) h) l).
Definition twin_state (x : hstate) : hstate :=
  match x with HHeld d | HUnlocked d => HHeld d | _ => HIdle end.
Definition has_refs (l : list (fdn * hid)) (h : hid) : bool := existsb (fun x => Nat.eqb (snd x) h) l.

Definition lupd (f : hid -> hstate) (h : hid) (x : hstate) : hid -> hstate := fun k => if Nat.eqb k h then x else f k.

(* ---- one event; None = not enabled (a KTry carries the kernel's answer as observed: it must be the model kernel's) *)
Definition lstep (dc : disc) (proc : hid -> pid) (s : lstate) (e : levent) : option lstate :=
  match e with
  | LStep h k =>
    match k, l_h s h with
    | KOpen, HIdle =>
      Some {| l_open := (l_next s, h) :: l_open s; l_next := S (l_next s); l_owner := l_owner s;
              l_h := lupd (l_h s) h (HOpened (l_next s)) |}
    | KTry ok, HOpened d =>
      if Bool.eqb ok (grants dc proc (l_owner s) d h) then
        if ok then Some {| l_open := l_open s; l_next := l_next s; l_owner := Some (owner_for dc proc d h);
                           l_h := lupd (l_h s) h (HHeld d) |}
        else Some {| l_open := l_open s; l_next := l_next s; l_owner := l_owner s; l_h := lupd (l_h s) h (HRefused d) |}
      else None
    | KCloseRefused, HRefused d =>
      Some {| l_open := close_ref (l_open s) d h; l_next := l_next s;
              l_owner := close_release dc proc (l_owner s) (close_ref (l_open s) d h) d h;
              l_h := lupd (l_h s) h HIdle |}
    | KUnlock, HHeld d =>
      Some {| l_open := l_open s; l_next := l_next s; l_owner := release_by dc proc (l_owner s) d h;
              l_h := lupd (l_h s) h (HUnlocked d) |}
    | KClose, HUnlocked d =>
      Some {| l_open := close_ref (l_open s) d h; l_next := l_next s;
              l_owner := close_release dc proc (l_owner s) (close_ref (l_open s) d h) d h;
              l_h := lupd (l_h s) h HIdle |}
    | _, _ => None
    end
  | LKill p =>
    Some {| l_open := refs_after_kill proc s p; l_next := l_next s;
            l_owner := owner_after_kill proc s p;
            l_h := fun h => if in_proc proc p h then HDead else l_h s h |}
  | LFork h h' =>
    (* h' is a NEW handle (idle, no descriptor of its own) in another process; a dead process does not fork *)
    match l_h s h', l_h s h with
    | HIdle, HDead => None
    | HIdle, x =>
      if negb (Nat.eqb (proc h) (proc h')) && negb (has_refs (l_open s) h') then
        Some {| l_open := l_open s ++ inherited (l_open s) h h'; l_next := l_next s; l_owner := l_owner s;
                l_h := lupd (l_h s) h' (twin_state x) |}
      else None
    | _, _ => None
    end
  end.

(* the application forks between commits: the copied handle is idle *)
Definition fork_quiescent (s : lstate) (e : levent) : Prop :=
  match e with LFork h _ => l_h s h = HIdle | _ => True end.

(* every event list is a schedule: events that are not enabled are skipped *)
Definition lstep_skip (dc : disc) (proc : hid -> pid) (s : lstate) (e : levent) : lstate :=
  match lstep dc proc s e with Some s' => s' | None => s end.
Definition lrun (dc : disc) (proc : hid -> pid) (s : lstate) (evs : list levent) : lstate :=
  fold_left (lstep_skip dc proc) evs s.

(* every fork of the event list happens while the handle it copies is idle *)
Fixpoint forks_quiescent (dc : disc) (proc : hid -> pid) (s : lstate) (evs : list levent) : Prop :=
  match evs with
  | [] => True
  | e :: evs' => fork_quiescent s e /\ forks_quiescent dc proc (lstep_skip dc proc s e) evs'
  end.

(* trace validation: the first event that is not enabled is reported by its index *)
Fixpoint lrun_strict (dc : disc) (proc : hid -> pid) (s : lstate) (evs : list levent) (i : nat) : lstate + nat :=
  match evs with
  | [] => inl s
  | e :: evs' => match lstep dc proc s e with Some s' => lrun_strict dc proc s' evs' (S i) | None => inr i end
  end.

(* ---- what the handles believe, and what Commit.v sees *)
(* the handle's flag says "held" and its owner thread is not inside release() *)
Definition lholds (s : lstate) (h : hid) : Prop := exists d, l_h s h = HHeld d.

(* the lock as Commit.v's w_lock sees it: the handle whose description the kernel names as owner *)
Definition lock_view (s : lstate) : option hid :=
  match l_owner s with
  | Some (OwnD d) => opener (l_open s) d
  | _ => None
  end.

(* What each event does to the lock AS COMMIT.V SEES IT (w_lock with lockkind = Excl), for a reachable state:
     a granted attempt   happens only when nobody lholds, and makes the handle the holder        (ELockTry true)
     a refused attempt   happens only when ANOTHER handle lholds, and changes nothing              (ELockTry false)
     the holder's unlock frees the lock                                                             (ERelease)
     a process death     frees the lock iff the holder lived in that process                       (ECrash)
     everything else -- opening the lock file, closing the descriptor of a refused attempt, closing the descriptor after
     one's own unlock, by a handle in the holder's process or in any other, a (quiescent) fork -- leaves the holder the holder. *)
Definition view_effect (proc : hid -> pid) (s : lstate) (e : levent) (s' : lstate) : Prop :=
  match e with
  | LStep h (KTry true) => lock_view s = None /\ lock_view s' = Some h
  | LStep h (KTry false) => (exists h', h' <> h /\ lock_view s = Some h') /\ lock_view s' = lock_view s
  | LStep h KUnlock => lock_view s = Some h /\ lock_view s' = None
  | LKill p => lock_view s' = match lock_view s with
                              | Some h => if in_proc proc p h then None else Some h
                              | None => None
                              end
  | LStep _ _ => lock_view s' = lock_view s
  | LFork _ _ => lock_view s' = lock_view s
  end.

(* ---- the program of a handle, as primitive actions (compared with the regenerated skeleton) *)
Definition lactions_of (k : lkind) : list lact :=
  match k with
  | KOpen => [LAOpen]
  | KTry true => [LATry; LAHeld true]
  | KTry false => [LATry]
  | KCloseRefused => [LAClose]
  | KUnlock => [LAUnlock]
  | KClose => [LAClose; LAHeld false]
  end.
Definition attempt_granted_events : list lkind := [KOpen; KTry true].
Definition attempt_refused_events : list lkind := [KOpen; KTry false; KCloseRefused].
Definition release_events : list lkind := [KUnlock; KClose].

(* observable summary used by the correspondence harness: (view, descriptions ever opened, still open) *)
Definition lsummary (s : lstate) : (option nat * nat * nat) := (lock_view s, l_next s, length (l_open s)).
