(* Model/TxSettle.v -- what Transaction.commit does AFTER MetadataManager.commit has raised out of a failed commit-point
   write (C01).  (transaction.py Transaction.commit's except-arms + _rollback; layered on Model/FlipFault.v.)

   When the exception has left commit() (FlipFault's XUnwind: the `finally` released the lock) the transaction is OUTSIDE
   the lock.  Whatever it does next -- report the failure as it stands, or try to SETTLE it by reading the pointer back --
   is a step of its own in the schedule (TSettle): other committers may have run to completion in between.  The step
   decides what the caller is told and whether the transaction's data files are deleted:

       verdict VLanded    -> the caller is told "committed"                                   (RepSuccess)
       verdict VNotLanded -> _rollback() deletes the transaction's data files, the caller is
                             told of a definite failure ("rolled back - retry it")            (RepFailed, t_deleted)
       verdict VUnknown   -> _rollback(delete_files=False), the ambiguous error is re-raised   (RepAmbiguous)

   A `policy` computes the verdict from what a read of the table can show at that moment: does the pointer name OUR version
   (tip), is OUR commit among the versions published so far (in the chain the current version was built on).  The policy
   of the source is NOT written down here: `arm_policy` reads it off the regenerated handler table (Gen/GenCommit.v
   gen_tx_on over gen_flip_exn): an arm that re-raises after _rollback(delete_files=False) looks at nothing and answers
   VUnknown, an arm that runs the deleting rollback answers VNotLanded without looking.  (An arm of any other shape -- one
   that reads the table back -- is refused by the translator: the build fails closed.)

   The machine is FlipFault's prompt machine (identical to the unrestricted one on schedules without
   refused-although-applied writes).  A request that lands after its client gave up is FlipFault's XFlipErr placed at the
   landing, BEFORE the sender's XUnwind: in this machine the settle step never precedes the landing of the request it asks
   about (for a store that can apply a request after the client stopped waiting, no read-back can answer VNotLanded; the
   harness runs such landings against the real code).
   Definitions only; proofs in Proofs/TxSettleProofs.v. *)
From Coq Require Import ZArith List Bool Arith.
Require Import DS.Model.CommitBase DS.Gen.GenCommit DS.Model.Commit DS.Model.FlipFault.
Import ListNotations.

Inductive verdict := VLanded | VNotLanded | VUnknown.

(* tip names our version? -> our commit is in the published history? -> verdict *)
Definition policy := bool -> bool -> verdict.

Inductive report := RepSuccess | RepFailed | RepAmbiguous.

(* the policy an except-arm of Transaction.commit amounts to (no read-back in any arm the translator accepts) *)
Definition arm_policy (act : tx_action) : policy :=
  fun _ _ => match act with
             | TxRollbackDelete => VNotLanded
             | TxRetry => VNotLanded              (* a new attempt commits the operation again: "did not happen" *)
             | TxRollbackKeep => VUnknown
             | TxPropagate => VUnknown
             end.

(* ... for the exception the regenerated commit point raises when the write fails with an error other than a refusal *)
Definition gen_policy (casb atomic last : bool) : policy := arm_policy (gen_tx_on (gen_flip_exn casb atomic FEError) last).

(* the read-backs one could write *)
Definition tip_policy : policy := fun tip _ => if tip then VLanded else VNotLanded.      (* "is the current version ours?" *)

(* a policy never contradicts the published history *)
Definition sound_policy (p : policy) : Prop :=
  forall tip inh, (p tip inh = VLanded -> inh = true) /\ (p tip inh = VNotLanded -> inh = false).

Record tworld := {
  t_x : xworld;
  t_rep : aid -> option report;        (* what the caller of a failed commit-point write was told, once the transaction has decided *)
  t_deleted : list aid }.              (* ghost: committers whose data files the transaction deleted *)

Inductive tevent :=
| TX (x : xevent)                      (* a step of the faulted commit machine *)
| TSettle (a : aid).                   (* a's transaction, outside the lock, decides what its failed commit-point write amounts to *)

Definition memb (a : aid) (l : list aid) : bool := existsb (Nat.eqb a) l.

Definition in_history (w : world) (a : aid) : bool := memb a (map snd (w_hist w)).

Definition set_rep (a : aid) (r : report) (f : aid -> option report) : aid -> option report :=
  fun b => if Nat.eqb b a then Some r else f b.

Definition unset {A} (o : option A) : bool := match o with None => true | Some _ => false end.

Definition tstep (pol : policy) (c : cfg) (atomic : bool) (T : tworld) (t : tevent) : option tworld :=
  match t with
  | TX x =>
    match xstep_p true c atomic (t_x T) x with
    | Some X' => Some {| t_x := X'; t_rep := t_rep T; t_deleted := t_deleted T |}
    | None => None
    end
  | TSettle a =>
    let X := t_x T in
    let s := w_actors (xw X) a in
    if memb a (x_failed X) && unset (x_err X a) && unset (t_rep T a) then
      match pol (names_ours (xw X) s) (in_history (xw X) a) with
      | VLanded => Some {| t_x := X; t_rep := set_rep a RepSuccess (t_rep T); t_deleted := t_deleted T |}
      | VNotLanded => Some {| t_x := X; t_rep := set_rep a RepFailed (t_rep T); t_deleted := a :: t_deleted T |}
      | VUnknown => Some {| t_x := X; t_rep := set_rep a RepAmbiguous (t_rep T); t_deleted := t_deleted T |}
      end
    else None
  end.

Definition tstep_skip (pol : policy) (c : cfg) (atomic : bool) (T : tworld) (t : tevent) : tworld :=
  match tstep pol c atomic T t with Some T' => T' | None => T end.
Definition trun (pol : policy) (c : cfg) (atomic : bool) (T : tworld) (ts : list tevent) : tworld :=
  fold_left (tstep_skip pol c atomic) ts T.

Fixpoint trun_strict (pol : policy) (c : cfg) (atomic : bool) (T : tworld) (ts : list tevent) (i : nat) : tworld + nat :=
  match ts with
  | [] => inl T
  | t :: ts' => match tstep pol c atomic T t with Some T' => trun_strict pol c atomic T' ts' (S i) | None => inr i end
  end.

Definition tinit (w : world) : tworld := {| t_x := xinit w; t_rep := fun _ => None; t_deleted := [] |}.

(* the property, per committer: told "failed" -> not reflected; told "committed" -> reflected; files deleted -> not reflected *)
Definition settle_consistent (T : tworld) : Prop :=
  forall a, let h := map snd (w_hist (xw (t_x T))) in
    (t_rep T a = Some RepFailed -> ~ In a h)
    /\ (t_rep T a = Some RepSuccess -> In a h)
    /\ (In a (t_deleted T) -> ~ In a h).

(* observable summary for the correspondence harness *)
Definition rep_code (r : option report) : Z :=
  match r with None => 0 | Some RepSuccess => 1 | Some RepFailed => 2 | Some RepAmbiguous => 3 end%Z.
Definition tsummary (T : tworld) (n : nat) :=
  (xsummary (t_x T) n, map (fun a => rep_code (t_rep T a)) (seq 0 n), rev (t_deleted T)).
