(* Model/MetaPy.v -- Python list / set / loop primitives over the metadata model's types, used by the
   translator-regenerated metadata mutators (Gen/GenMeta.v, read off snapshot_manager.py, transaction.py and
   metadata_manager.py).  Each definition says which Python construct it stands for.  Definitions only. *)
From Coq Require Import ZArith List Bool.
Require Import DS.Model.MetaBase DS.Model.Meta.
Import ListNotations.
Open Scope Z_scope.

(* a Python call that returns a value or raises *)
Inductive pyres (A : Type) := PyOk (a : A) | PyRaise.
Arguments PyOk {A} a.
Arguments PyRaise {A}.

(* xs[-n:] for an int n: n >= 1 the last n elements (all of them when n >= len); n = 0 is xs[0:] = everything;
   n < 0 is xs[|n|:] *)
Definition py_neg_slice {A} (n : Z) (xs : list A) : list A :=
  if n <=? 0 then skipn (Z.to_nat (- n)) xs else lastn (Z.to_nat n) xs.

(* `not xs` for a list / set *)
Definition py_empty {A} (xs : list A) : bool := match xs with [] => true | _ => false end.

(* ids.add(x) where x may be None: None is never equal to a snapshot id, so for the int membership queries that
   follow the set is unchanged *)
Definition py_ids_add (x : option Z) (ids : list Z) : list Z := match x with Some v => ids ++ [v] | None => ids end.

(* max(xs, key=lambda s: s.timestamp_ms): the FIRST maximal element; ValueError on an empty sequence *)
Definition py_max_ts (xs : list snap) : option snap := match xs with [] => None | s0 :: rest => Some (max_ts s0 rest) end.

(* for v in xs: (if c(v): acc = v  else: break)  -- the last element of the longest prefix whose elements satisfy c *)
Fixpoint py_last_of_prefix {A} (c : A -> bool) (xs : list A) (acc : option A) : option A :=
  match xs with
  | [] => acc
  | x :: xs' => if c x then py_last_of_prefix c xs' (Some x) else acc
  end.

(* `L and <test on L[-1]>` *)
Definition py_nonempty_and_last {A} (xs : list A) (t : A -> bool) : bool :=
  match rev xs with e :: _ => t e | [] => false end.

(* int(raw) of a table property with a default: `int(raw) if raw is not None else d`, falling back to d on
   TypeError / ValueError *)
Definition py_prop_int_or (p : pval) (d : Z) : Z := match p with PInt n => n | _ => d end.

(* for i, x in enumerate(xs): if c(x): idx = i; break   -- the index of the first element satisfying c *)
Fixpoint py_index_where {A} (c : A -> bool) (xs : list A) : option nat :=
  match xs with
  | [] => None
  | x :: xs' => if c x then Some O else option_map S (py_index_where c xs')
  end.

(* del xs[i]  (0 <= i < len xs; otherwise IndexError: not produced by the callers, returns xs) *)
Fixpoint py_del_at {A} (i : nat) (xs : list A) : list A :=
  match xs, i with
  | [], _ => []
  | _ :: xs', O => xs'
  | x :: xs', S i' => x :: py_del_at i' xs'
  end.
