(* Model/FieldKey.v -- the KEYS of a DataFile's statistics maps (lower_bounds / upper_bounds / column_sizes ...)
   through a manifest.  A key is a schema field id, i.e. whatever Python object the schema carries under "id";
   FileManager.create_manifest_file stores it as str(k) (Avro map keys are strings) in a dict comprehension,
   FileManager.read_manifest_file reads it back as int(key) in another dict comprehension.

     kenc            Python str(k) on the objects a field id can be (None, bool, int, str; the text of a float or a
                     temporal object is outside this model: `None`)
     kdec            Python int(s) on a str: whitespace stripped, optional sign, decimal digits with single
                     underscores between them; anything else raises ValueError.  Python also accepts the decimal
                     digits of other scripts: a string with a non-ASCII, non-space character is IntOutside.
                     (str(int) refuses numbers of more than 4300 digits; ids stay below that.)
     dict_of         a dict comprehension: a later item with an equal key replaces the VALUE of the earlier one
                     and keeps its position
     key_trip        {int(s): v for s, v in {str(k): v for k, v in m.items()}.items()}

   Strings are lists of code points, as in Model/Value.v.  Definitions only; Proofs/FieldKeyProofs.v.
   Tied to Python by the `keys` correspondence of harness/props/c13.py (real str / int, and real
   create_manifest_file -> raw Avro keys -> read_manifest_file on DataFiles keyed by arbitrary ids). *)
From Coq Require Import ZArith List Bool.
Require Import DS.Model.Value.
Import ListNotations.
Open Scope Z_scope.

(* ---- str(int) ---- *)
Definition digit_code (d : Z) : Z := 48 + d.

(* the decimal digits of n >= 0, most significant first, in front of acc; fuel > log2 n suffices *)
Fixpoint render (fuel : nat) (n : Z) (acc : list Z) : list Z :=
  match fuel with
  | O => acc
  | S f => if n <? 10 then digit_code n :: acc else render f (n / 10) (digit_code (n mod 10) :: acc)
  end.

Definition str_of_nonneg (n : Z) : list Z := render (S (Z.to_nat (Z.log2 n))) n [].
Definition str_of_Z (z : Z) : list Z := if z <? 0 then 45 :: str_of_nonneg (- z) else str_of_nonneg z.

(* ---- str(k) on a field id ---- *)
Definition kenc (k : value) : option (list Z) :=
  match k with
  | VInt z => Some (str_of_Z z)
  | VBool true => Some [84; 114; 117; 101]                (* "True" *)
  | VBool false => Some [70; 97; 108; 115; 101]           (* "False" *)
  | VStr s => Some s
  | VNull => Some [78; 111; 110; 101]                     (* "None" *)
  | _ => None                                             (* repr of a float / temporal object: outside the model *)
  end.

(* ---- int(s) on a str ---- *)
Inductive intres := IntOk (z : Z) | IntValueError | IntOutside.

(* the characters int() strips: C isspace() (\t \n \v \f \r and the blank) and the non-ASCII Unicode spaces, which int() first
   turns into blanks (the ASCII separators 0x1C-0x1F are str.isspace() but int() does not strip them) *)
Definition is_space (c : Z) : bool :=
  ((9 <=? c) && (c <=? 13)) || (c =? 32) || (c =? 133) || (c =? 160) || (c =? 5760)
  || ((8192 <=? c) && (c <=? 8202)) || (c =? 8232) || (c =? 8233) || (c =? 8239) || (c =? 8287) || (c =? 12288).
Definition is_digit (c : Z) : bool := (48 <=? c) && (c <=? 57).
Definition modelled_char (c : Z) : bool := (c <? 128) || is_space c.

Fixpoint lstrip (s : list Z) : list Z :=
  match s with
  | c :: r => if is_space c then lstrip r else s
  | [] => []
  end.
Fixpoint rstrip (s : list Z) : list Z :=
  match s with
  | [] => []
  | c :: r => match rstrip r with
              | [] => if is_space c then [] else [c]
              | r' => c :: r'
              end
  end.
Definition strip (s : list Z) : list Z := lstrip (rstrip s).

(* digit (_? digit)*  ;  need = a digit must come next (at the start and after an underscore) *)
Fixpoint digits_acc (acc : Z) (need : bool) (l : list Z) : option Z :=
  match l with
  | [] => if need then None else Some acc
  | c :: r =>
    if is_digit c then digits_acc (10 * acc + (c - 48)) false r
    else if (c =? 95) && negb need then digits_acc acc true r
    else None
  end.

Definition parse_signed (s : list Z) : option Z :=
  match s with
  | 45 :: r => option_map Z.opp (digits_acc 0 true r)
  | 43 :: r => digits_acc 0 true r
  | _ => digits_acc 0 true s
  end.

Definition kdec (s : list Z) : intres :=
  if forallb modelled_char s then
    match parse_signed (strip s) with Some z => IntOk z | None => IntValueError end
  else IntOutside.

(* ---- dict comprehensions ---- *)
Fixpoint dset {K V} (eqb : K -> K -> bool) (k : K) (v : V) (d : list (K * V)) : list (K * V) :=
  match d with
  | [] => [(k, v)]
  | (k', v') :: d' => if eqb k k' then (k', v) :: d' else (k', v') :: dset eqb k v d'
  end.
Definition dict_of {K V} (eqb : K -> K -> bool) (items : list (K * V)) : list (K * V) :=
  fold_left (fun d kv => dset eqb (fst kv) (snd kv) d) items [].

Fixpoint codes_eqb (a b : list Z) : bool :=
  match a, b with
  | [], [] => true
  | x :: a', y :: b' => (x =? y) && codes_eqb a' b'
  | _, _ => false
  end.

(* ---- the writer's and the reader's key comprehension, any payload type ---- *)
Inductive tripres (A : Type) := TripOk (m : list (Z * A)) | TripUnreadable | TripOutside.
Arguments TripOk {A}. Arguments TripUnreadable {A}. Arguments TripOutside {A}.

Fixpoint map_opt {A B} (f : A -> option B) (l : list A) : option (list B) :=
  match l with
  | [] => Some []
  | x :: r => match f x, map_opt f r with Some y, Some r' => Some (y :: r') | _, _ => None end
  end.

(* {str(k): v for k, v in m.items()}  (None: some key's text is outside the model) *)
Definition key_write {A} (m : list (value * A)) : option (list (list Z * A)) :=
  option_map (dict_of codes_eqb) (map_opt (fun kv => option_map (fun s => (s, snd kv)) (kenc (fst kv))) m).

(* {int(s): v for s, v in d.items()}: the first key int() refuses makes the whole read raise ValueError *)
Fixpoint read_keys {A} (d : list (list Z * A)) : tripres A :=
  match d with
  | [] => TripOk []
  | (s, v) :: r =>
    match kdec s with
    | IntValueError => TripUnreadable
    | IntOutside => TripOutside
    | IntOk z => match read_keys r with TripOk r' => TripOk ((z, v) :: r') | e => e end
    end
  end.
Definition key_read {A} (d : list (list Z * A)) : tripres A :=
  match read_keys d with TripOk l => TripOk (dict_of Z.eqb l) | e => e end.

Definition key_trip {A} (m : list (value * A)) : tripres A :=
  match key_write m with Some d => key_read d | None => TripOutside end.

(* ---- what a Schema's field ids must be for the trip to be the identity ---- *)
Definition is_int_id (k : value) : bool := match k with VInt _ => true | _ => false end.
Definition ids_are_ints (ks : list value) : Prop := Forall (fun k => is_int_id k = true) ks.
(* the ids as the ints they are (other objects dropped: there are none under ids_are_ints) *)
Fixpoint int_ids (ks : list value) : list Z :=
  match ks with
  | [] => []
  | VInt z :: r => z :: int_ids r
  | _ :: r => int_ids r
  end.
Fixpoint int_keyed {A} (m : list (value * A)) : list (Z * A) :=
  match m with
  | [] => []
  | (VInt z, v) :: r => (z, v) :: int_keyed r
  | _ :: r => int_keyed r
  end.

(* `k in seen` for a set / a dict's keys: equal (==) builtin objects hash alike *)
Definition py_set_mem (k : value) (seen : list value) : bool := existsb (py_eqb k) seen.
(* pairwise != : what Schema's duplicate test alone guarantees *)
Fixpoint py_distinct (ks : list value) : Prop :=
  match ks with
  | [] => True
  | k :: r => py_set_mem k r = false /\ py_distinct r
  end.

(* the lookup the planner does on the int-keyed dict read back: data_file.lower_bounds.get(field_id) *)
Fixpoint py_get {A} (k : value) (d : list (Z * A)) : option A :=
  match d with
  | [] => None
  | (z, v) :: r => if py_eqb k (VInt z) then Some v else py_get k r
  end.
