(* Model/ReadBlocks.v -- Avro containers are read BLOCK BY BLOCK (C14).

   An Avro container file is a header followed by blocks; fastavro's reader is an iterator that hands out the
   records of one block after the other and raises when it meets a block it cannot decode (file cut in the middle
   of a block, bytes that are no block, a stream that fails while the block is fetched).  By then it HAS handed out
   the records of every block before.  Model/Read.v takes the outcome of the whole decode as a parameter
   ([avro_man E b], [avro_list E b]: AvOk records | AvRaise mro); this file opens that parameter up:

     stream bs    what the iterator hands the reader's loop: the records of the leading good blocks, the records of
                  the first bad block that precede its damage, then that block's exception;
     collect bs   the reader's loop `acc = []; for rec in reader: acc.append(..); return acc` of
                  FileManager.read_manifest_file / read_manifest_list_file (pinned by golden AST in GenRead.v):
                  the accumulator is a local of the call, an exception leaves the loop and the accumulator with it;
     with_block_decoders E lb mb   the environment whose two Avro decoders are [collect] over block decodings.

   And a handle that REMEMBERS decoded manifests between calls (the code has no such component -- its read path is
   pinned -- but a cache is the one place where records of a failed decode could outlive the call):

     cached_decode   remember what a COMPLETE decode returned, keyed by the identity of the bytes;
     eager_decode    register the entry first and fill it while decoding (what must not be done). *)
From Coq Require Import ZArith NArith List Bool String.
Require Import DS.Gen.GenRead DS.Model.Read.
Import ListNotations.
Open Scope list_scope.

(* a block decodes to its records, or the decoder raises in it -- after handing out [pre], the records of the block
   that precede the damage (a block is fetched whole and decoded record by record) *)
Inductive blk (A : Type) := BGood (recs : list A) | BBad (pre : list A) (mro : list string).
Arguments BGood {A} recs.
Arguments BBad {A} pre mro.

Definition good {A} (b : blk A) : bool := match b with BGood _ => true | BBad _ _ => false end.
Definition recs_of {A} (b : blk A) : list A := match b with BGood r => r | BBad _ _ => [] end.
Definition all_records {A} (bs : list (blk A)) : list A := List.concat (map recs_of bs).

Fixpoint stream {A} (bs : list (blk A)) : list A * option (list string) :=
  match bs with
  | [] => ([], None)
  | BGood r :: tl => (r ++ fst (stream tl), snd (stream tl))
  | BBad pre m :: _ => (pre, Some m)
  end.

Definition collect {A} (bs : list (blk A)) : avro (list A) :=
  match snd (stream bs) with
  | None => AvOk (fst (stream bs))
  | Some m => AvRaise m
  end.

Definition with_block_decoders (E : env) (lb : bytes -> list (blk (option key))) (mb : bytes -> list (blk dfile)) : env :=
  {| sha := sha E; parse_hint := parse_hint E; recovered := recovered E; parse_meta := parse_meta E;
     avro_list := fun b => collect (lb b); json_list := json_list E;
     avro_man := fun b => collect (mb b); json_man := json_man E; parquet := parquet E |}.

(* ---------------------------------------------------------------- a handle with a decode cache *)
Definition dcache := list (bytes * list dfile).

Definition cache_find (c : dcache) (b : bytes) : option (list dfile) :=
  match find (fun e => N.eqb (fst e) b) c with Some e => Some (snd e) | None => None end.

(* remember only the result of a decode that ran to the end *)
Definition cached_decode (dec : bytes -> avro (list dfile)) (c : dcache) (b : bytes) : avro (list dfile) * dcache :=
  match cache_find c b with
  | Some xs => (AvOk xs, c)
  | None => match dec b with
            | AvOk xs => (AvOk xs, (b, xs) :: c)
            | AvRaise m => (AvRaise m, c)
            end
  end.

Fixpoint run_decodes (dec : bytes -> avro (list dfile)) (c : dcache) (reads : list bytes) : list (avro (list dfile)) * dcache :=
  match reads with
  | [] => ([], c)
  | b :: tl => let r := cached_decode dec c b in
               let rs := run_decodes dec (snd r) tl in
               (fst r :: fst rs, snd rs)
  end.

(* the entry is registered BEFORE decoding and filled record by record; a non-empty entry is served as it is *)
Definition eager_decode (mb : bytes -> list (blk dfile)) (c : dcache) (b : bytes) : avro (list dfile) * dcache :=
  match cache_find c b with
  | Some (x :: xs) => (AvOk (x :: xs), c)
  | _ => (collect (mb b), (b, fst (stream (mb b))) :: c)
  end.

Fixpoint run_eager (mb : bytes -> list (blk dfile)) (c : dcache) (reads : list bytes) : list (avro (list dfile)) * dcache :=
  match reads with
  | [] => ([], c)
  | b :: tl => let r := eager_decode mb c b in
               let rs := run_eager mb (snd r) tl in
               (fst r :: fst rs, snd rs)
  end.
