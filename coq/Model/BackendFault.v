(* Model/BackendFault.v -- S3StorageBackend over a store that can FAIL: every request an operation issues may be
   answered with an injected error, before the request took effect or AFTER it did (the PUT landed, the DELETE
   removed, and the answer was lost).  This composes the retry loop (Model/Retry.v: classification of what an
   attempt raises) with the operations of Model/Backend.v, method by method, as the source wraps them:

     write_file, read_file, open_file, read_file_with_etag, delete_file, get_size, get_modified_time :
                     with_s3_retry around a closure that issues ONE request; the closure turns the store's
                     not-found code into FileNotFoundError, which is an OSError: retryable, not permanent -- so a
                     not-found answer is RETRIED until the budget is used up (s3_consistency.py, deliberately);
     exists        : with_s3_retry around HEAD (+ a one-key listing for a path spelled with a trailing "/");
                     a not-found HEAD answers False at once;
     list_files    : with_s3_retry around the WHOLE paginated listing (Model/Paged.v: fresh result per attempt);
     open_seekable : get_size (its own with_s3_retry), then S3RangeFile: every ranged GET under its OWN with_s3_retry;
     write_file_cas: NOT under with_s3_retry -- one conditional PUT, whatever it raises surfaces.

   A plan has one entry per request the operation issues, in order, retried requests included (None / beyond the
   end = answered).  Tied to the code by the `backend-s3-faults` correspondence (positional fault plans of
   harness/lib/fakes3.py: before / after, any exception, at any request index).  Definitions only. *)
From Coq Require Import List Bool Ascii String Arith ZArith.
Require Import DS.Model.Str DS.Gen.GenS3 DS.Gen.GenRange DS.Model.Range DS.Model.Backend DS.Model.Retry DS.Model.BackendTrace.
Import ListNotations.

Inductive fwhen := FBefore | FAfter.
Definition fplan := list (option (fwhen * exn)).

(* what an attempt raises: the FileNotFoundError the closure makes of a not-found answer, or an S3 / transport error *)
Inductive fx := XNotFound | XExn (e : exn).
Definition fx_exn (x : fx) : exn := match x with XNotFound => OSErr | XExn e => e end.

(* retry_with_backoff retries it: a retryable exception that is not permanent (Model/Retry.v classify) *)
Definition fx_transient (x : fx) : bool :=
  match @classify unit (inr (fx_exn x)) with Transient _ => true | _ => false end.

Definition attempt (V : Type) := bucket -> fplan -> (V + fx) * bucket * fplan.

(* one request: `ans` is what the store answers in state b, `eff` what the request does to the store.
   fault before: no effect; fault after: the effect is applied and the answer is lost (a request the store itself
   refuses fails with the store's error either way) *)
Definition request {V : Type} (ans : bucket -> V + fx) (eff : bucket -> bucket) : attempt V :=
  fun b pl =>
  match pl with
  | Some (FBefore, e) :: pl' => (inr (XExn e), b, pl')
  | Some (FAfter, e) :: pl' => (match ans b with inl _ => inr (XExn e) | inr x => inr x end, eff b, pl')
  | None :: pl' => (ans b, eff b, pl')
  | [] => (ans b, eff b, [])
  end.

(* retry_with_backoff with `budget` retries left around an attempt: result of the LAST attempt made *)
Fixpoint retry_f {V : Type} (budget : nat) (att : attempt V) (b : bucket) (pl : fplan) {struct budget} : (V + fx) * bucket * fplan :=
  let '(r, b', pl') := att b pl in
  match r with
  | inl v => (inl v, b', pl')
  | inr x =>
    if fx_transient x
    then match budget with O => (inr x, b', pl') | S n => retry_f n att b' pl' end
    else (inr x, b', pl')
  end.

(* `except ClientError as e: if e.response["Error"]["Code"] == <code>: raise FileNotFoundError` *)
Definition conv {V : Type} (code : str) (r : V + fx) : V + fx :=
  match r with
  | inr (XExn (ClientError c)) => if str_eqb c code then inr XNotFound else r
  | _ => r
  end.

Definition amap {V W : Type} (f : V + fx -> W + fx) (att : attempt V) : attempt W :=
  fun b pl => let '(r, b', pl') := att b pl in (f r, b', pl').

Definition vmap {V W : Type} (f : V -> W) (r : V + fx) : W + fx := match r with inl v => inl (f v) | inr x => inr x end.

Definition raw_get (k : str) (b : bucket) : bytes + fx :=
  match s3_get_object b k with S3Ok v => inl v | S3Fail c => inr (XExn (ClientError c)) end.
Definition raw_head (k : str) (b : bucket) : bytes + fx :=
  match s3_head_object b k with S3Ok v => inl v | S3Fail c => inr (XExn (ClientError c)) end.

Definition att_get (code k : str) : attempt bytes := amap (conv code) (request (raw_get k) (fun b => b)).
Definition att_head (code k : str) : attempt bytes := amap (conv code) (request (raw_head k) (fun b => b)).
Definition att_put (k : str) (v : bytes) : attempt unit := request (fun _ => inl tt) (fun b => s3_put_object b k v).
Definition att_delete (k : str) : attempt unit := request (fun _ => inl tt) (fun b => s3_delete_object b k).

(* exists_op: HEAD; 404 -> False, or for a directory-like key a one-key listing *)
Definition att_exists (k : str) : attempt bool :=
  fun b pl =>
  let '(r, b1, pl1) := request (raw_head k) (fun b => b) b pl in
  match r with
  | inl _ => (inl true, b1, pl1)
  | inr (XExn (ClientError c)) =>
    if negb (str_eqb c gen_code_exists_notfound) then (inr (XExn (ClientError c)), b1, pl1)
    else if negb (ends_with k (lit "/")) then (inl false, b1, pl1)
    else request (fun b => inl (match s3_list_objects b k with [] => false | _ => true end)) (fun b => b) b1 pl1
  | inr x => (inr x, b1, pl1)
  end.

(* the requests of one walk over n pages: the first fault ends the attempt *)
Fixpoint walk (n : nat) (pl : fplan) : option exn * fplan :=
  match n with
  | O => (None, pl)
  | S n' => match pl with
            | Some (_, e) :: pl' => (Some e, pl')
            | None :: pl' => walk n' pl'
            | [] => (None, [])
            end
  end.

(* list_op: fresh result list, every page requested again *)
Definition att_list (page : nat) (P : str) : attempt (list str) :=
  fun b pl =>
  let l := s3_list_objects b P in
  match walk (pages (List.length l) page) pl with
  | (Some e, pl') => (inr (XExn e), b, pl')
  | (None, pl') => (inl l, b, pl')
  end.

(* S3RangeFile._get_range: GetObject with Range on the bucket as it is now *)
Definition att_range (k : str) (first last : Z) : attempt bytes :=
  request (fun b => match lookup str_eqb k b with
                    | None => inr (XExn (ClientError (lit "NoSuchKey")))
                    | Some v => match server_range v first last with
                                | Some d => inl d
                                | None => inr (XExn (ClientError (lit "InvalidRange")))
                                end
                    end) (fun b => b).

(* what an operation's caller sees: an observation of the contract, or the exception that surfaced *)
Definition fres := (obs + exn)%type.
Definition res_of {V : Type} (f : V -> obs) (r : V + fx) : fres :=
  match r with inl v => inl (f v) | inr XNotFound => inl (OErr NotFound) | inr (XExn e) => inr e end.

(* one step of a seek/read program on the reader: a read that needs bytes is ONE ranged GET under its own retry;
   an error that survives the retries propagates out of the program *)
Definition rf_step_f (budget : nat) (size : Z) (k : str) (b : bucket) (pos : Z) (o : rop) (pl : fplan) : (Z * @robs ascii + exn) * fplan :=
  let get (r : option (Z * Z)) :=
    match r with
    | None => (inl (pos, RData []), pl)
    | Some (first, last) =>
      match retry_f budget (att_range k first last) b pl with
      | (inl d, _, pl') => (inl ((pos + zlen d)%Z, RData d), pl')
      | (inr x, _, pl') => (inr (fx_exn x), pl')
      end
    end in
  match o with
  | Seek off w => (inl (rf_seek size pos off w), pl)
  | Tell => (inl (pos, RPos pos), pl)
  | ReadInto want => get (gen_rf_readinto pos size want)
  | ReadAll => get (gen_rf_readall pos size)
  end.

Fixpoint run_rf_f (budget : nat) (size : Z) (k : str) (b : bucket) (pos : Z) (prog : list rop) (pl : fplan)
  : (list (@robs ascii) * Z + exn) * fplan :=
  match prog with
  | [] => (inl ([], pos), pl)
  | o :: prog' =>
    match rf_step_f budget size k b pos o pl with
    | (inl (pos', ob), pl') =>
      match run_rf_f budget size k b pos' prog' pl' with
      | (inl (os, final), pl'') => (inl (ob :: os, final), pl'')
      | (inr e, pl'') => (inr e, pl'')
      end
    | (inr e, pl') => (inr e, pl')
    end
  end.

(* open_seekable + program: get_size under its retry, then the reader *)
Definition s3_open_f (budget : nat) (pfx : str) (b : bucket) (p : str) (prog : list rop) (pl : fplan) : fres * fplan :=
  match retry_f budget (att_head gen_code_size_notfound (gen_get_s3_key pfx (gen_open_size_path p))) b pl with
  | (inl v, _, pl1) =>
    match run_rf_f budget (size_of v) (gen_open_key pfx p) b 0 prog pl1 with
    | (inl (os, final), pl2) => (inl (OOpened os final), pl2)
    | (inr e, pl2) => (inr e, pl2)
    end
  | (inr XNotFound, _, pl1) => (inl (OErr NotFound), pl1)
  | (inr (XExn e), _, pl1) => (inr e, pl1)
  end.

(* S3StorageBackend with self.prefix = pfx over a store answering along plan pl; default_handler.max_retries = budget,
   service page size = page *)
Definition s3_step_f (budget page : nat) (pfx : str) (b : bucket) (o : op str) (pl : fplan) : bucket * fplan * fres :=
  match o with
  | Write p v =>
    let '(r, b', pl') := retry_f budget (att_put (gen_get_s3_key pfx p) v) b pl in (b', pl', res_of (fun _ => OUnit) r)
  | Read p =>
    let '(r, b', pl') := retry_f budget (att_get gen_code_read_notfound (gen_get_s3_key pfx p)) b pl in (b', pl', res_of OBytes r)
  | Exists p =>
    let '(r, b', pl') := retry_f budget (att_exists (gen_get_s3_key pfx p)) b pl in (b', pl', res_of OBool r)
  | ListDir p =>
    let '(r, b', pl') := retry_f budget (att_list page (gen_list_prefix pfx p)) b pl in
    (b', pl', res_of (fun l => OList (map (gen_strip_prefix pfx) l)) r)
  | Delete p =>
    let '(r, b', pl') := retry_f budget (att_delete (gen_get_s3_key pfx p)) b pl in (b', pl', res_of (fun _ => OUnit) r)
  | Size p =>
    let '(r, b', pl') := retry_f budget (att_head gen_code_size_notfound (gen_get_s3_key pfx p)) b pl in
    (b', pl', res_of (fun v => OSize (size_of v)) r)
  | Mtime p =>
    let '(r, b', pl') := retry_f budget (att_head gen_code_mtime_notfound (gen_get_s3_key pfx p)) b pl in
    (b', pl', res_of (fun _ => OUnit) r)
  | Open p prog => let '(r, pl') := s3_open_f budget pfx b p prog pl in (b, pl', r)
  | Stream p =>
    let '(r, b', pl') := retry_f budget (att_get gen_code_open_notfound (gen_get_s3_key pfx p)) b pl in (b', pl', res_of OBytes r)
  | ReadTag p =>
    let '(r, b', pl') := retry_f budget (att_get gen_code_readtag_notfound (gen_get_s3_key pfx p)) b pl in (b', pl', res_of OBytes r)
  | WriteCas p v =>
    (* the CAS writer as callers use it: read_file_with_etag (under retry; not found = no tag), then write_file_cas:
       ONE conditional PUT, not retried *)
    let k := gen_get_s3_key pfx p in
    let '(r, b1, pl1) := retry_f budget (att_get gen_code_readtag_notfound k) b pl in
    let put (tag : option bytes) :=
      let '(r2, b2, pl2) :=
        request (fun b => match s3_put_if b k tag v with
                          | Some _ => inl tt
                          | None => inr (XExn (ClientError (lit "PreconditionFailed")))
                          end)
                (fun b => match s3_put_if b k tag v with Some b' => b' | None => b end) b1 pl1 in
      (b2, pl2, match r2 with
                | inl _ => inl OUnit
                | inr (XExn (ClientError c)) => if member c gen_cas_conflict_codes then inl (OErr Conflict) else inr (ClientError c)
                | inr x => inr (fx_exn x)
                end) in
    match r with
    | inl cur => put (Some cur)
    | inr XNotFound => put None
    | inr (XExn e) => (b1, pl1, inr e)
    end
  end.

(* a history, each operation under its own plan (missing plans = no faults) *)
Fixpoint run_f (budget page : nat) (pfx : str) (b : bucket) (ops : list (op str)) (plans : list fplan) : list fres * bucket :=
  match ops with
  | [] => ([], b)
  | o :: ops' =>
    let '(b', _, r) := s3_step_f budget page pfx b o (hd [] plans) in
    let '(rs, bf) := run_f budget page pfx b' ops' (tl plans) in
    (r :: rs, bf)
  end.

Definition run_s3_f (page : nat) (raw_prefix : str) (F : bucket) (ops : list (op key)) (plans : list fplan) : list fres :=
  fst (run_f gen_max_retries page (gen_init_prefix raw_prefix) F (map (map_op join) ops) plans).

(* ---------------------------------------------------------------- plans: counting, and the decidable forms of the
   theorems' hypotheses (used by the non-vacuity example and by the harness to tell which generated cases lie inside
   the theorem's domain) *)
Definition is_fault (x : option (fwhen * exn)) : bool := match x with Some _ => true | None => false end.
Definition nfaults_f (pl : fplan) : nat := List.length (filter is_fault pl).

(* the not-found codes the closures translate into FileNotFoundError / False: a "fault" carrying one of them is not a
   failure of the transport but a wrong answer of the store, which no client can mask *)
Definition nf_codes : list str :=
  [gen_code_read_notfound; gen_code_exists_notfound; gen_code_size_notfound; gen_code_mtime_notfound;
   gen_code_open_notfound; gen_code_readtag_notfound].

Definition fault_okb (e : exn) : bool :=
  match e with
  | ClientError c => negb (member c gen_permanent_codes) && negb (member c nf_codes)
  | BotoCoreErr | OSErr => true
  | OtherExn | BaseExn => false
  end.
Definition plan_transientb (pl : fplan) : bool :=
  forallb (fun x => match x with Some (_, e) => fault_okb e | None => true end) pl.
(* "transient errors within the retry budget", nothing else: the hypothesis of the property's sentence *)
Definition op_plan_budgetb (budget : nat) (pl : fplan) : bool := plan_transientb pl && (Nat.leb (nfaults_f pl) budget).
Fixpoint plans_budgetb (budget : nat) (plans : list fplan) : bool :=
  match plans with [] => true | pl :: plans' => op_plan_budgetb budget pl && plans_budgetb budget plans' end.
(* ... and, in addition, no fault on any request of a CAS write *)
Definition op_plan_withinb (budget : nat) (o : op key) (pl : fplan) : bool :=
  plan_transientb pl && (Nat.leb (nfaults_f pl) budget) && (match o with WriteCas _ _ => Nat.eqb (nfaults_f pl) 0 | _ => true end).
Definition op_plan_okb (budget : nat) (o : op key) (pl : fplan) : bool :=
  op_plan_withinb budget o pl && (match nth budget pl None with None => true | Some _ => false end).
Fixpoint plans_withinb (budget : nat) (ops : list (op key)) (plans : list fplan) : bool :=
  match ops with [] => true | o :: ops' => op_plan_withinb budget o (hd [] plans) && plans_withinb budget ops' (tl plans) end.
Fixpoint plans_okb (budget : nat) (ops : list (op key)) (plans : list fplan) : bool :=
  match ops with [] => true | o :: ops' => op_plan_okb budget o (hd [] plans) && plans_okb budget ops' (tl plans) end.
