(* Model/C20IO.v -- printing helpers for the C20 correspondence harness (harness/props/c20.py):
   observations rendered with Coq `string`s so that harness/lib/coqio.py can parse them.
   Definitions only; nothing here is used by a theorem. *)
From Coq Require Import List Bool Ascii String ZArith QArith.
Require Import DS.Model.Str DS.Gen.GenS3 DS.Model.Backend DS.Model.Range DS.Model.Retry.
Import ListNotations.

Definition sh (x : str) : string := string_of_list_ascii x.
Definition kk (x : string) : key := components (lit x).

Inductive prd := PPos (p : Z) | PData (d : list Z) | PDigest (len : Z) (first last : Z) | PRErr | PStr (s : string).
Definition pr_r (digest : bool) (o : @robs Z) : prd :=
  match o with
  | RPos p => PPos p
  | RErr => PRErr
  | RData d => if digest then PDigest (zlen d) (hd (-1)%Z d) (List.last d (-1)%Z) else PData d
  end.
Definition pr_rs (o : @robs ascii) : prd :=
  match o with RPos p => PPos p | RErr => PRErr | RData d => PStr (sh d) end.

Inductive pobs :=
| PUnit | PBytes (s : string) | PBool (b : bool) | PList (l : list string) | PSize (n : Z) | PErr (e : errk)
| POpened (os : list prd) (final : Z).

Definition pr (o : obs) : pobs :=
  match o with
  | OUnit => PUnit | OBytes v => PBytes (sh v) | OBool b => PBool b | OList l => PList (map sh l)
  | OSize n => PSize n | OErr e => PErr e
  | OOpened os final => POpened (map pr_rs os) final
  end.

(* one backend case: the three runs and whether the case lies inside the theorems' domain *)
Definition case3 (raw_prefix : string) (F : list (string * string)) (ops : list (op key)) :=
  let Fb := map (fun kv => (lit (fst kv), lit (snd kv))) F in
  ( map pr (run_spec ops), map pr (run_local ops), map pr (run_s3 (lit raw_prefix) Fb ops),
    forallb wf_opb ops, prefix_freeb (written_keys ops), foreign_okb (gen_init_prefix (lit raw_prefix)) Fb ).

(* string-level runs (any strings, also outside the canonical domain) *)
Definition run_s3_str (raw_prefix : string) (F : list (string * string)) (ops : list (op string)) :=
  let Fb := map (fun kv => (lit (fst kv), lit (snd kv))) F in
  map pr (snd (run (s3_step (gen_init_prefix (lit raw_prefix))) Fb (map (map_op lit) ops))).
Definition run_local_str (ops : list (op string)) :=
  map pr (snd (run local_step_str linit (map (map_op lit) ops))).

(* range reader *)
Definition range_case (digest : bool) (content : list Z) (prog : list rop) :=
  let '(obs, final, rs) := run_rf content 0 prog in
  let '(fobs, ffinal) := run_file content 0 prog in
  (map (pr_r digest) obs, final, rs, map (pr_r digest) fobs, ffinal).

(* content j = j mod 251, built without a unary size *)
Definition pattern_content (size : positive) : list Z :=
  rev' (fst (Pos.iter (fun st : list Z * Z => let (l, i) := st in (i :: l, if (i =? 250)%Z then 0%Z else (i + 1)%Z)) ([], 0%Z) size)).
Definition content_of_size (size : Z) : list Z :=
  match size with Zpos p => pattern_content p | _ => [] end.

(* retry *)
Inductive pexn := PClient (code : string) | PBoto | POS | POther | PBase.
Definition pr_exn (e : exn) : pexn :=
  match e with ClientError c => PClient (sh c) | BotoCoreErr => PBoto | OSErr => POS | OtherExn => POther | BaseExn => PBase end.
Definition mk_exn (e : pexn) : exn :=
  match e with PClient c => ClientError (lit c) | PBoto => BotoCoreErr | POS => OSErr | POther => OtherExn | PBase => BaseExn end.
Inductive pres := PReturned (v : Z) | PRaised (e : pexn) | PScriptEnded.
Definition retry_case (script : list (Z + pexn)) :=
  let sc := map (fun x => match x with inl v => inl v | inr e => inr (mk_exn e) end) script in
  let '(r, n) := with_s3_retry sc in
  (match r with Returned v => PReturned v | Raised e => PRaised (pr_exn e) | ScriptEnded => PScriptEnded end,
   Z.of_nat n, map (fun q => (Qnum q, Zpos (Qden q))) (with_s3_retry_sleeps n)).

(* request traces *)
Require Import DS.Model.BackendTrace.
Inductive preq := PReq (kind : string) (k : string) (maxkeys1 : bool) | PReqR (k : string) (first last : Z).
Definition pr_req (r : req) : preq :=
  match r with
  | RGet k => PReq "get_object" (sh k) false | RHead k => PReq "head_object" (sh k) false
  | RPut k => PReq "put_object" (sh k) false | RDelete k => PReq "delete_object" (sh k) false
  | RList p m => PReq "list_objects_v2" (sh p) m
  | RGetR k a b => PReqR (sh k) a b
  end.
Definition trace_case (page : nat) (raw_prefix : string) (F : list (string * string)) (ops : list (op key)) :=
  let Fb := map (fun kv => (lit (fst kv), lit (snd kv))) F in
  map (map pr_req) (run_trace page (gen_init_prefix (lit raw_prefix)) Fb (map (map_op join) ops)).

(* paginated listing under faults *)
Require Import DS.Model.Paged.
Inductive ppl := PLReturned (l : list string) | PLRaised (f : fault) | PLEnded.
Definition paged_case (pages : list (list string)) (pl : list (option fault)) :=
  let '(r, n) := paged_list gen_max_retries pages pl in
  (match r with Returned l => PLReturned l | Raised f => PLRaised f | ScriptEnded => PLEnded end, Z.of_nat n).

(* S3 backend over a failing store (Model/BackendFault.v): results, final bucket, and whether the plans lie inside the
   masking theorem's domain (with / without the proviso about the last attempt).  A plan entry is
   None | Some (after?, exception). *)
Require Import DS.Model.BackendFault.
Inductive pfres := PFObs (o : pobs) | PFExn (e : pexn).
Definition mk_plan (pl : list (option (bool * pexn))) : fplan :=
  map (fun x => match x with None => None | Some (a, e) => Some (if a : bool then FAfter else FBefore, mk_exn e) end) pl.
Definition fault_case (page : nat) (raw_prefix : string) (F : list (string * string)) (ops : list (op key))
                      (plans : list (list (option (bool * pexn)))) :=
  let Fb := map (fun kv => (lit (fst kv), lit (snd kv))) F in
  let pls := map mk_plan plans in
  let '(rs, bf) := run_f gen_max_retries page (gen_init_prefix (lit raw_prefix)) Fb (map (map_op join) ops) pls in
  (map (fun r => match r with inl o => PFObs (pr o) | inr e => PFExn (pr_exn e) end) rs,
   map (fun kv => (sh (fst kv), sh (snd kv))) bf,
   forallb wf_opb ops && foreign_okb (gen_init_prefix (lit raw_prefix)) Fb,
   plans_okb gen_max_retries ops pls, plans_withinb gen_max_retries ops pls,
   map pr (run_spec ops)).
