(* Model/CommitMeta.v -- what the abstract table content of Model/Commit.v MEANS (C01 composed with C15).

   Commit.v abstracts the content of a metadata version to the list of operation ids applied to the initial table
   (`m_ops`); a committer builds its new version from its BASE by appending its own operation
   (`new_meta`: m_ops base ++ [opid]) -- the protocol never looks inside the content, only at the OCC stamp.
   Model/Meta.v (C15) is the executable mirror of the mutators themselves: `Meta.step : state -> op -> state`
   (transactions with appends / file deletes / expiries, delete_snapshot, property changes), sequence numbers
   stamped `last_seq base + 1`, parents, snapshot log.

   The interpretation: every operation id a (= committer) stands for ONE Meta operation `op_of a` -- the mutator the
   committer's successful attempt applied, with the snapshot id, timestamps and metadata-file name that attempt
   drew (an attempt that lost a conflict is re-derived from the freshly read base: transaction.py's retry loop;
   only the attempt that flipped the pointer is in the table).  `op_of` is universally quantified in the theorems.
   A version's table is the initial table with the version's operations applied by Meta.step, one after another.
   What stays abstracted: that the bytes of the metadata file a committer writes ARE Meta.step of the bytes of its
   base (C15's correspondence and regenerated kernels: C15_step_regenerated), and the equality of the event's clock
   reading with the `tu` carried by `op_of a` (the stamp the PROTOCOL relies on is Commit.v's m_lu, proved strictly
   increasing along the version chain independently of the interpretation).

   Definitions only; proofs in Proofs/CommitMetaProofs.v. *)
From Coq Require Import ZArith List.
Require Import DS.Model.CommitBase DS.Gen.GenCommit DS.Model.Commit.
Require DS.Model.Meta.
Import ListNotations.

(* the table a metadata version holds, given the table T0 that the empty operation list stands for *)
Definition table_of (T0 : Meta.state) (op_of : aid -> Meta.op) (m : meta) : Meta.state :=
  Meta.run T0 (map op_of (m_ops m)).

(* the operations behind the pointer flips, in the order the pointer advanced *)
Definition flip_ops (op_of : aid -> Meta.op) (w : world) : list Meta.op := map op_of (map snd (w_hist w)).
