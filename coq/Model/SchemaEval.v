(* Model/SchemaEval.v -- evaluation helpers for the C11 correspondence harness (definitions only).

   The append machine takes pyarrow's conversion as a function parameter; to run it on a concrete
   history the harness supplies the conversions OBSERVED on real pyarrow as a finite table
   (conv_tab), and binary32 rounding as a finite table (rnd_tab).  Deep comparisons (rows, bound
   values) are done here with structural equality so that only small terms travel back. *)
From Coq Require Import ZArith QArith List Bool.
Require Import DS.Model.Value DS.Gen.GenPrune DS.Model.Prune DS.Gen.GenSchema DS.Model.Schema.
Import ListNotations.
Open Scope Z_scope.

Definition num_eqb (a b : num) : bool :=
  match a, b with
  | Fin x, Fin y => Qeq_bool x y
  | PInf, PInf | NInf, NInf | NaN, NaN => true
  | _, _ => false
  end.

Definition value_eqb (a b : value) : bool :=
  match a, b with
  | VNull, VNull => true
  | VBool x, VBool y => Bool.eqb x y
  | VInt x, VInt y => x =? y
  | VFlt x, VFlt y => num_eqb x y
  | VStr x, VStr y => list_eqb Z.eqb x y
  | VTs x, VTs y | VDate x, VDate y | VTime x, VTime y => x =? y
  | _, _ => false
  end.

Fixpoint pyval_eqb (a b : pyval) : bool :=
  match a, b with
  | PV x, PV y => value_eqb x y
  | PBytes x, PBytes y => list_eqb Z.eqb x y
  | POther, POther => true
  | PList x, PList y =>
    (fix go (x y : list pyval) : bool :=
       match x, y with
       | [], [] => true
       | a' :: x', b' :: y' => pyval_eqb a' b' && go x' y'
       | _, _ => false
       end) x y
  | _, _ => false
  end.

(* observed conversions: (arrow type, input) -> result (None = pyarrow raised); unknown pairs raise *)
Definition conv_tab (tab : list (catype * pyval * option pyval)) (a : catype) (v : pyval) : option pyval :=
  match find (fun e => catype_eqb (fst (fst e)) a && pyval_eqb (snd (fst e)) v) tab with
  | Some e => snd e
  | None => None
  end.

Definition rnd_tab (tab : list (Q * num)) (q : Q) : num :=
  match find (fun e => Qeq_bool (fst e) q) tab with
  | Some e => snd e
  | None => Fin q
  end.

Definition outcome_tag (o : outcome) : Z :=
  match o with Accepted => 0 | RejNoSchema => 1 | RejSchema => 2 | RejRecords => 3 | RejConvert => 4 | RejCommit => 5 | RejFile => 6 end.

(* a number for an Arrow type: the regenerated tag of a primitive type (< 16); 16 * (1 + tag of the element type)
   for a list *)
Fixpoint catype_tag (a : catype) : Z :=
  match a with APrim p => atype_tag p | AList e => 16 * (1 + catype_tag e) end.

Definition aschema_tags (a : aschema) : list (Z * Z * bool) :=
  map (fun x => (fst (fst x), catype_tag (snd (fst x)), snd x)) a.

Definition srow_eqb (x y : srow) : bool :=
  list_eqb (fun a b => (fst a =? fst b) && pyval_eqb (snd a) (snd b)) x y.
Definition bounds_eqb (x y : list (Z * value)) : bool :=
  list_eqb (fun a b => (fst a =? fst b) && value_eqb (snd a) (snd b)) x y.

(* bounds are dictionaries: compare them sorted by field id *)
Fixpoint insert_b (e : Z * value) (l : list (Z * value)) : list (Z * value) :=
  match l with
  | [] => [e]
  | x :: l' => if fst e <=? fst x then e :: l else x :: insert_b e l'
  end.
Definition sort_b (l : list (Z * value)) : list (Z * value) := fold_right insert_b [] l.

(* what the harness observed for one data file: footer, rows, lower / upper bounds *)
Definition real_file := (list (Z * Z * bool) * list srow * list (Z * value) * list (Z * value))%type.

Definition file_matches (f : dfile) (r : real_file) : bool :=
  match r with
  | (footer, rows, lo, hi) =>
    list_eqb (fun a b => match a, b with (n1, t1, b1), (n2, t2, b2) => (n1 =? n2) && (t1 =? t2) && Bool.eqb b1 b2 end)
             (aschema_tags (df_arrow f)) footer
    && list_eqb srow_eqb (df_rows f) rows
    && bounds_eqb (sort_b (df_lo f)) (sort_b lo)
    && bounds_eqb (sort_b (df_hi f)) (sort_b hi)
  end.

Fixpoint all2 {A B} (m : A -> B -> bool) (x : list A) (y : list B) : bool :=
  match x, y with
  | [], [] => true
  | a :: x', b :: y' => m a b && all2 m x' y'
  | _, _ => false
  end.

(* per step: (outcome, #snapshots, #data files on storage, #files in the current snapshot,
              every current file matches the observed one, scan_ok) *)
Definition step_obs := (Z * Z * Z * Z * bool * bool)%type.

Fixpoint trace (conv : catype -> pyval -> option pyval) (w : world) (es : list (event * list real_file)) : list step_obs :=
  match es with
  | [] => []
  | (e, real) :: es' =>
    let (w', o) := step conv w e in
    (outcome_tag o, Z.of_nat (length (w_snaps w')), Z.of_nat (length (w_store w')), Z.of_nat (length (current w')),
     all2 file_matches (current w') real, scan_ok (current w')) :: trace conv w' es'
  end.

(* ---- explicit transactions (Model/SchemaTx.v) ---- *)
Require Import DS.Model.SchemaTx.

(* per transaction: (tags of its calls, #snapshots, #data files written by the library still on storage,
                     #files in the current snapshot, every current file matches the observed one, scan_ok) *)
Definition tx_obs := (list Z * Z * Z * Z * bool * bool)%type.

Fixpoint tx_trace (conv : catype -> pyval -> option pyval) (w : world) (ts : list (txn * list real_file)) : list tx_obs :=
  match ts with
  | [] => []
  | (t, real) :: ts' =>
    match run_calls conv w tx_empty (t_handle t) (t_calls t) with
    | (w1, q, tr) =>
      let w' := end_tx w1 q (t_end t) in
      (map fst tr, Z.of_nat (length (w_snaps w')), Z.of_nat (length (w_store w')), Z.of_nat (length (current w')),
       all2 file_matches (current w') real, scan_ok (current w')) :: tx_trace conv w' ts'
    end
  end.

(* ---- handle provenance (Model/SchemaOpen.v) ---- *)
Require Import DS.Model.OpenBase DS.Gen.GenOpen DS.Model.SchemaOpen.

(* what the harness read off a real handle: DataFileManager._arrow_schema_cache as [(schema_id, footer tags)] *)
Definition real_cache := list (Z * list (Z * Z * bool)).

Definition tags_eqb (x y : list (Z * Z * bool)) : bool :=
  list_eqb (fun a b => match a, b with (n1, t1, b1), (n2, t2, b2) => (n1 =? n2) && (t1 =? t2) && Bool.eqb b1 b2 end) x y.

(* the model's cache and the real dictionary hold the same entries (keys are unique on both sides) *)
Definition cache_matches (c : cache) (r : real_cache) : bool :=
  Nat.eqb (length c) (length r)
  && forallb (fun kr => match lookup (fst kr) c with Some a => tags_eqb (aschema_tags a) (snd kr) | None => false end) r.

Definition apply_opens (w : world) (os : list (Z * opener)) : world :=
  fold_left (fun w ho => open_handle w (fst ho) (snd ho)) os w.

Definition caches_match (w : world) (rcs : list (Z * real_cache)) : bool :=
  forallb (fun hr => cache_matches (cache_of w (fst hr)) (snd hr)) rcs.

(* per step: the openings performed right before it, the append, the observed files and the observed caches
   of the handles involved; step_obs + "every observed cache equals the model's" *)
Definition hstep_obs := (Z * Z * Z * Z * bool * bool * bool)%type.

Fixpoint htrace (conv : catype -> pyval -> option pyval) (w : world)
    (es : list (list (Z * opener) * event * list real_file * list (Z * real_cache))) : list hstep_obs :=
  match es with
  | [] => []
  | (os, e, real, rcs) :: es' =>
    let (w', o) := step conv (apply_opens w os) e in
    (outcome_tag o, Z.of_nat (length (w_snaps w')), Z.of_nat (length (w_store w')), Z.of_nat (length (current w')),
     all2 file_matches (current w') real, scan_ok (current w'), caches_match w' rcs) :: htrace conv w' es'
  end.

(* per call of a transaction: how many in-flight markers of pre-built files it leaves behind (Model/SchemaTx.v call_marks) *)
Fixpoint calls_marks (conv : catype -> pyval -> option pyval) (w : world) (q : txstate) (h : Z) (cs : list call) : list Z :=
  match cs with
  | [] => []
  | c :: cs' =>
    match call_step conv w (marked q) h c with
    | (w', wr, _, added) => Z.of_nat (length (call_marks w (marked q) h c)) :: calls_marks conv w' (enqueue q wr added) h cs'
    end
  end.

Definition htx_obs := (list Z * Z * Z * Z * bool * bool * bool * list Z)%type.

Fixpoint thtrace (conv : catype -> pyval -> option pyval) (w : world)
    (ts : list (list (Z * opener) * txn * list real_file * list (Z * real_cache))) : list htx_obs :=
  match ts with
  | [] => []
  | (os, t, real, rcs) :: ts' =>
    match run_calls conv (apply_opens w os) tx_empty (t_handle t) (t_calls t) with
    | (w1, q, tr) =>
      let w' := end_tx w1 q (t_end t) in
      (map fst tr, Z.of_nat (length (w_snaps w')), Z.of_nat (length (w_store w')), Z.of_nat (length (current w')),
       all2 file_matches (current w') real, scan_ok (current w'), caches_match w' rcs,
       calls_marks conv (apply_opens w os) tx_empty (t_handle t) (t_calls t)) :: thtrace conv w' ts'
    end
  end.
