(* Model/GCRace.v -- one garbage collector interleaved with committing transactions (C06).
   (garbage_collector.py collect / _load_inflight_protection / _gc_prefix; transaction.py
    _register_inflight, append_data, _commit_file_ops, _finish_committed, _rollback.)

   The unit is a FILE f a transaction writes under the marker-before-write discipline -- its data file,
   and equally each manifest and manifest list of a commit attempt: MarkW (in-flight marker, mtime = now) ;
   DataW (file in place, mtime = now -- any amount of time after the marker: a slow write) ; Flip (the
   commit makes the file referenced) ; MarkD (marker removed after the commit) -- or Rollback (file and
   marker removed by the transaction itself) -- or Abandon (the transaction drops the marker of a file it
   wrote and will never publish: the manifests of a commit attempt that lost the race; the file is an
   ordinary orphan from then on).  Time is carried by Tick events and never decreases; a file written long
   ago and committed only now is simply a long gap between DataW and Flip.

   A PRE-BUILT file (Transaction.append_files) exists before its transaction and may be arbitrarily old:
   Stage mt (the file appears under data/ with any modification time up to now; unreferenced and unmarked, it
   is an orphan to the collector) ; AdoptMark (append_files registers its marker) ; Adopt (append_files finds
   no announced collection run and the file still in place: from here on it is a written, marked file like
   any other) -- or Abandon (the adoption is refused / given up: marker removed, the file is an orphan
   again).  `TAdoptBare` is adoption as the code did it before the repair (no marker, no look at running
   collections): `gstep` has no such step; `gstep_unrepaired` has, and C06 fails for it (Props/C06.v).

   The collector (repaired order): GAnnounce (Table.garbage_collect announces the run under
   metadata/collecting/ BEFORE anything else; withdrawn at GEnd) ; GMarks timeout (protection := targets of
   the markers present now, the abandonment cutoff is fixed) ; GSweep f for listed markers the REGENERATED kernel classifies as
   abandoned (the marker is deleted and protects nothing -- Gen/GenGCRace.v gen_marker_age_ok /
   gen_marker_action: older than the abandonment timeout, whatever else is true of the marker or its file) ;
   GMeta (reach := files referenced now) ; then one or more rounds of GList grace (listing := files present
   now, cutoff := gen_sweep_cutoff now grace) and GDel f for listed f passing the regenerated deletion
   guard (gen_delete_guard: not reachable, not protected, older than the cutoff).  `GList` is enabled only
   while the run has lasted less than the grace period -- the property's proviso.  Orphans (files no live
   transaction owns) are ordinary deletion candidates.  `g_swept f` is a ghost: some run treated f's
   marker as abandoned (its transaction outlived the abandonment timeout).
   Definitions only; proofs in Proofs/GCRaceProofs.v. *)
From Coq Require Import ZArith List Bool Arith.
Require Import DS.Model.GCRaceBase DS.Gen.GenGCRace.
Import ListNotations.
Open Scope Z_scope.

Definition tid := nat.

Inductive tpc := TNew | TMarked | TWritten | TFlipped | TDone | TRolled | TOrphaned | TPre | TAdoptM.
Inductive gpc := GIdle | GAnnounced | GGotMarks | GGotReach | GListed.

Record gworld := {
  g_now : Z;
  g_tpc : tid -> tpc;
  g_mtime : tid -> Z;               (* mtime of file f (meaningful once written) *)
  g_present : tid -> bool;          (* does file f exist *)
  g_marker : tid -> bool;           (* does f's in-flight marker exist *)
  g_ref : tid -> bool;              (* is f referenced by the committed table *)
  g_orphans : list (nat * Z);       (* unowned, unreferenced files: (name, mtime) *)
  g_gpc : gpc;
  g_prot : tid -> bool;             (* collector's protection snapshot *)
  g_reach : tid -> bool;            (* collector's reachability snapshot *)
  g_start : Z;                      (* when the run started *)
  g_cutoff : Z;
  g_listing : tid -> bool;          (* collector's listing snapshot (transaction files) *)
  g_deleted : list tid;             (* ghost: transaction files the collector deleted *)
  g_mkmtime : tid -> Z;             (* mtime of f's marker (meaningful once written) *)
  g_mcut : Z;                       (* the run's abandonment cutoff for markers *)
  g_swept : tid -> bool }.          (* ghost: a run deleted f's marker as abandoned *)

Inductive gevent :=
| Tick (dt : Z)
| TMarkW (t : tid) | TDataW (t : tid) | TFlip (t : tid) | TMarkD (t : tid) | TRollback (t : tid) | TAbandon (t : tid)
| TStage (t : tid) (mt : Z) | TAdoptMark (t : tid) | TAdopt (t : tid) | TAdoptBare (t : tid)
| GAnnounce | GMarks (timeout : Z) | GSweep (t : tid) | GMeta | GList (grace : Z) | GDel (t : tid) | GDelOrphan (n : nat) | GEnd.

Definition updf {A} (t : tid) (v : A) (f : tid -> A) : tid -> A := fun u => if Nat.eqb u t then v else f u.

(* a transaction's step on its file t *)
Definition with_tx (w : gworld) (t : tid) (p : tpc) (mt : Z) (pres mk rf : bool) (mkmt : Z) : gworld :=
  {| g_now := g_now w; g_tpc := updf t p (g_tpc w); g_mtime := updf t mt (g_mtime w);
     g_present := updf t pres (g_present w); g_marker := updf t mk (g_marker w); g_ref := updf t rf (g_ref w);
     g_orphans := g_orphans w; g_gpc := g_gpc w; g_prot := g_prot w; g_reach := g_reach w; g_start := g_start w;
     g_cutoff := g_cutoff w; g_listing := g_listing w; g_deleted := g_deleted w;
     g_mkmtime := updf t mkmt (g_mkmtime w); g_mcut := g_mcut w; g_swept := g_swept w |}.

(* a collector step that only changes the collector's own snapshots *)
Definition with_gc (w : gworld) (pc : gpc) (prot reach : tid -> bool) (start cutoff : Z) (listing : tid -> bool) (mcut : Z)
                   (orph : list (nat * Z)) : gworld :=
  {| g_now := g_now w; g_tpc := g_tpc w; g_mtime := g_mtime w; g_present := g_present w; g_marker := g_marker w;
     g_ref := g_ref w; g_orphans := orph; g_gpc := pc; g_prot := prot; g_reach := reach; g_start := start;
     g_cutoff := cutoff; g_listing := listing; g_deleted := g_deleted w;
     g_mkmtime := g_mkmtime w; g_mcut := mcut; g_swept := g_swept w |}.

Definition gstep (w : gworld) (e : gevent) : option gworld :=
  match e with
  | Tick dt =>
    if 0 <=? dt then
      Some {| g_now := g_now w + dt; g_tpc := g_tpc w; g_mtime := g_mtime w; g_present := g_present w; g_marker := g_marker w;
              g_ref := g_ref w; g_orphans := g_orphans w; g_gpc := g_gpc w; g_prot := g_prot w; g_reach := g_reach w;
              g_start := g_start w; g_cutoff := g_cutoff w; g_listing := g_listing w; g_deleted := g_deleted w;
              g_mkmtime := g_mkmtime w; g_mcut := g_mcut w; g_swept := g_swept w |}
    else None
  | TMarkW t => match g_tpc w t with TNew => Some (with_tx w t TMarked (g_mtime w t) false true false (g_now w)) | _ => None end
  | TDataW t => match g_tpc w t with TMarked => Some (with_tx w t TWritten (g_now w) true (g_marker w t) false (g_mkmtime w t)) | _ => None end
  | TFlip t =>
    match g_tpc w t with
    | TWritten => Some (with_tx w t TFlipped (g_mtime w t) (g_present w t) (g_marker w t) true (g_mkmtime w t))
    | _ => None
    end
  | TMarkD t => match g_tpc w t with TFlipped => Some (with_tx w t TDone (g_mtime w t) (g_present w t) false true (g_mkmtime w t)) | _ => None end
  | TRollback t =>
    match g_tpc w t with
    | TMarked | TWritten => Some (with_tx w t TRolled (g_mtime w t) false false false (g_mkmtime w t))
    | _ => None
    end
  | TAbandon t =>
    match g_tpc w t with
    | TWritten | TAdoptM => Some (with_tx w t TOrphaned (g_mtime w t) (g_present w t) false false (g_mkmtime w t))
    | _ => None
    end
  | TStage t mt =>
    match g_tpc w t with
    | TNew => if mt <=? g_now w then Some (with_tx w t TPre mt true false false (g_mkmtime w t)) else None
    | _ => None
    end
  | TAdoptMark t =>
    match g_tpc w t with
    | TPre => Some (with_tx w t TAdoptM (g_mtime w t) (g_present w t) true false (g_now w))
    | _ => None
    end
  | TAdopt t =>
    match g_tpc w t, g_gpc w with
    | TAdoptM, GIdle =>             (* no collection run is announced ... *)
      if g_present w t              (* ... and the file is still in place *)
      then Some (with_tx w t TWritten (g_mtime w t) (g_present w t) (g_marker w t) false (g_mkmtime w t)) else None
    | _, _ => None
    end
  | TAdoptBare t => None            (* the repaired code has no such step (see gstep_unrepaired) *)
  | GAnnounce =>
    match g_gpc w with
    | GIdle => Some (with_gc w GAnnounced (g_prot w) (g_reach w) (g_now w) (g_cutoff w) (g_listing w) (g_mcut w) (g_orphans w))
    | _ => None
    end
  | GMarks timeout =>
    match g_gpc w with
    | GAnnounced => Some (with_gc w GGotMarks (g_marker w) (g_reach w) (g_start w) (g_cutoff w) (g_listing w)
                                  (gen_marker_cutoff (g_now w) timeout) (g_orphans w))
    | _ => None
    end
  | GSweep t =>
    match g_gpc w with
    | GGotMarks =>
      if g_prot w t then
        match gen_marker_action (gen_marker_age_ok (g_mcut w) (Some (g_mkmtime w t))) with
        | MSweep =>
          Some {| g_now := g_now w; g_tpc := g_tpc w; g_mtime := g_mtime w; g_present := g_present w;
                  g_marker := updf t false (g_marker w); g_ref := g_ref w; g_orphans := g_orphans w; g_gpc := g_gpc w;
                  g_prot := updf t false (g_prot w); g_reach := g_reach w; g_start := g_start w; g_cutoff := g_cutoff w;
                  g_listing := g_listing w; g_deleted := g_deleted w;
                  g_mkmtime := g_mkmtime w; g_mcut := g_mcut w; g_swept := updf t true (g_swept w) |}
        | MProtect => None
        end
      else None
    | _ => None
    end
  | GMeta =>
    match g_gpc w with
    | GGotMarks => Some (with_gc w GGotReach (g_prot w) (g_ref w) (g_start w) (g_cutoff w) (g_listing w) (g_mcut w) (g_orphans w))
    | _ => None
    end
  | GList grace =>
    match g_gpc w with
    | GGotReach | GListed =>
      if g_now w - g_start w <? grace then      (* the run has lasted less than the grace period *)
        Some (with_gc w GListed (g_prot w) (g_reach w) (g_start w) (gen_sweep_cutoff (g_now w) grace) (g_present w) (g_mcut w) (g_orphans w))
      else None
    | _ => None
    end
  | GDel t =>
    match g_gpc w with
    | GListed =>
      if g_listing w t && gen_delete_guard (g_reach w t || g_prot w t) (g_mtime w t) (g_cutoff w) && g_present w t then
        Some {| g_now := g_now w; g_tpc := g_tpc w; g_mtime := g_mtime w; g_present := updf t false (g_present w); g_marker := g_marker w;
                g_ref := g_ref w; g_orphans := g_orphans w; g_gpc := g_gpc w; g_prot := g_prot w; g_reach := g_reach w;
                g_start := g_start w; g_cutoff := g_cutoff w; g_listing := g_listing w; g_deleted := t :: g_deleted w;
                g_mkmtime := g_mkmtime w; g_mcut := g_mcut w; g_swept := g_swept w |}
      else None
    | _ => None
    end
  | GDelOrphan n =>
    match g_gpc w with
    | GListed =>
      if existsb (fun o => Nat.eqb (fst o) n && gen_delete_guard false (snd o) (g_cutoff w)) (g_orphans w) then
        Some (with_gc w GListed (g_prot w) (g_reach w) (g_start w) (g_cutoff w) (g_listing w) (g_mcut w)
                      (filter (fun o => negb (Nat.eqb (fst o) n)) (g_orphans w)))
      else None
    | _ => None
    end
  | GEnd =>
    match g_gpc w with
    | GIdle => None
    | _ => Some (with_gc w GIdle (g_prot w) (g_reach w) (g_start w) (g_cutoff w) (g_listing w) (g_mcut w) (g_orphans w))
    end
  end.

(* Adoption of a pre-built file as the code did it BEFORE the repair: no marker, no look at running
   collections -- the staged file simply becomes a file of the transaction. *)
Definition gstep_unrepaired (w : gworld) (e : gevent) : option gworld :=
  match e with
  | TAdoptBare t =>
    match g_tpc w t with
    | TPre => if g_present w t then Some (with_tx w t TWritten (g_mtime w t) true false false (g_mkmtime w t)) else None
    | _ => None
    end
  | _ => gstep w e
  end.
Fixpoint grun_strict_unrepaired (w : gworld) (evs : list gevent) : option gworld :=
  match evs with
  | [] => Some w
  | e :: evs' => match gstep_unrepaired w e with Some w' => grun_strict_unrepaired w' evs' | None => None end
  end.

Definition gstep_skip w e := match gstep w e with Some w' => w' | None => w end.
Definition grun (w : gworld) (evs : list gevent) : gworld := fold_left gstep_skip evs w.
Fixpoint grun_strict (w : gworld) (evs : list gevent) (i : nat) : gworld + nat :=
  match evs with
  | [] => inl w
  | e :: evs' => match gstep w e with Some w' => grun_strict w' evs' (S i) | None => inr i end
  end.

Definition ginit (orph : list (nat * Z)) : gworld :=
  {| g_now := 0; g_tpc := fun _ => TNew; g_mtime := fun _ => 0; g_present := fun _ => false; g_marker := fun _ => false;
     g_ref := fun _ => false; g_orphans := orph; g_gpc := GIdle; g_prot := fun _ => false; g_reach := fun _ => false;
     g_start := 0; g_cutoff := 0; g_listing := fun _ => false; g_deleted := [];
     g_mkmtime := fun _ => 0; g_mcut := 0; g_swept := fun _ => false |}.

(* the abandonment timeouts of the collection runs of an event list *)
Fixpoint timeouts (evs : list gevent) : list Z :=
  match evs with
  | [] => []
  | GMarks timeout :: r => timeout :: timeouts r
  | _ :: r => timeouts r
  end.
