(* Model/GCRace.v -- one garbage collector interleaved with committing transactions (C06).
   (garbage_collector.py collect / _load_inflight_protection / _gc_prefix; transaction.py
    _register_inflight, append_data, _commit_file_ops, _finish_committed, _rollback.)

   Each transaction t owns one file (its data file; manifests and manifest lists follow the same
   marker-before-write discipline): MarkW (in-flight marker) ; DataW (file written, mtime = now) ;
   Flip (the commit makes the file referenced) ; MarkD (marker removed after the commit) -- or Rollback
   (file and marker removed by the transaction itself).  Time is carried by Tick events and never
   decreases; a file written long ago and committed only now is simply a long gap between DataW and
   Flip.  The collector (repaired order): GMarks (protection := targets of the markers present now)
   ; GMeta (reach := files referenced now) ; then one or more rounds of GList (listing := files present
   now, cutoff := now - grace) and GDel f for listed f not in reach / protection and older than the
   cutoff.  `GList` is enabled only while the run has lasted less than the grace period -- the
   property's proviso.  Orphans (files no live transaction owns) are ordinary deletion candidates.
   Definitions only; proofs in Proofs/GCRaceProofs.v. *)
From Coq Require Import ZArith List Bool Arith.
Import ListNotations.
Open Scope Z_scope.

Definition tid := nat.

Inductive tpc := TNew | TMarked | TWritten | TFlipped | TDone | TRolled.
Inductive gpc := GIdle | GGotMarks | GGotReach | GListed.

Record gworld := {
  g_now : Z;
  g_tpc : tid -> tpc;
  g_mtime : tid -> Z;               (* mtime of transaction t's file (meaningful once written) *)
  g_present : tid -> bool;          (* does t's file exist *)
  g_marker : tid -> bool;           (* does t's in-flight marker exist *)
  g_ref : tid -> bool;              (* is t's file referenced by the committed table *)
  g_orphans : list (nat * Z);       (* unowned, unreferenced files: (name, mtime) *)
  g_gpc : gpc;
  g_prot : tid -> bool;             (* collector's protection snapshot *)
  g_reach : tid -> bool;            (* collector's reachability snapshot *)
  g_start : Z;                      (* when the run started *)
  g_cutoff : Z;
  g_listing : tid -> bool;          (* collector's listing snapshot (transaction files) *)
  g_deleted : list tid }.           (* ghost: transaction files the collector deleted *)

Inductive gevent :=
| Tick (dt : Z)
| TMarkW (t : tid) | TDataW (t : tid) | TFlip (t : tid) | TMarkD (t : tid) | TRollback (t : tid)
| GMarks | GMeta | GList (grace : Z) | GDel (t : tid) | GDelOrphan (n : nat) | GEnd.

Definition updf {A} (t : tid) (v : A) (f : tid -> A) : tid -> A := fun u => if Nat.eqb u t then v else f u.

Definition with_tx (w : gworld) (t : tid) (p : tpc) (mt : Z) (pres mk rf : bool) : gworld :=
  {| g_now := g_now w; g_tpc := updf t p (g_tpc w); g_mtime := updf t mt (g_mtime w);
     g_present := updf t pres (g_present w); g_marker := updf t mk (g_marker w); g_ref := updf t rf (g_ref w);
     g_orphans := g_orphans w; g_gpc := g_gpc w; g_prot := g_prot w; g_reach := g_reach w; g_start := g_start w;
     g_cutoff := g_cutoff w; g_listing := g_listing w; g_deleted := g_deleted w |}.

Definition gstep (w : gworld) (e : gevent) : option gworld :=
  match e with
  | Tick dt =>
    if 0 <=? dt then
      Some {| g_now := g_now w + dt; g_tpc := g_tpc w; g_mtime := g_mtime w; g_present := g_present w; g_marker := g_marker w;
              g_ref := g_ref w; g_orphans := g_orphans w; g_gpc := g_gpc w; g_prot := g_prot w; g_reach := g_reach w;
              g_start := g_start w; g_cutoff := g_cutoff w; g_listing := g_listing w; g_deleted := g_deleted w |}
    else None
  | TMarkW t => match g_tpc w t with TNew => Some (with_tx w t TMarked (g_mtime w t) false true false) | _ => None end
  | TDataW t => match g_tpc w t with TMarked => Some (with_tx w t TWritten (g_now w) true true false) | _ => None end
  | TFlip t =>
    match g_tpc w t with
    | TWritten => Some (with_tx w t TFlipped (g_mtime w t) (g_present w t) true true)
    | _ => None
    end
  | TMarkD t => match g_tpc w t with TFlipped => Some (with_tx w t TDone (g_mtime w t) (g_present w t) false true) | _ => None end
  | TRollback t =>
    match g_tpc w t with
    | TMarked | TWritten => Some (with_tx w t TRolled (g_mtime w t) false false false)
    | _ => None
    end
  | GMarks =>
    match g_gpc w with
    | GIdle => Some {| g_now := g_now w; g_tpc := g_tpc w; g_mtime := g_mtime w; g_present := g_present w; g_marker := g_marker w;
                       g_ref := g_ref w; g_orphans := g_orphans w; g_gpc := GGotMarks; g_prot := g_marker w; g_reach := g_reach w;
                       g_start := g_now w; g_cutoff := g_cutoff w; g_listing := g_listing w; g_deleted := g_deleted w |}
    | _ => None
    end
  | GMeta =>
    match g_gpc w with
    | GGotMarks => Some {| g_now := g_now w; g_tpc := g_tpc w; g_mtime := g_mtime w; g_present := g_present w; g_marker := g_marker w;
                           g_ref := g_ref w; g_orphans := g_orphans w; g_gpc := GGotReach; g_prot := g_prot w; g_reach := g_ref w;
                           g_start := g_start w; g_cutoff := g_cutoff w; g_listing := g_listing w; g_deleted := g_deleted w |}
    | _ => None
    end
  | GList grace =>
    match g_gpc w with
    | GGotReach | GListed =>
      if g_now w - g_start w <? grace then      (* the run has lasted less than the grace period *)
        Some {| g_now := g_now w; g_tpc := g_tpc w; g_mtime := g_mtime w; g_present := g_present w; g_marker := g_marker w;
                g_ref := g_ref w; g_orphans := g_orphans w; g_gpc := GListed; g_prot := g_prot w; g_reach := g_reach w;
                g_start := g_start w; g_cutoff := g_now w - grace; g_listing := g_present w; g_deleted := g_deleted w |}
      else None
    | _ => None
    end
  | GDel t =>
    match g_gpc w with
    | GListed =>
      if g_listing w t && negb (g_reach w t) && negb (g_prot w t) && (g_mtime w t <? g_cutoff w) && g_present w t then
        Some {| g_now := g_now w; g_tpc := g_tpc w; g_mtime := g_mtime w; g_present := updf t false (g_present w); g_marker := g_marker w;
                g_ref := g_ref w; g_orphans := g_orphans w; g_gpc := g_gpc w; g_prot := g_prot w; g_reach := g_reach w;
                g_start := g_start w; g_cutoff := g_cutoff w; g_listing := g_listing w; g_deleted := t :: g_deleted w |}
      else None
    | _ => None
    end
  | GDelOrphan n =>
    match g_gpc w with
    | GListed =>
      if existsb (fun o => Nat.eqb (fst o) n && (snd o <? g_cutoff w)) (g_orphans w) then
        Some {| g_now := g_now w; g_tpc := g_tpc w; g_mtime := g_mtime w; g_present := g_present w; g_marker := g_marker w;
                g_ref := g_ref w; g_orphans := filter (fun o => negb (Nat.eqb (fst o) n)) (g_orphans w); g_gpc := g_gpc w;
                g_prot := g_prot w; g_reach := g_reach w; g_start := g_start w; g_cutoff := g_cutoff w; g_listing := g_listing w;
                g_deleted := g_deleted w |}
      else None
    | _ => None
    end
  | GEnd =>
    match g_gpc w with
    | GIdle => None
    | _ => Some {| g_now := g_now w; g_tpc := g_tpc w; g_mtime := g_mtime w; g_present := g_present w; g_marker := g_marker w;
                   g_ref := g_ref w; g_orphans := g_orphans w; g_gpc := GIdle; g_prot := g_prot w; g_reach := g_reach w;
                   g_start := g_start w; g_cutoff := g_cutoff w; g_listing := g_listing w; g_deleted := g_deleted w |}
    end
  end.

Definition gstep_skip w e := match gstep w e with Some w' => w' | None => w end.
Definition grun (w : gworld) (evs : list gevent) : gworld := fold_left gstep_skip evs w.
Fixpoint grun_strict (w : gworld) (evs : list gevent) (i : nat) : gworld + nat :=
  match evs with
  | [] => inl w
  | e :: evs' => match gstep w e with Some w' => grun_strict w' evs' (S i) | None => inr i end
  end.

Definition ginit (orph : list (nat * Z)) : gworld :=
  {| g_now := 0; g_tpc := fun _ => TNew; g_mtime := fun _ => 0; g_present := fun _ => false; g_marker := fun _ => false;
     g_ref := fun _ => false; g_orphans := orph; g_gpc := GIdle; g_prot := fun _ => false; g_reach := fun _ => false;
     g_start := 0; g_cutoff := 0; g_listing := fun _ => false; g_deleted := [] |}.
