(* Model/Paged.v -- a paginated listing under with_s3_retry (S3StorageBackend.list_files: the whole
   `list_op` closure -- result list, paginator, every page request -- is what with_s3_retry re-invokes).

   pages : the pages a fault-free listing returns, in order (at least one request is made even when the
           listing is empty: pages = [[]]).
   plan  : one entry per S3 request the operation issues, in order, retried requests included:
           None = answered, Some f = that request fails with fault f.  Entries beyond the plan = None.
   An attempt walks the pages from the first one, with a FRESH accumulator; a fault ends the attempt.
   The operation is Model/Retry.v's `retry` over the script of its successive attempts: the result is
   the last attempt's only.  Tied to the code by the `paged-listing` correspondence.  Definitions only. *)
From Coq Require Import List Bool Arith.
Require Import DS.Model.Retry.
Import ListNotations.

Inductive fault := FTransient | FPermanent.

Section Paged.
  Context {A : Type}.
  Definition plan := list (option fault).

  (* one attempt: outcome, the plan left for later attempts, requests issued *)
  Fixpoint attempt (pages : list (list A)) (pl : plan) (acc : list A) : (list A + fault) * plan * nat :=
    match pages with
    | [] => (inl acc, pl, 0)
    | p :: ps =>
      match pl with
      | Some f :: pl' => (inr f, pl', 1)
      | None :: pl' => let '(r, rest, n) := attempt ps pl' (acc ++ p) in (r, rest, S n)
      | [] => let '(r, rest, n) := attempt ps [] (acc ++ p) in (r, rest, S n)
      end
    end.

  Definition outcome_of (r : list A + fault) : outcome (list A) fault :=
    match r with inl l => Good l | inr FTransient => Transient FTransient | inr FPermanent => Permanent FPermanent end.

  (* the outcomes and request counts of the first `fuel` attempts *)
  Fixpoint script (fuel : nat) (pages : list (list A)) (pl : plan) : list (outcome (list A) fault * nat) :=
    match fuel with
    | O => []
    | S fuel' => let '(r, rest, n) := attempt pages pl [] in (outcome_of r, n) :: script fuel' pages rest
    end.

  (* list_files under with_s3_retry with `budget` retries: result and total number of requests *)
  Definition paged_list (budget : nat) (pages : list (list A)) (pl : plan) : rres (list A) fault * nat :=
    let sc := script (S budget) pages pl in
    let '(r, attempts) := retry budget (map fst sc) in
    (r, fold_right Nat.add 0 (map snd (firstn attempts sc))).

  Definition nfaults (pl : plan) : nat := length (filter (fun x => match x with Some _ => true | None => false end) pl).
  Definition all_transient (pl : plan) : Prop := forall f, In (Some f) pl -> f = FTransient.
End Paged.
