(* Model/ProcFork.v -- fork(2) as the kernel performs it: the WHOLE descriptor table of the forking process.

   Model/ProcLock.v's `LFork h h'` copies ONE handle object and the descriptors of that one handle.  A real fork()
   copies the memory of the process -- every handle object -- and every open descriptor of the process, each inherited
   descriptor referring to the SAME open file description as the parent's.  A process with two handles, one idle and
   one holding, cannot fork "just the idle one": the child gets a descriptor of the owning description too, the lock
   then survives the parent's death (flock: the lock goes away with the LAST descriptor of the description) and an
   outsider stays refused until the child exits.  This file puts the process-level event on top of ProcLock.lstep
   (same state, same kernel, same handle program):

       PEv e                a non-fork event of ProcLock.v (handle primitive, process death); `PEv (LFork _ _)` is NOT
                            an event of this machine (never enabled): there is no single-handle fork
       PFork p p' tw        process p forks process p'.  `tw` names the copies: (k, k') = handle k' of p' is the copy
                            of handle object k of p.  ENABLED only when tw covers EVERY reference to an open
                            description held by a handle of p (`covers`): the kernel copies the whole table, the
                            schedule cannot leave a descriptor out.  The child's table: one reference (d, twin k) for
                            every reference (d, k) of p (`inherited_all`); the copies' program states are what the
                            copied object fields say (ProcLock.twin_state); handle objects of p that are not listed
                            in tw are idle objects without a descriptor (their copy is an idle object without a
                            descriptor: nothing to record).

   A fork is QUIESCENT when NO handle of the forking process is inside an acquisition -- attempt in progress, holding,
   or inside release() (`pfork_quiescent`: every handle of p is idle; the application forks its workers between
   commits of ALL its table handles, not from inside one).  Then p has no descriptor of the lock file at all and the
   child inherits nothing; Proofs/ProcForkProofs.v proves the C19 statements under that hypothesis and refutes them
   without it (fork while ANOTHER handle of the process holds included).

   Definitions only. *)
From Coq Require Import List Bool Arith.
Require Import DS.Model.ProcLockBase DS.Model.ProcLock.
Import ListNotations.

Inductive pevent := PEv (e : levent) | PFork (p p' : pid) (tw : list (hid * hid)).

Fixpoint twin_of (tw : list (hid * hid)) (k : hid) : option hid :=
  match tw with [] => None | (a, b) :: r => if Nat.eqb a k then Some b else twin_of r k end.
Fixpoint orig_of (tw : list (hid * hid)) (k' : hid) : option hid :=
  match tw with [] => None | (a, b) :: r => if Nat.eqb b k' then Some a else orig_of r k' end.

(* the child's descriptor table: every reference of a handle of p, owned by that handle's copy *)
Definition inherit_ref (proc : hid -> pid) (p : pid) (tw : list (hid * hid)) (x : fdn * hid) : list (fdn * hid) :=
  if in_proc proc p (snd x) then match twin_of tw (snd x) with Some k' => [(fst x, k')] | None => [] end else [].
Definition inherited_all (proc : hid -> pid) (p : pid) (tw : list (hid * hid)) (l : list (fdn * hid)) : list (fdn * hid) :=
  flat_map (inherit_ref proc p tw) l.

Definition is_idle (x : hstate) : bool := match x with HIdle => true | _ => false end.
Definition is_dead (x : hstate) : bool := match x with HDead => true | _ => false end.
Fixpoint nodupb (l : list nat) : bool :=
  match l with [] => true | x :: r => negb (existsb (Nat.eqb x) r) && nodupb r end.

(* (k, k'): k is a handle object of the (live) forking process, k' a NEW handle of the child process *)
Definition twin_ok (proc : hid -> pid) (s : lstate) (p p' : pid) (ab : hid * hid) : bool :=
  Nat.eqb (proc (fst ab)) p && Nat.eqb (proc (snd ab)) p' && negb (is_dead (l_h s (fst ab)))
  && is_idle (l_h s (snd ab)) && negb (has_refs (l_open s) (snd ab)).

(* the whole table: every reference held in process p has a copy *)
Definition covers (proc : hid -> pid) (p : pid) (tw : list (hid * hid)) (l : list (fdn * hid)) : bool :=
  forallb (fun x => negb (in_proc proc p (snd x)) || existsb (Nat.eqb (snd x)) (map fst tw)) l.

Definition pfork_enabled (proc : hid -> pid) (s : lstate) (p p' : pid) (tw : list (hid * hid)) : bool :=
  negb (Nat.eqb p p') && forallb (twin_ok proc s p p') tw && nodupb (map fst tw) && nodupb (map snd tw)
  && covers proc p tw (l_open s).

Definition pstep (dc : disc) (proc : hid -> pid) (s : lstate) (e : pevent) : option lstate :=
  match e with
  | PEv (LFork _ _) => None
  | PEv e0 => lstep dc proc s e0
  | PFork p p' tw =>
    if pfork_enabled proc s p p' tw then
      Some {| l_open := l_open s ++ inherited_all proc p tw (l_open s); l_next := l_next s; l_owner := l_owner s;
              l_h := fun k => match orig_of tw k with Some k0 => twin_state (l_h s k0) | None => l_h s k end |}
    else None
  end.

(* no handle of the forking process is inside an acquisition *)
Definition pfork_quiescent (proc : hid -> pid) (s : lstate) (e : pevent) : Prop :=
  match e with PFork p _ _ => forall k, proc k = p -> l_h s k = HIdle | PEv _ => True end.

Definition pstep_skip (dc : disc) (proc : hid -> pid) (s : lstate) (e : pevent) : lstate :=
  match pstep dc proc s e with Some s' => s' | None => s end.
Definition prun (dc : disc) (proc : hid -> pid) (s : lstate) (evs : list pevent) : lstate :=
  fold_left (pstep_skip dc proc) evs s.

Fixpoint pforks_quiescent (dc : disc) (proc : hid -> pid) (s : lstate) (evs : list pevent) : Prop :=
  match evs with
  | [] => True
  | e :: evs' => pfork_quiescent proc s e /\ pforks_quiescent dc proc (pstep_skip dc proc s e) evs'
  end.

(* trace validation: the first event that is not enabled is reported by its index *)
Fixpoint prun_strict (dc : disc) (proc : hid -> pid) (s : lstate) (evs : list pevent) (i : nat) : lstate + nat :=
  match evs with
  | [] => inl s
  | e :: evs' => match pstep dc proc s e with Some s' => prun_strict dc proc s' evs' (S i) | None => inr i end
  end.

(* what is_held() returns: the handle's `_locked` flag.  It is set by a granted attempt and cleared at the END of
   release(), after the unlock and the close: in HUnlocked the flag is still True and the kernel lock is gone. *)
Definition lflag (s : lstate) (h : hid) : Prop := exists d, l_h s h = HHeld d \/ l_h s h = HUnlocked d.
Definition in_release (s : lstate) (h : hid) : Prop := exists d, l_h s h = HUnlocked d.
