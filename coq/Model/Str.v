(* Model/Str.v -- Python str primitives used by the storage backends, over `list ascii`.

   The translator (translator/gen_s3.py) emits terms over exactly these names; their meaning is
   tied to Python's str methods by the `str-prims` correspondence (exhaustive small strings).
   Definitions only. *)
From Coq Require Import List Bool Ascii String Arith.
Import ListNotations.

Definition str := list ascii.

Definition slash : ascii := "/"%char.

(* string literal *)
Definition lit (x : string) : str := list_ascii_of_string x.

Fixpoint str_eqb (a b : str) : bool :=
  match a, b with
  | [], [] => true
  | x :: a', y :: b' => Ascii.eqb x y && str_eqb a' b'
  | _, _ => false
  end.

(* x.startswith(p) *)
Fixpoint starts_with (x p : str) {struct p} : bool :=
  match p with
  | [] => true
  | c :: p' => match x with [] => false | d :: x' => Ascii.eqb c d && starts_with x' p' end
  end.

(* x.endswith(p) *)
Definition ends_with (x p : str) : bool := starts_with (rev x) (rev p).

(* bool(x) *)
Definition nonempty (x : str) : bool := match x with [] => false | _ => true end.

(* x.lstrip("/") *)
Fixpoint lstrip_slash (x : str) : str :=
  match x with
  | [] => []
  | c :: x' => if Ascii.eqb c slash then lstrip_slash x' else x
  end.

(* x.rstrip("/") *)
Definition rstrip_slash (x : str) : str := rev (lstrip_slash (rev x)).

(* x.strip("/") *)
Definition strip_slash (x : str) : str := rstrip_slash (lstrip_slash x).

(* x[n:] *)
Definition drop (n : nat) (x : str) : str := skipn n x.

(* "/".join(segments) *)
Fixpoint join (k : list str) : str :=
  match k with
  | [] => []
  | [a] => a
  | a :: k' => a ++ slash :: join k'
  end.

(* the path components of a string: split on "/" and drop empty components (what os.path.join +
   realpath do to "a//b", "/a", "a/"; dot segments are not interpreted here -- they belong to C17) *)
Fixpoint split_acc (cur : str) (x : str) : list str :=
  match x with
  | [] => match cur with [] => [] | _ => [rev cur] end
  | c :: x' =>
    if Ascii.eqb c slash
    then match cur with [] => split_acc [] x' | _ => rev cur :: split_acc [] x' end
    else split_acc (c :: cur) x'
  end.

Definition components (x : str) : list str := split_acc [] x.

Fixpoint member (k : str) (l : list str) : bool :=
  match l with [] => false | a :: l' => str_eqb k a || member k l' end.
