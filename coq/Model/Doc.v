(* Model/Doc.v -- documents of the metadata plane as the library sees them after json.loads / fastavro, and what a
   READER of such a document demands of it.  Definitions only.

   jv      a decoded document: JSON value, or a decoded Avro record (dict / list / str / int / None);
           JOther = a value of a type the model does not look into (float, bytes): not a string, not iterable,
           not subscriptable.
   shape   what a piece of reader code does with a value, read off the source by translator/gen_doc.py
           (Gen/GenDoc.v; MetadataManager._dict_to_metadata and the record loops of
           FileManager.read_manifest_list_file):
             SAny            the value is passed on as it is (any value, None included, is accepted)
             SStr            `if not isinstance(v, str): raise`
             SEnum vs        `EnumClass(v)` -- ValueError unless v is one of the members' values
             SExt name       the value goes to a constructor that validates it (Schema.__post_init__): external
                             behaviour, the parameter `ext`
             SSeq strict it  `for x in v` / a comprehension over v, every item used as `it`;
                             strict = preceded by `if not isinstance(v, list): raise`.  Python iterates a dict by its
                             keys and a str by its characters: without the guard an EMPTY dict / str is an empty
                             section
             SRec req opt    `v["k"]` for the keys of req (KeyError when missing; TypeError when v is not a dict),
                             `v.get("k"[, default])` for the keys of opt (AttributeError when v is not a dict); the
                             value found is used as the key's shape says (for opt: only when the key is present)
   accepts ext sh v = true   iff the code runs through on v without raising.
   Which exception is raised first is not modelled (only raise / no raise). *)
From Coq Require Import ZArith List Bool String Ascii.
Import ListNotations.
Open Scope string_scope.

Inductive jv :=
| JNull | JBool (b : bool) | JNum (n : Z) | JStr (s : string)
| JArr (l : list jv) | JObj (fs : list (string * jv)) | JOther.

Inductive shape :=
| SAny | SStr | SEnum (vs : list jv) | SExt (name : string)
| SSeq (strict : bool) (item : shape)
| SRec (req opt : fields)
with fields := FNil | FCons (k : string) (s : shape) (r : fields).

Fixpoint assoc (k : string) (fs : list (string * jv)) : option jv :=
  match fs with
  | [] => None
  | (k', v) :: r => if String.eqb k k' then Some v else assoc k r
  end.

(* v["k"]: None = raises (KeyError, or TypeError on anything but a dict) *)
Definition py_getitem (v : jv) (k : string) : option jv :=
  match v with JObj fs => assoc k fs | _ => None end.

(* `for x in v`: None = TypeError (not iterable) *)
Definition py_iter (v : jv) : option (list jv) :=
  match v with
  | JArr l => Some l
  | JObj fs => Some (map (fun kv => JStr (fst kv)) fs)
  | JStr s => Some (map (fun c => JStr (String c EmptyString)) (list_ascii_of_string s))
  | _ => None
  end.

(* bool(v) *)
Definition py_truthy (v : jv) : bool :=
  match v with
  | JNull => false | JBool b => b | JNum n => negb (Z.eqb n 0)
  | JStr s => match s with EmptyString => false | _ => true end
  | JArr l => match l with [] => false | _ => true end
  | JObj fs => match fs with [] => false | _ => true end
  | JOther => true
  end.

(* equality of scalars (enum membership) *)
Definition scalar_eqb (a b : jv) : bool :=
  match a, b with
  | JNum x, JNum y => Z.eqb x y
  | JStr x, JStr y => String.eqb x y
  | JBool x, JNum y => Z.eqb (if x then 1 else 0)%Z y     (* Python: True == 1 *)
  | _, _ => false
  end.

Section Accepts.
  Variable ext : string -> jv -> bool.

  Fixpoint accepts (sh : shape) (v : jv) {struct sh} : bool :=
    match sh with
    | SAny => true
    | SStr => match v with JStr _ => true | _ => false end
    | SEnum vs => existsb (scalar_eqb v) vs
    | SExt n => ext n v
    | SSeq strict item =>
        match v with
        | JArr l => forallb (accepts item) l
        | JObj fs => negb strict && forallb (fun kv => accepts item (JStr (fst kv))) fs
        | JStr s => negb strict && forallb (fun c => accepts item (JStr (String c EmptyString))) (list_ascii_of_string s)
        | _ => false
        end
    | SRec req opt =>
        match v with
        | JObj fs => req_ok req fs && opt_ok opt fs
        | _ => false
        end
    end
  with req_ok (f : fields) (fs : list (string * jv)) {struct f} : bool :=
    match f with
    | FNil => true
    | FCons k s r => match assoc k fs with Some x => accepts s x | None => false end && req_ok r fs
    end
  with opt_ok (f : fields) (fs : list (string * jv)) {struct f} : bool :=
    match f with
    | FNil => true
    | FCons k s r => match assoc k fs with Some x => accepts s x | None => true end && opt_ok r fs
    end.
End Accepts.

Fixpoint field_shape (k : string) (f : fields) : option shape :=
  match f with
  | FNil => None
  | FCons k' s r => if String.eqb k k' then Some s else field_shape k r
  end.

(* ---- what a document SAYS, independently of any reader (specification vocabulary) *)
Definition is_str (v : jv) : Prop := exists s, v = JStr s.
Definition is_arr (v : jv) : Prop := exists l, v = JArr l.

(* the string at key k of every item of the array at key `section` -- None when the section is not there, is not an
   array, or some item does not carry a string at k: the document does not say *)
Fixpoint strings_at (k : string) (items : list jv) : option (list string) :=
  match items with
  | [] => Some []
  | it :: r =>
      match py_getitem it k, strings_at k r with
      | Some (JStr s), Some ss => Some (s :: ss)
      | _, _ => None
      end
  end.

Definition section_strings (section k : string) (d : jv) : option (list string) :=
  match py_getitem d section with
  | Some (JArr items) => strings_at k items
  | _ => None
  end.
