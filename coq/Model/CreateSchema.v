(* Model/CreateSchema.v -- the schema given at creation and schema-less appends (C18).
   The kernels are Gen/GenCreateSchema.v (regenerated from _initialize_table / TableMetadata.__post_init__ /
   _resolve_table_schema / append_data); here they are instantiated at Model/Schema.v's schema objects and tied to the
   creation machine: a metadata file of identity u carries what u's initialisation was called with.
   Definitions only; proofs in Proofs/CreateSchemaProofs.v. *)
From Coq Require Import ZArith List Bool.
Require Import DS.Model.Value DS.Model.Schema DS.Model.CreateBase DS.Gen.GenCreateSchema DS.Model.Commit DS.Model.Create.
Import ListNotations.
Open Scope Z_scope.

Definition has_fields (s : ischema) : bool := match sfields s with [] => false | _ => true end.
(* TableMetadata's default Schema(schema_id=0, fields=[]) *)
Definition empty0 : ischema := {| sid := 0; sfields := []; sstring := 0 |}.

(* (schemas, current_schema_id) of the v0 an initialisation called with `arg` writes *)
Definition v0_schemas (arg : option ischema) : list ischema * Z := gen_init_schemas ischema sid empty0 arg.

(* the schema a schema-less append finds in a table initialised with `arg` *)
Definition table_schema (arg : option ischema) : option ischema :=
  gen_resolve_table_schema ischema sid has_fields (fst (v0_schemas arg)) (snd (v0_schemas arg)).

(* ... in the table now in effect, when caller u's initialisation was called with `sarg u` *)
Definition persisted_schema (sarg : aid -> option ischema) (w : cworld) : option ischema :=
  match table_id w with Some u => table_schema (sarg u) | None => None end.
