(* Model/Tail.v -- what can happen between the pointer flip and the return of the commit call.

   Model/Fault.v lets a transaction delete its files only if it never flipped (`can_rollback`).  In the code that guard
   is not a test: Transaction.commit's `except Exception` / conflict arms run `_rollback()` -- which deletes every file the
   transaction wrote -- whenever such an exception reaches them, flipped or not.  That no such exception CAN reach them
   after the flip is a fact about the TAIL of the call: the statements still executed inside Transaction.commit's `try`
   once the version-hint write has landed.  Gen/GenTail.v regenerates that tail from the source on every run (as a
   regular expression `tre` over storage / lock calls, each marked `guarded` iff an Exception it raises is swallowed
   before reaching Transaction.commit's handlers); Gen/GenCommit.v regenerates the handler table gen_tx_on.

   Here the machine of Fault.v gets the event the guard used to exclude:

     TEscape a e last   an exception of class e leaves the tail of a's commit call (a is past its flip) and is handled by
                        Transaction.commit's arm  txon e last  -- deleting a's files if the arm says so, WITHOUT any
                        test of whether a flipped.

   The event is enabled only if the tail has a call that lets e escape (an asynchronous interrupt escapes anywhere).
   Proofs/TailProofs.v: if every escaping class is handled by the keep-files arm (tail_safe), every file referenced by a
   committed version stays present, for every event list; and if some escaping class is handled by a deleting arm, a
   damaging run exists.  Definitions only. *)
From Coq Require Import ZArith List Bool Arith.
Require Import DS.Model.CommitBase DS.Model.TailBase DS.Model.Commit DS.Model.Fault.
Import ListNotations.

(* ---- the tail as a language (used by the harness: the calls a real commit issues after its flip must be a word) *)
Definition tail_kind_eqb (a b : tail_kind) : bool :=
  match a, b with
  | TKRelease, TKRelease | TKLock, TKLock | TKDelete, TKDelete | TKExists, TKExists | TKRead, TKRead
  | TKWrite, TKWrite | TKList, TKList | TKRaise, TKRaise | TKOther, TKOther | TKCompute, TKCompute => true
  | _, _ => false
  end.

Fixpoint nullable (r : tre) : bool :=
  match r with
  | TEmpty => false | TEps => true | TCall _ _ => false
  | TSeq a b => nullable a && nullable b
  | TAlt a b => nullable a || nullable b
  | TStar _ => true
  end.

(* Brzozowski derivative by one observed call *)
Fixpoint deriv (k : tail_kind) (r : tre) : tre :=
  match r with
  | TEmpty | TEps => TEmpty
  | TCall k' _ => if tail_kind_eqb k k' then TEps else TEmpty
  | TSeq a b => if nullable a then TAlt (TSeq (deriv k a) b) (deriv k b) else TSeq (deriv k a) b
  | TAlt a b => TAlt (deriv k a) (deriv k b)
  | TStar a => TSeq (deriv k a) (TStar a)
  end.

(* what of a tail can be observed at the storage / lock interface: TKCompute steps leave no call behind *)
Fixpoint observable (r : tre) : tre :=
  match r with
  | TCall TKCompute _ => TEps
  | TSeq a b => TSeq (observable a) (observable b)
  | TAlt a b => TAlt (observable a) (observable b)
  | TStar a => TStar (observable a)
  | _ => r
  end.

Definition tail_accepts (r : tre) (obs : list tail_kind) : bool := nullable (fold_left (fun r k => deriv k r) obs r).
(* a prefix of a word (a call cut short by a failure or an interrupt): some continuation is still possible *)
Fixpoint nonempty (r : tre) : bool :=
  match r with
  | TEmpty => false | TEps => true | TCall _ _ => true
  | TSeq a b => nonempty a && nonempty b
  | TAlt a b => nonempty a || nonempty b
  | TStar _ => true
  end.
Definition tail_accepts_prefix (r : tre) (obs : list tail_kind) : bool := nonempty (fold_left (fun r k => deriv k r) obs r).

(* ---- which exception classes can leave the tail *)
Fixpoint unguarded (r : tre) : bool :=
  match r with
  | TCall _ g => negb g
  | TSeq a b | TAlt a b => unguarded a || unguarded b
  | TStar a => unguarded a
  | TEmpty | TEps => false
  end.

(* is there a call of kind k whose Exception is / is not swallowed? (fault-injection correspondence) *)
Fixpoint has_call (k : tail_kind) (g : bool) (r : tre) : bool :=
  match r with
  | TCall k' g' => tail_kind_eqb k k' && Bool.eqb g g'
  | TSeq a b | TAlt a b => has_call k g a || has_call k g b
  | TStar a => has_call k g a
  | TEmpty | TEps => false
  end.

(* KeyboardInterrupt / SystemExit are asynchronous: they surface between any two instructions, and no `except Exception`
   stops them.  Every other class needs a call (or raise) that no handler of the tail swallows. *)
Definition tail_escapes (r : tre) (e : exn_class) : bool :=
  match e with XInterrupt => true | _ => unguarded r end.

Definition all_classes : list exn_class := [XConflict; XAmbiguous; XOther; XInterrupt].
Definition keeps (a : tx_action) : bool := match a with TxRollbackKeep => true | _ => false end.

(* every class that can leave the tail is handled by the arm that keeps the files and finishes the transaction *)
Definition tail_safe (txon : exn_class -> bool -> tx_action) (r : tre) : bool :=
  forallb (fun e => negb (tail_escapes r e) || (keeps (txon e true) && keeps (txon e false))) all_classes.

(* ---- the machine *)
Inductive tevent :=
| TF (e : fevent)                                   (* an event of Model/Fault.v *)
| TEscape (a : aid) (e : exn_class) (last : bool).  (* class e leaves the tail of a's commit call; `last`: final attempt *)

Definition in_tail (p : pc) : bool := match p with PFlipped | PDone Success => true | _ => false end.

(* `_rollback(delete_files=True)` as the code runs it: no test of the protocol state *)
Definition delete_written (x : fworld) (a : aid) : fworld :=
  {| fw := fw x; f_present := remove_all (f_written x a) (f_present x); f_refs := f_refs x;
     f_written := updw a [] (f_written x); f_next := f_next x; f_owner := f_owner x;
     f_dead := fun b => if Nat.eqb b a then true else f_dead x b |}.     (* ghost: a has run the deleting rollback *)

Definition tstep (r : tre) (txon : exn_class -> bool -> tx_action) (c : cfg) (x : fworld) (ev : tevent) : option fworld :=
  match ev with
  | TF e => fstep c x e
  | TEscape a e last =>
    if in_tail (a_pc (w_actors (fw x) a)) && tail_escapes r e then
      (* MetadataManager.commit's `finally`: between flip and release the lock is released on the way out *)
      let x1 := match fstep c x (FProto {| e_actor := a; e_kind := EAbort |}) with Some x' => x' | None => x end in
      match txon e last with
      | TxRollbackKeep => Some x1
      | TxRollbackDelete => Some (delete_written x1 a)
      | TxPropagate => Some (delete_written x1 a)   (* nobody finished the transaction: a context manager's __exit__ rolls back *)
      | TxRetry => None                             (* re-running a committed operation is outside the file plane; excluded by tail_safe *)
      end
    else None
  end.

Definition tstep_skip r txon (c : cfg) (x : fworld) (ev : tevent) : fworld :=
  match tstep r txon c x ev with Some x' => x' | None => x end.
Definition trun r txon (c : cfg) (x : fworld) (evs : list tevent) : fworld := fold_left (tstep_skip r txon c) evs x.

Fixpoint trun_strict r txon (c : cfg) (x : fworld) (evs : list tevent) (i : nat) : fworld + nat :=
  match evs with
  | [] => inl x
  | e :: evs' => match tstep r txon c x e with Some x' => trun_strict r txon c x' evs' (S i) | None => inr i end
  end.

(* SnapshotManager.delete_snapshot calls MetadataManager.commit outside any Transaction: nothing handles anything *)
Definition no_handlers (_ : exn_class) (_ : bool) : tx_action := TxPropagate.
