(* Props/C07.v -- Garbage collection fails closed.
   Only theorem statements, each closed by `exact <lemma>`, with Print Assumptions beneath.
   Model: Model/GC.v with a fault oracle `nat -> option fault` indexed by storage-call number
   (FRaise: the call raises; FBad: exists -> False, read/open -> unparseable bytes, listing -> an extra
   "../x" entry, stat/delete -> raises); any number of faults, anywhere. *)
From Coq Require Import ZArith String Ascii List Bool.
Require Import DS.Model.PyStr DS.Gen.GenNorm DS.Model.GC DS.Proofs.GCNormProofs DS.Proofs.GCProofs DS.Proofs.GCFaultProofs.
Require Import DS.Model.GCPointer DS.Proofs.GCPointerProofs DS.Proofs.PyStrProofs DS.Model.GCHist DS.Proofs.GCHistProofs.
Require Import DS.Model.Doc DS.Gen.GenDoc DS.Model.GCDoc DS.Proofs.GCDocProofs.
Require Import DS.Gen.GenGCMarker DS.Proofs.GCMarkerGenProofs. Require Import DS.Proofs.MarkerKeyProofs.
Require Import DS.Gen.GenLocalList DS.Model.LocalList DS.Proofs.LocalListProofs.
Import ListNotations.
Open Scope string_scope.
Open Scope Z_scope.

(* For EVERY fault oracle: an abort raised while reachability or in-flight protection is being
   established happens before the first delete; and whatever happens (completion, or an abort raised by
   a sweep's listing), every deleted file is unreferenced, not registered by a live transaction and
   older than the grace period -- absorbed faults never shrink protection below the live set; nothing
   else disappears except markers older than the abandonment timeout; and a marker that is still
   present afterwards (fresh, or its stat / delete failed) protected everything it denotes. *)
Theorem C07_fail_closed : forall (tp : string) (grace now timeout : Z) (o : oracle) (snaps : list string) (st : store),
  wf_store snaps st -> gc_safe_spec now grace timeout snaps st (gc_run tp grace now timeout o snaps st).
Proof. exact gc_safe_all_faults. Qed.
Print Assumptions C07_fail_closed.

(* Every damage class of a reachable manifest list or manifest (missing; or present but not parseable as what it must
   be: garbage, empty, truncated Avro, a file of the other kind, a JSON object without its `manifests` / `files` section --
   as_list / as_manifest of CJsonEmpty is None) aborts before the first sweep having deleted nothing --
   under ANY additional faults, and whichever of the two preparatory phases the source runs first. *)
Theorem C07_damage : forall (tp : string) (grace now timeout : Z) (o : oracle) (snaps : list string) (st : store) (k : key),
  wf_store snaps st ->
  (ref_list snaps k /\ damaged_list st k) \/ (ref_manifest snaps st k /\ damaged_manifest st k) ->
  aborted_before_sweep (gc_run tp grace now timeout o snaps st) /\ r_deleted (gc_run tp grace now timeout o snaps st) = [].
Proof. exact damage_aborts. Qed.
Print Assumptions C07_damage.

(* Transient failures: a collection that gets as far as the sweeps read every reachable list and manifest with no
   effective fault at all (on a store that had lost at most abandoned markers) -- the only fault a successful read can
   have absorbed is an OSError / garbage on open_file of a file that is in the legacy JSON format anyway (the Avro
   attempt fails either way and the JSON read was fault-free).  Equivalently: any other fault on any exists / open_file /
   read_file of a reachable list or manifest aborts before the first delete. *)
Theorem C07_transient : forall (tp : string) (grace now timeout : Z) (o : oracle) (snaps : list string) (st : store),
  wf_store snaps st ->
  ~ aborted_before_sweep (gc_run tp grace now timeout o snaps st) ->
  exists g mpaths g1 entries g2,
    only_markers_removed now timeout st (g_store g)
    /\ read_all WList o g (norm_set tp snaps) = (Some mpaths, g1)
    /\ read_all WManifest o g1 (norm_set tp mpaths) = (Some entries, g2)
    /\ trace_ext (g_store g) WList g g1 /\ trace_ext (g_store g) WManifest g1 g2.
Proof. exact reach_phase_fault_free. Qed.
Print Assumptions C07_transient.

(* Partial decodes are never trusted: a reachable manifest list or manifest whose Avro stream yields the records `decoded`
   and THEN fails (a damaged later record, block or sync marker; a read error mid-stream; caught = whether the exception is
   of the class the readers catch and answer with the JSON fallback) is never read as the records decoded so far -- by any
   read, under any fault oracle -- and the collection aborts before the first sweep having deleted nothing. *)
Theorem C07_partial_decode : forall (tp : string) (grace now timeout : Z) (o : oracle) (snaps : list string) (st : store)
    (k : key) (ob : obj) (decoded : list string) (caught : bool),
  wf_store snaps st -> lookup k st = Some ob -> body ob = CPartialAvro decoded caught ->
  ref_list snaps k \/ ref_manifest snaps st k ->
  (forall w o' g, g_store g = st -> fst (read_one w o' g k) = None)
  /\ aborted_before_sweep (gc_run tp grace now timeout o snaps st) /\ r_deleted (gc_run tp grace now timeout o snaps st) = [].
Proof. exact partial_decode_aborts. Qed.
Print Assumptions C07_partial_decode.

(* The pointer plane, connected to the collector (Model/GCPointer.v collect_pointer = the two resolutions of the pointer, the
   read of the resolved metadata FILE, then Model/GCDoc.v collect_doc / Model/GC.v gc_run on its document).  Storage may hold
   metadata files that were never published (a writer died between writing v(N+1) and flipping the pointer); files are
   identified by name, and the collector's re-check compares metadata CONTENT (`same`), not version numbers.
   With the pointer published at the file p holding the document dp: whatever the first resolution (refresh) was told -- the
   pointer looking missing or garbled, the hinted file reported missing, so that the scan picks the highest version on
   storage -- and whatever exists / listing / stat / read answers both resolutions get, a collection whose second,
   independent read of the pointer is answered (truthfully, or by raising) aborts / refuses having deleted nothing, or runs on
   exactly the manifest lists of the PUBLISHED document and satisfies C07_fail_closed's specification for them, under every
   fault oracle of the collection proper.
   _partial: the hypothesis `a_hint a2 <> PNone` is needed -- see C07_pointer_run_safe_refuted. *)
Theorem C07_pointer_run_safe_partial : forall (ext : string -> jv -> bool) (same : jv -> jv -> bool) (tp : string) (grace now timeout : Z) (o : oracle)
    (a1 a2 : answers) (files : list (mfile jv)) (st : store) (p : mfile jv) (dp : jv),
  (forall a b, same a b = true -> doc_lists a = doc_lists b) ->
  find_file (mf_name p) files = Some p -> mf_body p = Some dp -> accepts ext gen_metadata_shape dp = true ->
  honest p a1 -> honest p a2 -> a_hint a2 <> PNone ->
  wf_store (doc_lists dp) st ->
  match collect_pointer ext same tp grace now timeout o a1 a2 files st with
  | PUse f (DocRun r) => gc_safe_spec now grace timeout (doc_lists dp) st r
  | other => pointer_deleted other = []
  end.
Proof. exact pointer_run_safe. Qed.
Print Assumptions C07_pointer_run_safe_partial.

(* The residual window, stated honestly: the same statement WITHOUT the hypothesis on the second pointer read is FALSE of the
   code.  A pointer that looks absent at both reads is, for the library, a lost pointer (recovered by scanning: the pointer is
   only a hint, C10); with a dead writer's unpublished higher version on storage the scan makes that version the table and the
   collection deletes files the published metadata references (the witness: Proofs/GCPointerProofs.v wx_*; on the real
   library: C10's known finding `unpublished-surfaced`, seeded change C07-g). *)
Definition C07_pointer_run_safe_full : Prop := pointer_run_safe_full.
Theorem C07_pointer_run_safe_refuted : ~ C07_pointer_run_safe_full.
Proof. exact pointer_run_safe_full_refuted. Qed.
Print Assumptions C07_pointer_run_safe_refuted.

(* ... and when there is nothing unpublished above the published file (the scan's choice is p), a pointer lost at both reads
   is harmless: the collection works from p. *)
Theorem C07_pointer_lost_hint_partial : forall (D : Type) (same : D -> D -> bool) (fs : list (mfile D)) (p : mfile D) (a1 a2 : answers) (f : mfile D) (d : D),
  a_hint a1 = PNone -> a_hint a2 = PNone -> scan_pick a1 fs = Some p ->
  collect_resolve same a1 a2 fs = RUse f d -> mf_name f = mf_name p.
Proof. exact resolve_lost_hint_scan. Qed.
Print Assumptions C07_pointer_lost_hint_partial.

(* a pointer read that RAISES (at either resolution) never lets the collection run *)
Theorem C07_pointer_raise_aborts : forall (ext : string -> jv -> bool) (same : jv -> jv -> bool) (tp : string) (grace now timeout : Z) (o : oracle)
    (a1 a2 : answers) (files : list (mfile jv)) (st : store),
  a_hint a1 = PRaise \/ a_hint a2 = PRaise ->
  forall f res, collect_pointer ext same tp grace now timeout o a1 a2 files st <> PUse f res.
Proof. exact pointer_raise_aborts. Qed.
Print Assumptions C07_pointer_raise_aborts.

(* the metadata file a collection works from is on storage, was read without a failure, is JSON and is accepted by the reader:
   a metadata file that is missing, unparseable or failing transiently is never worked from (and what runs is collect_doc on
   its document: C07_metadata_document_fail_closed below) *)
Theorem C07_pointer_unreadable_never_used : forall (ext : string -> jv -> bool) (same : jv -> jv -> bool) (tp : string) (grace now timeout : Z) (o : oracle)
    (a1 a2 : answers) (files : list (mfile jv)) (st : store) (f : mfile jv) (res : doc_result),
  collect_pointer ext same tp grace now timeout o a1 a2 files st = PUse f res ->
  exists f0 d, find_file (mf_name f) files = Some f0 /\ mf_body f0 = Some d /\ accepts ext gen_metadata_shape d = true
               /\ a_read_raises a1 (mf_name f) = false /\ res = collect_doc ext tp grace now timeout o d st.
Proof. exact pointer_uses_readable. Qed.
Print Assumptions C07_pointer_unreadable_never_used.

(* A marker whose stat or delete fails -- more generally ANY marker that is still present after the run -- kept
   everything it denotes (its payload path, or when the payload is unusable every path its name can denote) out of the
   deleted set; and a marker disappears only when it is older than the abandonment timeout. *)
Theorem C07_marker_keep : forall (tp : string) (grace now timeout : Z) (o : oracle) (snaps : list string) (st : store),
  wf_store snaps st ->
  let r := gc_run tp grace now timeout o snaps st in
  (forall mk ob, lookup mk (g_store (r_final r)) = Some ob -> is_marker_key mk ->
     forall k, marker_denotes mk ob k -> ~ In k (r_deleted r)) /\
  (forall mk ob, lookup mk st = Some ob -> is_marker_key mk -> lookup mk (g_store (r_final r)) = None -> mtime ob < now - timeout).
Proof. exact marker_keep. Qed.
Print Assumptions C07_marker_keep.

(* The writer's marker naming and the collector's fallback agree (both REGENERATED: Gen/GenNorm.v register_marker_path /
   register_marker_payload from Transaction._register_inflight, marker_fallback from GarbageCollector._marker_targets), for
   EVERY path Transaction.append_files accepts (the REGENERATED guard append_accepts_path: any canonical path below data/,
   in any sub-directory, with or without leading slashes): the marker written for it is a marker for the collector, and
   what is protected when that marker's payload CANNOT be read is exactly the registered file.  (C07_marker_keep: a marker
   that is present protects what its key can denote; this theorem: what the key denotes IS what the writer registered.)
   With markers keyed by the file's basename -- the unchanged library -- this is false (C07_basename_marker_fallback_refuted). *)
Theorem C07_registered_marker_fallback_covers : forall (normpath : string -> string) (file : string),
  append_accepts_path normpath file = true ->
  is_marker_key (register_marker_path file)
  /\ marker_fallback (register_marker_path file) (basename (register_marker_path file)) = [resolve (register_marker_payload file)]
  /\ startswith "data/" (resolve (register_marker_payload file)) = true.
Proof. exact accepted_marker_fallback_covers. Qed.
Print Assumptions C07_registered_marker_fallback_covers.

(* ... and for every other file a transaction registers (the manifests and the manifest list of a commit attempt, under
   metadata/manifests/): any table-relative path.  `name_candidates` is the `marker_denotes` of an unreadable marker
   (Model/GC.v) and the content of wf_store's wf_markers: a store holding the marker of ANY registered file satisfies it. *)
Theorem C07_registered_marker_key_denotes : forall (file : string), table_relative (resolve file) ->
  is_marker_key (register_marker_path file)
  /\ name_candidates (register_marker_path file) = [resolve (register_marker_payload file)]
  /\ marker_fallback (register_marker_path file) (basename (register_marker_path file)) = [resolve (register_marker_payload file)].
Proof. exact registered_marker_fallback_covers. Qed.
Print Assumptions C07_registered_marker_key_denotes.

(* The naming of the unchanged library (marker keyed by the file's BASENAME, fallback guessed from it; written down by hand in
   Proofs/MarkerKeyProofs.v): an accepted file in a sub-directory of data/ is not among the paths protected when its marker
   cannot be read. *)
Theorem C07_basename_marker_fallback_refuted :
  exists f, append_accepts_path (fun s => s) f = true
            /\ ~ In (resolve f) (basename_marker_fallback (basename (basename_marker_path f))).
Proof. exact basename_marker_fallback_misses. Qed.
Print Assumptions C07_basename_marker_fallback_refuted.

(* ---- STRUCTURED damage: the file is still a good JSON / Avro document, but a key is gone, null, or of another type.
   The readers' demands are the shapes regenerated from the source (Gen/GenDoc.v); `ext` is the one external validation
   (Schema.__post_init__), any function.

   The metadata document.  collect() works from metadata_manager.refresh() = json.loads + _dict_to_metadata of the current
   metadata file.  For EVERY document d: either the reader refuses it -- the collection raises having deleted nothing --
   or the collection runs on the manifest lists of ALL the snapshots the document lists (its snapshots section is a list
   and every snapshot in it names its manifest list as a string: nothing was defaulted, no snapshot skipped), and then
   for every fault oracle only unreferenced, unprotected, old files are deleted (C07_fail_closed for those lists). *)
Theorem C07_metadata_document_fail_closed : forall (ext : string -> jv -> bool) (tp : string) (grace now timeout : Z) (o : oracle) (d : jv) (st : store),
  wf_store (doc_lists d) st ->
  match collect_doc ext tp grace now timeout o d st with
  | DocRefused => doc_deleted (collect_doc ext tp grace now timeout o d st) = []
  | DocRun r =>
      (exists items, py_getitem d gen_snapshots_key = Some (JArr items)
                     /\ Forall2 (fun it l => py_getitem it gen_manifest_list_key = Some (JStr l)) items (doc_lists d))
      /\ gc_safe_spec now grace timeout (doc_lists d) st r
  end.
Proof. exact doc_fail_closed. Qed.
Print Assumptions C07_metadata_document_fail_closed.

(* A metadata document that no longer says which manifest lists its snapshots have -- the snapshots section is missing,
   null, of another type (an empty object or string included), or some snapshot carries anything but a string as its
   manifest list -- is refused, whatever else it contains: it never parses as "a table without snapshots". *)
Theorem C07_lost_section_refused : forall (ext : string -> jv -> bool) (tp : string) (grace now timeout : Z) (o : oracle) (d : jv) (st : store),
  section_strings gen_snapshots_key gen_manifest_list_key d = None ->
  collect_doc ext tp grace now timeout o d st = DocRefused.
Proof. exact lost_section_refused. Qed.
Print Assumptions C07_lost_section_refused.

(* A metadata document that contradicts itself about its snapshots -- its current_snapshot_id is set (not null, not -1) and
   none of the snapshots it lists has that id: `snapshots: []` under a set current_snapshot_id, the current snapshot gone from
   the list -- is refused by the collector (GarbageCollectionAborted before anything is deleted), whatever else it contains:
   it never parses as "a table whose other snapshots are garbage".  (The check in collect() is read off the source:
   Gen/GenNorm.v COLLECT_CHECKS_CURRENT_SNAPSHOT; the keys: Gen/GenDoc.v.) *)
Theorem C07_dangling_current_refused : forall (ext : string -> jv -> bool) (tp : string) (grace now timeout : Z) (o : oracle) (d : jv) (st : store),
  dangling_current d -> collect_doc ext tp grace now timeout o d st = DocRefused.
Proof. exact dangling_current_doc_refused. Qed.
Print Assumptions C07_dangling_current_refused.

(* ... and a collection that RUNS worked from the manifest list of the document's current snapshot: the document says that
   there is no snapshot yet, or its current snapshot is one of the listed snapshots and that snapshot's manifest list is among
   the lists the run keeps (doc_lists d: C07_metadata_document_fail_closed gives gc_safe_spec for them). *)
Theorem C07_run_protects_current_snapshot : forall (ext : string -> jv -> bool) (tp : string) (grace now timeout : Z) (o : oracle) (d : jv) (st : store) (r : result),
  collect_doc ext tp grace now timeout o d st = DocRun r ->
  exists c items, py_getitem d gen_current_snapshot_key = Some c /\ py_getitem d gen_snapshots_key = Some (JArr items)
    /\ (current_unset c = true
        \/ exists it l, In it items /\ snapshot_has_id c it = true
                        /\ py_getitem it gen_manifest_list_key = Some (JStr l) /\ In l (doc_lists d)).
Proof. exact run_protects_current. Qed.
Print Assumptions C07_run_protects_current_snapshot.

(* Legacy JSON manifest lists / manifests.  A reachable list / manifest in the legacy JSON format whose document LOST the
   section it consists of -- `manifests` / `files` missing, null, or anything but a list -- is not an empty list / manifest: the
   reader refuses it (regenerated shapes: the section is subscripted and must be a list) and the collection aborts before the
   first sweep having deleted nothing, under any faults. *)
Theorem C07_json_section_lost_aborts : forall (ext : string -> jv -> bool) (tp : string) (grace now timeout : Z) (o : oracle) (snaps : list string)
    (st : store) (k : key) (ob : obj) (d : jv),
  wf_store snaps st -> lookup k st = Some ob ->
  (ref_list snaps k /\ body ob = list_json_content ext d /\ forall l, py_getitem d gen_list_json_key <> Some (JArr l))
  \/ (ref_manifest snaps st k /\ body ob = manifest_json_content ext d /\ forall l, py_getitem d gen_manifest_json_key <> Some (JArr l)) ->
  aborted_before_sweep (gc_run tp grace now timeout o snaps st) /\ r_deleted (gc_run tp grace now timeout o snaps st) = [].
Proof. exact json_section_lost_aborts. Qed.
Print Assumptions C07_json_section_lost_aborts.

(* Manifest lists and manifests as decoded records.  A reachable list / manifest that is read (as_list / as_manifest of its
   content class) was accepted record by record and every record contributed exactly the path it carries as a string ... *)
Theorem C07_readable_records_complete : forall (ext : string -> jv -> bool) (recs : list jv) (ps : list string),
  (as_list (list_records_content ext recs) = Some ps ->
     forallb (accepts ext gen_list_record_shape) recs = true
     /\ Forall2 (fun r p => py_getitem r gen_list_path_key = Some (JStr p)) recs ps)
  /\ (as_manifest (manifest_records_content ext recs) = Some ps ->
     forallb (accepts ext gen_manifest_record_shape) recs = true
     /\ Forall2 (fun r p => exists h, py_getitem r gen_manifest_file_key = Some h /\ py_getitem h gen_manifest_path_key = Some (JStr p)) recs ps).
Proof. intros ext recs ps. split; [apply list_records_readable|apply manifest_records_readable]. Qed.
Print Assumptions C07_readable_records_complete.

(* ... and a reachable list / manifest with ONE record the reader refuses (a key it subscripts is gone, an enum value is
   not a member, ...) or whose path is not a string (null, 0, false, [], {} ...) aborts the collection before the first
   sweep with nothing deleted -- under any faults. *)
Theorem C07_structured_damage_aborts : forall (ext : string -> jv -> bool) (tp : string) (grace now timeout : Z) (o : oracle) (snaps : list string)
    (st : store) (k : key) (ob : obj) (recs : list jv) (r : jv),
  wf_store snaps st -> lookup k st = Some ob -> In r recs ->
  (ref_list snaps k /\ body ob = list_records_content ext recs
     /\ (accepts ext gen_list_record_shape r = false \/ forall s, py_getitem r gen_list_path_key <> Some (JStr s)))
  \/ (ref_manifest snaps st k /\ body ob = manifest_records_content ext recs
     /\ (accepts ext gen_manifest_record_shape r = false
         \/ forall h s, py_getitem r gen_manifest_file_key = Some h -> py_getitem h gen_manifest_path_key <> Some (JStr s))) ->
  aborted_before_sweep (gc_run tp grace now timeout o snaps st) /\ r_deleted (gc_run tp grace now timeout o snaps st) = [].
Proof. exact structured_damage_aborts. Qed.
Print Assumptions C07_structured_damage_aborts.

(* a list record without the key its path comes from is refused by the reader (KeyError) *)
Theorem C07_list_record_without_path_refused : forall (ext : string -> jv -> bool) (r : jv),
  py_getitem r gen_list_path_key = None -> accepts ext gen_list_record_shape r = false.
Proof. exact list_record_without_path_refused. Qed.
Print Assumptions C07_list_record_without_path_refused.

(* Non-vacuity: the example store of C05 (two retained snapshots, a live transaction, orphans) at table location "data":
   a transient failure on the second manifest list aborts with nothing deleted; a failing marker listing aborts; a failing
   read of the live transaction's marker leaves its file protected while the orphans are still removed; and with the
   manifest m2 replaced by garbage the run aborts in the manifest phase. *)
Require Import DS.Props.C05.
(* the phase order of the code as it stands (reachability first) is fixed here so that the call numbers are meaningful *)
Definition run_with (o : oracle) (st : store) := gc_run_from false "data" 1000 1000000 86400000 o ex_snaps (mkG 0 st []).
Definition ex_damaged : store :=
  map (fun p => if String.eqb (fst p) "metadata/manifests/m2.avro" then (fst p, mkObj 1000 CGarbage) else p) ex_st.
Example C07_nonvacuous :
  wf_store ex_snaps ex_st /\ wf_store ex_snaps ex_damaged
  /\ (r_out (run_with (oracle_of [(5%nat, FRaise)]) ex_st), r_deleted (run_with (oracle_of [(5%nat, FRaise)]) ex_st)) = (Aborted PhLists, [])
  /\ (r_out (run_with (oracle_of [(12%nat, FRaiseX)]) ex_st), r_deleted (run_with (oracle_of [(12%nat, FRaiseX)]) ex_st)) = (Aborted PhMarkers, [])
  /\ (r_out (run_with (oracle_of [(14%nat, FBad)]) ex_st), r_deleted (run_with (oracle_of [(14%nat, FBad)]) ex_st))
       = (Done, ["metadata/manifests/old.avro"; "data/orphan.parquet"])
  /\ (r_out (run_with no_faults ex_damaged), r_deleted (run_with no_faults ex_damaged)) = (Aborted PhManifests, [])
  /\ ref_manifest ex_snaps ex_damaged "metadata/manifests/m2.avro" /\ damaged_manifest ex_damaged "metadata/manifests/m2.avro".
Proof.
  split; [apply wf_storeb_sound; vm_compute; reflexivity|]. split; [apply wf_storeb_sound; vm_compute; reflexivity|].
  split; [vm_compute; reflexivity|]. split; [vm_compute; reflexivity|]. split; [vm_compute; reflexivity|]. split; [vm_compute; reflexivity|].
  split.
  - exists "metadata/manifests/l2.avro", ["metadata/manifests/m1.avro"; "metadata/manifests/m2.avro"], "metadata/manifests/m2.avro".
    repeat split; simpl; auto. eexists; split; reflexivity.
  - vm_compute. reflexivity.
Qed.

(* Non-vacuity of C07_partial_decode, and why it matters: in the example store the newest manifest list l2 names m1 and m2.
   If its stream fails after m1 was decoded (ex_partial) the run aborts with nothing deleted; a reader that handed back the
   records decoded so far would make the collector see the list ex_prefix_trusted -- and then the live data file b.parquet
   and its manifest m2 are deleted. *)
Definition replace_body (k : key) (c : content) (st : store) : store :=
  map (fun p => if String.eqb (fst p) k then (fst p, mkObj (mtime (snd p)) c) else p) st.
Definition ex_partial : store := replace_body "metadata/manifests/l2.avro" (CPartialAvro ["metadata/manifests/m1.avro"] true) ex_st.
Definition ex_prefix_trusted : store := replace_body "metadata/manifests/l2.avro" (CList FAvro ["metadata/manifests/m1.avro"]) ex_st.
Example C07_partial_nonvacuous :
  wf_store ex_snaps ex_partial /\ ref_list ex_snaps "metadata/manifests/l2.avro"
  /\ (r_out (run_with no_faults ex_partial), r_deleted (run_with no_faults ex_partial)) = (Aborted PhLists, [])
  /\ referenced ex_snaps ex_st "data/b.parquet"
  /\ In "data/b.parquet" (r_deleted (run_with no_faults ex_prefix_trusted))
  /\ In "metadata/manifests/m2.avro" (r_deleted (run_with no_faults ex_prefix_trusted)).
Proof.
  split; [apply wf_storeb_sound; vm_compute; reflexivity|].
  split; [exists "metadata/manifests/l2.avro"; repeat split; simpl; auto|].
  split; [vm_compute; reflexivity|]. split.
  - right. right. exists "metadata/manifests/l2.avro", ["metadata/manifests/m1.avro"; "metadata/manifests/m2.avro"], "metadata/manifests/m2.avro",
      ["/data/b.parquet"], "/data/b.parquet".
    repeat split; simpl; auto; eexists; split; reflexivity.
  - split; vm_compute; tauto.
Qed.

(* Non-vacuity of the pointer theorems, and what they exclude: the metadata documents of the example table (ex_doc below:
   published, v3) and of the same table after a dead writer's unpublished expiry (v4: only the newest snapshot) on storage.
   Answered truthfully the collection works from v3 and completes; one wrong answer at the first resolution (the pointer
   looking missing: the scan picks v4) is caught by the second (abort); a raising read aborts; a transient failure reading v3
   aborts; only a pointer that looks absent BOTH times makes v4 the table -- and then the published snapshot's manifest list l1
   is deleted (the residual window of C07_pointer_run_safe_refuted). *)
Definition nv_ext (_ : string) (_ : jv) : bool := true.
Definition nv_snapshot (i : Z) (l : string) : jv := JObj [("snapshot_id", JNum i); ("timestamp_ms", JNum 5); ("manifest_list", JStr l)].
Definition nv_doc (cur : jv) (snaps : list jv) : jv :=
  JObj [("location", JStr "data"); ("table_uuid", JStr "u"); ("format_version", JNum 2); ("last_sequence_number", JNum 2);
        ("last_updated_ms", JNum 9); ("last_column_id", JNum 1);
        ("schemas", JArr [JObj [("schema_id", JNum 1); ("fields", JArr [])]]); ("current_schema_id", JNum 1);
        ("partition_specs", JArr [JObj [("spec_id", JNum 0); ("fields", JArr [])]]); ("default_spec_id", JNum 0);
        ("sort_orders", JArr [JObj [("order_id", JNum 1); ("fields", JArr [])]]); ("default_sort_order_id", JNum 1);
        ("properties", JObj []); ("current_snapshot_id", cur); ("snapshot_log", JArr []); ("metadata_log", JArr []);
        ("snapshots", JArr snaps)].
Definition nv_published : jv := nv_doc (JNum 2) [nv_snapshot 1 "metadata/manifests/l1.avro"; nv_snapshot 2 "metadata/manifests/l2.avro"].
Definition nv_leftover : jv := nv_doc (JNum 2) [nv_snapshot 2 "metadata/manifests/l2.avro"].
Definition nv_p : mfile jv := mkMF "v3.metadata.json" 3%nat 100 (Some nv_published).
Definition nv_files : list (mfile jv) := [nv_p; mkMF "v4-0a1b2c3d.metadata.json" 4%nat 200 (Some nv_leftover)].
Definition nv_same (a b : jv) : bool := if list_eq_dec string_dec (doc_lists a) (doc_lists b) then true else false.
Definition nv_truth : answers := mkA (PSome "v3.metadata.json") (fun _ => XTrue) false (fun _ => false) (fun _ => false).
Definition nv_with (h : pans) (rd : string -> bool) : answers := mkA h (fun _ => XTrue) false (fun _ => false) rd.
Definition nv_run (a1 a2 : answers) : presult := collect_pointer nv_ext nv_same "data" 1000 1000000 86400000 no_faults a1 a2 nv_files ex_st.
Definition nv_outcome (r : presult) : string * list key :=
  match r with
  | PAbort => ("abort", []) | PNoTable => ("no table", [])
  | PUse f DocRefused => (mf_name f, [])
  | PUse f (DocRun r) => (mf_name f, r_deleted r)
  end.
Example C07_pointer_nonvacuous :
  doc_lists nv_published = ex_snaps /\ wf_store (doc_lists nv_published) ex_st
  /\ accepts nv_ext gen_metadata_shape nv_published = true /\ honest nv_p nv_truth /\ honest nv_p (nv_with PNone (fun _ => false))
  /\ nv_outcome (nv_run nv_truth nv_truth) = ("v3.metadata.json", ["metadata/manifests/old.avro"; "data/orphan.parquet"])
  /\ nv_outcome (nv_run (nv_with PNone (fun _ => false)) nv_truth) = ("abort", [])
  /\ nv_outcome (nv_run (nv_with PRaise (fun _ => false)) nv_truth) = ("abort", [])
  /\ nv_outcome (nv_run nv_truth (nv_with PRaise (fun _ => false))) = ("abort", [])
  /\ nv_outcome (nv_run (nv_with (PSome "v3.metadata.json") (String.eqb "v3.metadata.json")) nv_truth) = ("abort", [])
  /\ fst (nv_outcome (nv_run (nv_with PNone (fun _ => false)) (nv_with PNone (fun _ => false)))) = "v4-0a1b2c3d.metadata.json"
  /\ In "metadata/manifests/l1.avro" (snd (nv_outcome (nv_run (nv_with PNone (fun _ => false)) (nv_with PNone (fun _ => false)))))
  /\ ref_list (doc_lists nv_published) "metadata/manifests/l1.avro".
Proof.
  split; [vm_compute; reflexivity|]. split; [apply wf_storeb_sound; vm_compute; reflexivity|].
  split; [vm_compute; reflexivity|]. split; [left; reflexivity|]. split; [right; left; reflexivity|].
  split; [vm_compute; reflexivity|]. split; [vm_compute; reflexivity|]. split; [vm_compute; reflexivity|].
  split; [vm_compute; reflexivity|]. split; [vm_compute; reflexivity|]. split; [vm_compute; reflexivity|].
  split; [vm_compute; tauto|].
  exists "metadata/manifests/l1.avro". repeat split; vm_compute; auto.
Qed.

(* Non-vacuity of C07_registered_marker_fallback_covers / _key_denotes: an accepted file in a sub-directory, a manifest written
   during commit, a marker of an older version (bare name: both directories), and a store holding a sub-directory file with
   its marker is well-formed (wf_markers) *)
Example C07_marker_naming_nonvacuous :
  append_accepts_path (fun s => s) "/data/p1/x.parquet" = true
  /\ register_marker_path "/data/p1/x.parquet" = "metadata/inflight/data/p1/x.parquet.inflight"
  /\ marker_fallback (register_marker_path "/data/p1/x.parquet") (basename (register_marker_path "/data/p1/x.parquet")) = ["data/p1/x.parquet"]
  /\ register_marker_path "/metadata/manifests/manifest_7.avro" = "metadata/inflight/metadata/manifests/manifest_7.avro.inflight"
  /\ name_candidates (register_marker_path "/metadata/manifests/manifest_7.avro") = ["metadata/manifests/manifest_7.avro"]
  /\ marker_fallback "metadata/inflight/f1.parquet.inflight" "f1.parquet.inflight" = ["data/f1.parquet"; "metadata/manifests/f1.parquet"]
  /\ wf_storeb [] [("data/p1/x.parquet", mkObj 0 CData);
                   (register_marker_path "data/p1/x.parquet", mkObj 100 (CMarker (Some (register_marker_payload "data/p1/x.parquet"))))] = true.
Proof. repeat split; vm_compute; auto. Qed.

(* Non-vacuity of the document theorems: a metadata document for the example table is accepted and yields the example's
   manifest lists; the same document with its snapshots section dropped / null / an empty object / an empty string, or with
   one snapshot's manifest list null / 0, is refused; a list record with a null path makes the list unreadable. *)
Definition ex_ext (_ : string) (_ : jv) : bool := true.
Definition ex_snapshot (l : jv) : jv := JObj [("snapshot_id", JNum 1); ("timestamp_ms", JNum 5); ("manifest_list", l)].
Definition ex_doc_with (snaps : option jv) : jv :=
  JObj ([("location", JStr "data"); ("table_uuid", JStr "u"); ("format_version", JNum 2); ("last_sequence_number", JNum 2);
         ("last_updated_ms", JNum 9); ("last_column_id", JNum 1);
         ("schemas", JArr [JObj [("schema_id", JNum 1); ("fields", JArr [])]]); ("current_schema_id", JNum 1);
         ("partition_specs", JArr [JObj [("spec_id", JNum 0); ("fields", JArr [])]]); ("default_spec_id", JNum 0);
         ("sort_orders", JArr [JObj [("order_id", JNum 1); ("fields", JArr [])]]); ("default_sort_order_id", JNum 1);
         ("properties", JObj []); ("current_snapshot_id", JNum 1); ("snapshot_log", JArr []); ("metadata_log", JArr [])]
        ++ match snaps with Some v => [("snapshots", v)] | None => [] end)%list.
Definition ex_doc : jv := ex_doc_with (Some (JArr (map (fun l => ex_snapshot (JStr l)) ex_snaps))).
Definition ex_list_record (p : jv) : jv :=
  JObj [("manifest_path", p); ("manifest_length", JNum 10); ("partition_spec_id", JNum 0); ("content", JNum 0);
        ("added_snapshot_id", JNum 1); ("added_data_files_count", JNum 1); ("existing_data_files_count", JNum 0);
        ("deleted_data_files_count", JNum 0)].
Example C07_document_nonvacuous :
  accepts ex_ext gen_metadata_shape ex_doc = true /\ doc_lists ex_doc = ex_snaps /\ ex_snaps <> []
  /\ (exists r, collect_doc ex_ext "data" 1000 1000000 86400000 no_faults ex_doc ex_st = DocRun r /\ r_out r = Done)
  /\ accepts ex_ext gen_metadata_shape (ex_doc_with None) = false
  /\ accepts ex_ext gen_metadata_shape (ex_doc_with (Some JNull)) = false
  /\ accepts ex_ext gen_metadata_shape (ex_doc_with (Some (JObj []))) = false
  /\ accepts ex_ext gen_metadata_shape (ex_doc_with (Some (JStr ""))) = false
  /\ accepts ex_ext gen_metadata_shape (ex_doc_with (Some (JArr [ex_snapshot JNull]))) = false
  /\ accepts ex_ext gen_metadata_shape (ex_doc_with (Some (JArr [ex_snapshot (JNum 0)]))) = false
  /\ section_strings gen_snapshots_key gen_manifest_list_key (ex_doc_with None) = None
  /\ list_records_content ex_ext [ex_list_record (JStr "metadata/manifests/m1.avro")] = CList FAvro ["metadata/manifests/m1.avro"]
  /\ as_list (list_records_content ex_ext [ex_list_record (JStr "metadata/manifests/m1.avro"); ex_list_record JNull]) = None
  /\ accepts ex_ext gen_list_record_shape (JObj [("manifest_length", JNum 10)]) = false.
Proof.
  split; [vm_compute; reflexivity|]. split; [vm_compute; reflexivity|]. split; [discriminate|].
  split; [eexists; split; vm_compute; reflexivity|].
  repeat split; vm_compute; reflexivity.
Qed.

(* Non-vacuity of C07_dangling_current_refused / C07_run_protects_current_snapshot / C07_json_section_lost_aborts: the example
   document with its snapshots section emptied in place (`snapshots: []`, current_snapshot_id still 1) is accepted by the
   READER (a well-formed document) and dangling: refused by the collector; with current_snapshot_id null or -1 the same empty
   list is "no snapshot yet" and the collection runs.  A legacy JSON manifest list with its section is read; `{}`, the section
   under another key, null or an empty object in its place are not lists; in the example store with l2 replaced by such a
   document the collection aborts in the list phase. *)
Definition ex_json_list (v : option jv) : jv := JObj (match v with Some x => [("manifests", x)] | None => [("manifestz", JArr [])] end).
Definition ex_json_lost : store := replace_body "metadata/manifests/l2.avro" (list_json_content ex_ext (JObj [])) ex_st.
Example C07_dangling_nonvacuous :
  accepts ex_ext gen_metadata_shape (ex_doc_with (Some (JArr []))) = true /\ dangling_current (ex_doc_with (Some (JArr [])))
  /\ collect_doc ex_ext "data" 1000 1000000 86400000 no_faults (ex_doc_with (Some (JArr []))) ex_st = DocRefused
  /\ ~ dangling_current ex_doc
  /\ (exists r, collect_doc ex_ext "data" 1000 1000000 86400000 no_faults nv_leftover ex_st = DocRun r
                 /\ In "metadata/manifests/l2.avro" (doc_lists nv_leftover))
  /\ list_json_content ex_ext (ex_json_list (Some (JArr [ex_list_record (JStr "metadata/manifests/m1.avro")]))) = CList FJson ["metadata/manifests/m1.avro"]
  /\ as_list (list_json_content ex_ext (JObj [])) = None
  /\ as_list (list_json_content ex_ext (ex_json_list None)) = None
  /\ as_list (list_json_content ex_ext (ex_json_list (Some JNull))) = None
  /\ as_list (list_json_content ex_ext (ex_json_list (Some (JObj [])))) = None
  /\ as_manifest (manifest_json_content ex_ext (JObj [])) = None
  /\ wf_store ex_snaps ex_json_lost /\ ref_list ex_snaps "metadata/manifests/l2.avro"
  /\ (r_out (run_with no_faults ex_json_lost), r_deleted (run_with no_faults ex_json_lost)) = (Aborted PhLists, []).
Proof.
  split; [vm_compute; reflexivity|]. split.
  { exists (JNum 1), []. repeat split; try (vm_compute; reflexivity); [discriminate|intros it []]. }
  split; [vm_compute; reflexivity|]. split.
  { intros [c [items [Gc [Gs [_ [_ Hno]]]]]]. vm_compute in Gc. inversion Gc; subst c. vm_compute in Gs. inversion Gs; subst items.
    specialize (Hno _ (or_introl eq_refl) (JNum 1) eq_refl). discriminate. }
  split; [eexists; split; [vm_compute; reflexivity|vm_compute; auto]|].
  split; [vm_compute; reflexivity|]. split; [vm_compute; reflexivity|]. split; [vm_compute; reflexivity|].
  split; [vm_compute; reflexivity|]. split; [vm_compute; reflexivity|]. split; [vm_compute; reflexivity|].
  split; [apply wf_storeb_sound; vm_compute; reflexivity|].
  split; [exists "metadata/manifests/l2.avro"; repeat split; simpl; auto|].
  vm_compute. reflexivity.
Qed.

(* ---- a marker that cannot be stat'ed.  The per-marker decision kernel of _load_inflight_protection is REGENERATED from the
   source (translator/gen_gcmarker.py -> Gen/GenGCMarker.v: age_ok as a function of the stat's answer -- None = it raised, any
   exception class --, whether the marker is deleted, whether its targets are protected); the translator refuses a loader
   whose markers are not the result of storage.list_files itself (a listing helper that stats or filters entries decides on
   its own which markers the collector sees), whose handlers are narrower than `Exception`, or that calls any other storage
   operation.

   For every cutoff, and whichever way a delete would go: a marker whose stat RAISES counts as fresh, is not deleted, and
   its targets are protected. *)
Theorem C07_marker_stat_failure_protects : forall (cutoff : Z) (del_ok : bool),
  gen_marker_age_ok cutoff None = true
  /\ gen_marker_delete_attempted (gen_marker_age_ok cutoff None) = false
  /\ gen_marker_protects (gen_marker_age_ok cutoff None) del_ok = true.
Proof. exact marker_stat_failure_protects. Qed.
Print Assumptions C07_marker_stat_failure_protects.

(* The kernel fails closed in general: the ONLY way a listed marker's targets are not protected is a stat that ANSWERED
   with a time older than the cutoff, followed by a delete of the marker that succeeded. *)
Theorem C07_marker_kernel_fail_closed : forall (cutoff : Z) (st : option Z) (del_ok : bool),
  gen_marker_protects (gen_marker_age_ok cutoff st) del_ok = false ->
  exists t, st = Some t /\ t < cutoff /\ gen_marker_delete_attempted (gen_marker_age_ok cutoff st) = true /\ del_ok = true.
Proof. exact marker_kernel_fail_closed. Qed.
Print Assumptions C07_marker_kernel_fail_closed.

(* The marker loop of the collector model (Model/GC.v markers_loop, over which C07_fail_closed / C07_marker_keep are proved)
   IS the loop built from the regenerated kernel: one step = stat, name test, targets, delete iff the kernel says so,
   targets added iff the kernel says so.  A change of the source's stat-failure branch, age test or delete-failure branch
   changes Gen/GenGCMarker.v and this equation no longer holds. *)
Theorem C07_marker_loop_regenerated : forall (tp : string) (cutoff : Z) (o : oracle) (mp : key) (r : list key) (g : gst) (prot : list key),
  markers_loop tp cutoff o g (mp :: r) prot =
  let (prot1, g1) := marker_step_gen tp cutoff o g mp prot in markers_loop tp cutoff o g1 r prot1.
Proof. exact markers_loop_regenerated. Qed.
Print Assumptions C07_marker_loop_regenerated.

(* For EVERY fault oracle (any fault class at the stat, anything before and after) and every list of remaining markers: when
   the stat of a listed marker is faulted, the marker is not deleted (the store after its turn is the store before) and
   everything it denotes (payload path, or the name fallback) is in the protected set the loop returns. *)
Theorem C07_marker_stat_fault_keeps_protection :
  forall (tp : string) (cutoff : Z) (o : oracle) (g : gst) (mp : key) (r : list key) (prot : list key) (f : fault) (prot' : list key) (g' : gst),
  o (g_calls g) = Some f ->
  endswith INFLIGHT_SUFFIX (basename (normalize_path tp mp)) = true ->
  markers_loop tp cutoff o g (mp :: r) prot = (prot', g') ->
  exists T g1 g2,
    do_stat o g (normalize_path tp mp) = (None, g1)
    /\ marker_targets tp o g1 (normalize_path tp mp) (basename (normalize_path tp mp)) = (T, g2)
    /\ g_store g2 = g_store g
    /\ markers_loop tp cutoff o g2 r (T ++ prot)%list = (prot', g')
    /\ (markers_wf (g_store g) -> incl T prot').
Proof. exact marker_stat_fault_keeps_protection. Qed.
Print Assumptions C07_marker_stat_fault_keeps_protection.

(* non-vacuity: a store with a live transaction's marker (payload names the data file) whose stat -- storage call 0 -- fails
   with each fault class: the data file is protected and the marker stays; without the fault and with an old marker that is
   deleted, it is not. *)
Definition mk_st : store :=
  [("metadata/inflight/f1.parquet.inflight", mkObj 5 (CMarker (Some "data/f1.parquet"))); ("data/f1.parquet", mkObj 1 CData)].
Definition mk_run (o : oracle) := markers_loop "/t" 100 o (mkG 0 mk_st []) ["metadata/inflight/f1.parquet.inflight"] [].
Example C07_marker_stat_nonvacuous :
  endswith INFLIGHT_SUFFIX (basename (normalize_path "/t" "metadata/inflight/f1.parquet.inflight")) = true
  /\ (fst (mk_run (oracle_of [(0%nat, FRaise)])), map fst (g_store (snd (mk_run (oracle_of [(0%nat, FRaise)])))))
       = (["data/f1.parquet"], ["metadata/inflight/f1.parquet.inflight"; "data/f1.parquet"])
  /\ fst (mk_run (oracle_of [(0%nat, FRaiseX)])) = ["data/f1.parquet"]
  /\ fst (mk_run (oracle_of [(0%nat, FBad)])) = ["data/f1.parquet"]
  /\ (fst (mk_run no_faults), map fst (g_store (snd (mk_run no_faults)))) = ([], ["data/f1.parquet"])
  /\ gen_marker_protects (gen_marker_age_ok 100 (Some 5)) true = false.
Proof. repeat split; vm_compute; reflexivity. Qed.

(* ---- a listing that fails BELOW the backend interface.  LocalStorageBackend.list_files has two places where a failure of the
   operating system can be swallowed -- the guard in front of the walk and os.walk's treatment of directories it cannot scan;
   both are REGENERATED from the source (translator/gen_locallist.py -> Gen/GenLocalList.v) as predicates over the failure's
   class (absent = "the object is not there": FileNotFoundError / NotADirectoryError; otherwise EACCES, EIO, ESTALE, ...).
   Model/LocalList.v local_list_outcome puts them together.  For every combination of failures: a listing that returns
   without raising although something could not be looked at comes only from "not there" failures -- any other failure
   propagates (to the collector: a raising listing call). *)
Theorem C07_local_listing_fails_closed : forall (probe walk : option bool),
  local_list_outcome probe walk = LShort -> probe = Some true \/ (probe = None /\ walk = Some true).
Proof. exact local_listing_fails_closed. Qed.
Print Assumptions C07_local_listing_fails_closed.

(* ... and a marker listing that raises -- any exception class, for every fault oracle, whatever it does afterwards -- ends the
   loading of the in-flight protection with "aborted" (the regenerated handler: catches Exception, raises
   GarbageCollectionAborted) and leaves the store as it was. *)
Theorem C07_marker_listing_raise_aborts : forall (tp : string) (timeout now : Z) (o : oracle) (g : gst) (f : fault),
  o (g_calls g) = Some f -> f <> FBad ->
  gen_marker_listing_failure_aborts = true
  /\ fst (load_protection tp timeout now o g) = None
  /\ g_store (snd (load_protection tp timeout now o g)) = g_store g.
Proof. exact marker_listing_raise_aborts. Qed.
Print Assumptions C07_marker_listing_raise_aborts.

Example C07_local_listing_nonvacuous :
  local_list_outcome (Some false) None = LRaise /\ local_list_outcome None (Some false) = LRaise
  /\ local_list_outcome (Some true) None = LShort /\ local_list_outcome None None = LComplete
  /\ fst (load_protection "/t" 10 100 (oracle_of [(0%nat, FRaise)]) (mkG 0 mk_st [])) = None.
Proof. repeat split; vm_compute; reflexivity. Qed.
