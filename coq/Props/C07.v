(* Props/C07.v -- Garbage collection fails closed.
   Only theorem statements, each closed by `exact <lemma>`, with Print Assumptions beneath.
   Model: Model/GC.v with a fault oracle `nat -> option fault` indexed by storage-call number
   (FRaise: the call raises; FBad: exists -> False, read/open -> unparseable bytes, listing -> an extra
   "../x" entry, stat/delete -> raises); any number of faults, anywhere. *)
From Coq Require Import ZArith String Ascii List Bool.
Require Import DS.Model.PyStr DS.Gen.GenNorm DS.Model.GC DS.Proofs.GCNormProofs DS.Proofs.GCProofs.
Import ListNotations.
Open Scope string_scope.
Open Scope Z_scope.

(* For EVERY fault oracle: an abort raised while reachability or in-flight protection is being
   established happens before the first delete; and whatever happens (completion, or an abort raised by
   a sweep's listing), every deleted file is unreferenced, not registered by a live transaction and
   older than the grace period -- absorbed faults never shrink protection below the live set; nothing
   else disappears except markers older than the abandonment timeout; and a marker that is still
   present afterwards (fresh, or its stat / delete failed) protected everything it denotes. *)
Theorem C07_fail_closed : forall (tp : string) (grace now timeout : Z) (o : oracle) (snaps : list string) (st : store),
  wf_store snaps st -> gc_safe_spec now grace timeout snaps st (gc_run tp grace now timeout o snaps st).
Proof. exact gc_safe_all_faults. Qed.
Print Assumptions C07_fail_closed.
