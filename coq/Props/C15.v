(* Props/C15.v -- Table metadata stays well-formed through every history.
   Only theorem statements, each closed by `exact <lemma>`, with Print Assumptions beneath.

   Vocabulary: Model/Meta.v (the executable mirror of the mutators; `step_full`, `run`, `grun` with the ghost
   history), Model/MetaSpec.v (WF, anc, entries_ok, mlog_ok, fresh_ops), Gen/GenRepoint.v (the repointing walk,
   REGENERATED from snapshot_manager.repoint_parents_to_surviving_ancestors), Proofs/RepointProofs.v for the graph
   vocabulary (pstep/reach/acyclic/nsa/walk_post).

   Hypothesis of the history theorems: `fresh_ops f0 ops` -- snapshot ids are positive and never repeat, metadata
   file names never repeat (what uuid4 provides).  Timestamps are arbitrary (equal, decreasing). *)
From Coq Require Import ZArith List Bool Sorted Lia.
Require Import DS.Model.MetaBase DS.Gen.GenRepoint DS.Model.Meta DS.Model.MetaSpec.
Require Import DS.Proofs.RepointProofs DS.Proofs.MetaProofs.
Require Import DS.Model.MetaPy DS.Gen.GenMeta DS.Proofs.MetaGenProofs DS.Gen.GenFileOps DS.Proofs.FileOpsGenProofs.
Require Import DS.Model.CommitBase DS.Gen.GenCommit DS.Proofs.StepGenProofs.
Require Import DS.Model.ManifestCodec DS.Gen.GenEntryCodec DS.Proofs.EntryCodecProofs.
Require Import DS.Proofs.CurEmptyProofs.
Import ListNotations.
Open Scope Z_scope.

(* After ANY sequence of operations (transactions with any mix of appends / deletes / expiries, delete_snapshot,
   retention and metadata-log-bound property changes; no bound on length; arbitrary timestamps):
   the current snapshot is retained or there is none; every parent link is nothing or a retained TRUE ancestor in
   the ghost history; retained snapshots are committed ones, unchanged but for the parent, with unique ids;
   sequence numbers strictly increase in commit order and never exceed last_sequence_number; the snapshot log is
   exactly the retained snapshots in commit order. *)
Theorem C15_wf_invariant : forall (t0 f0 : Z) (ops : list op),
  fresh_ops f0 ops -> WF (hist_of t0 f0 ops) (md (replay t0 f0 ops)).
Proof. exact wf_invariant. Qed.
Print Assumptions C15_wf_invariant.

(* ... and "or the table is empty" is meant literally: WF's first conjunct allows a table without a current snapshot;
   after any history such a table (current_snapshot_id null or the -1 sentinel) retains NO snapshot at all -- deleting the
   current snapshot repoints to a survivor whenever there is one, expiry and retention never drop the current one. *)
Theorem C15_no_current_means_empty : forall (t0 f0 : Z) (ops : list op), fresh_ops f0 ops ->
  nil_link (cur (md (replay t0 f0 ops))) -> snaps (md (replay t0 f0 ops)) = [].
Proof. exact cur_nil_means_empty. Qed.
Print Assumptions C15_no_current_means_empty.

(* ... in particular, read in snapshot-log order the retained snapshots' sequence numbers strictly increase *)
Theorem C15_seq_in_log_order : forall (H : list snap) (m : meta), WF H m ->
  StronglySorted Z.lt (map seq (retained_in_commit_order H m)) /\
  map snd (slog m) = map sid (retained_in_commit_order H m) /\
  (forall s, In s (snaps m) -> exists h, In h (retained_in_commit_order H m) /\ sid h = sid s /\ seq h = seq s).
Proof. exact wf_seq_in_log_order. Qed.
Print Assumptions C15_seq_in_log_order.

(* last_sequence_number never decreases -- for every state and operation, no hypothesis *)
Theorem C15_last_seq_mono : forall (st : state) (o : op), last_seq (md st) <= last_seq (md (step st o)).
Proof. exact step_last_seq_mono. Qed.
Print Assumptions C15_last_seq_mono.

(* no operation of any history takes one of the code's "metadata is inconsistent" exits
   (dangling current_snapshot_id in _commit_file_ops; mutator removed the snapshot being committed) *)
Theorem C15_no_abort : forall (t0 f0 : Z) (ops : list op) (o : op),
  fresh_ops f0 (ops ++ [o]) -> snd (fst (step_full (replay t0 f0 ops) o)) <> Aborted.
Proof. exact step_never_aborts. Qed.
Print Assumptions C15_no_abort.

(* Repointing, all forests: on EVERY acyclic parent map (any number of snapshots, dangling links, -1 / None roots,
   duplicated ids with last-binding-wins), every kept set and every link, the regenerated walk returns r exactly
   when r is the nearest surviving ancestor. *)
Theorem C15_repoint_nearest : forall (po : list (Z * option Z)) (kept : list Z) (start r : option Z),
  acyclic po -> (gen_repoint_one po kept start = Some r <-> nsa po kept start r).
Proof. exact gen_repoint_one_nearest. Qed.
Print Assumptions C15_repoint_nearest.

(* ... and `nsa` is what it says: nothing / -1, or a kept id reached through removed snapshots only *)
Theorem C15_nearest_is_ancestor : forall (po : list (Z * option Z)) (kept : list Z) (start r : option Z),
  nsa po kept start r ->
  nil_id r \/ exists k, r = Some k /\ In k kept /\
     (start = Some k \/ exists p, start = Some p /\ ~ In p kept /\ p <> -1 /\ chain_removed po kept p k).
Proof. exact nsa_sound. Qed.
Print Assumptions C15_nearest_is_ancestor.

(* Repointing, corrupt metadata: on EVERY parent map, cyclic or not, the walk terminates within the fuel the model
   gives it and yields nothing, -1, or a kept id reachable by parent links (never an invented link). *)
Theorem C15_repoint_cycle : forall (po : list (Z * option Z)) (kept : list Z) (start : option Z),
  exists r, gen_repoint_one po kept start = Some r /\ walk_post po kept start r.
Proof. exact gen_repoint_one_total. Qed.
Print Assumptions C15_repoint_cycle.

(* The whole function (dict comprehension + per-survivor loop + write-back) as Model/Meta.v frames the generated
   walk: on an acyclic snapshot list every survivor keeps id / timestamp / sequence number / manifests and receives
   the nearest surviving ancestor of its old link; on ANY list it receives nothing or a kept, reachable id. *)
Theorem C15_repoint_all : forall (all kept : list snap) (s' : snap), In s' (repoint_all all kept) ->
  (exists s, In s kept /\ sid s' = sid s /\ walk_post (parent_map all) (map sid kept) (parent s) (parent s')) /\
  (acyclic (parent_map all) ->
   exists s, In s kept /\ sid s' = sid s /\ ts s' = ts s /\ seq s' = seq s /\ mlist s' = mlist s /\
             nsa (parent_map all) (map sid kept) (parent s) (parent s')).
Proof.
  intros all kept s' Hin. split; [exact (repoint_all_safe all kept s' Hin)|intro Hac; exact (repoint_all_nearest all kept s' Hac Hin)].
Qed.
Print Assumptions C15_repoint_all.

(* the current snapshot is never expired, neither by expire_snapshots nor by the retention property *)
Theorem C15_current_kept : forall (m : meta) (x : Z), cur m = Some x -> In x (sids m) ->
  (forall cutoff, cur (expire cutoff m) = Some x /\ In x (sids (expire cutoff m))) /\
  (cur (apply_retention m) = Some x /\ In x (sids (apply_retention m))).
Proof.
  intros m x Hc Hx. split; [intro cutoff; exact (expire_keeps_current cutoff m x Hc Hx)|exact (retention_keeps_current m x Hc Hx)].
Qed.
Print Assumptions C15_current_kept.

(* a file delete removes exactly the named files (either spelling); survivors keep path, adding snapshot and
   sequence number; rewritten manifests hold EXISTING entries only and are never empty *)
Theorem C15_delete_exact : forall (ps : list path) (mfs : list manifest),
  map ekey (entries (apply_deletes ps mfs)) = map ekey (filter (fun e => negb (named ps e)) (entries mfs))
  /\ (forall mf', In mf' (apply_deletes ps mfs) -> In mf' mfs \/ (mf' <> [] /\ Forall (fun e => estatus e = ST_EXISTING) mf'))
  /\ (forall e, named ps e = true <-> exists p, In p ps /\ lstrip p = lstrip (epath e)).
Proof. exact delete_exact. Qed.
Print Assumptions C15_delete_exact.

(* ... and this is what every committing transaction does with it: the new snapshot lists exactly the base
   snapshot's entries that no queued delete names (path / adding snapshot / sequence number unchanged, order kept),
   followed by the appended files stamped with the new snapshot's id and sequence number. No hypothesis. *)
Theorem C15_txn_files : forall (st : state) (ops : list txop) (id t tu f : Z) (st' : state) (s : snap),
  step_full st (Txn ops id t tu f) = (st', Committed, Some s) ->
  exists base, base_manifests (md st) = Some base /\
    sid s = id /\ seq s = last_seq (md st) + 1 /\
    map ekey (entries (mlist s)) =
      map ekey (filter (fun e => negb (named (tx_dels ops) e)) (entries base))
      ++ map (fun p => (p, id, last_seq (md st) + 1)) (tx_adds ops).
Proof. exact txn_snapshot_files. Qed.
Print Assumptions C15_txn_files.

(* A path can be registered more than once (append_files accepts a file that is already listed; a re-run ingestion
   job does exactly that): in several manifests, or several times in one.  A delete reaches EVERY registration: no
   entry that survives is named, wherever it sat in the manifest list and however many registrations of the same
   path preceded it; in the snapshot a transaction commits, an entry named by a queued delete can only be one of the
   transaction's own appends. *)
Theorem C15_delete_complete : forall (ps : list path) (mfs : list manifest) (e : entry),
  In e (entries (apply_deletes ps mfs)) -> named ps e = false.
Proof. exact delete_complete. Qed.
Print Assumptions C15_delete_complete.

Theorem C15_txn_delete_complete : forall (st : state) (ops : list txop) (id t tu f : Z) (st' : state) (s : snap) (e : entry),
  step_full st (Txn ops id t tu f) = (st', Committed, Some s) ->
  In e (entries (mlist s)) -> named (tx_dels ops) e = true ->
  estatus e = ST_ADDED /\ eadded e = id /\ eseq e = seq s /\ In (epath e) (tx_adds ops).
Proof. exact txn_delete_complete. Qed.
Print Assumptions C15_txn_delete_complete.

(* non-vacuity for the two statements above: file 1 registered by snapshots 1 and 3 (second time under the other
   spelling) and twice more by snapshot 4 inside one manifest, file 2 in between; deleting file 1 leaves file 2 only *)
Example C15_delete_complete_nonvacuous :
  let e p a := {| epath := p; estatus := ST_ADDED; eadded := a; eseq := a |} in
  map (map ekey) (apply_deletes [(1, 1)] [[e (1, 1) 1]; [e (1, 2) 2]; [e (0, 1) 3]; [e (1, 1) 4; e (1, 2) 4; e (0, 1) 4]])
  = [[((1, 2), 2, 2)]; [((1, 2), 4, 4)]].
Proof. vm_compute. reflexivity. Qed.

(* through every history, every manifest entry of every committed snapshot carries the id and the sequence number
   of the snapshot that added the file (where it appears as an ADDED entry), and that number is <= the snapshot's *)
Theorem C15_entries_provenance : forall (t0 f0 : Z) (ops : list op),
  fresh_ops f0 ops -> entries_ok (hist_of t0 f0 ops).
Proof. exact entries_provenance. Qed.
Print Assumptions C15_entries_provenance.

(* through every history the metadata log is a suffix of the superseded versions (oldest first, each with the
   last_updated_ms that version carried), the current version is the last one committed, and the log respects
   write.metadata.previous-versions-max whenever that bound is >= 1 (unset / invalid = 100) *)
Theorem C15_mlog_ok : forall (t0 f0 : Z) (ops : list op),
  fresh_ops f0 ops -> mlog_ok (versions_of t0 f0 ops) (replay t0 f0 ops).
Proof. exact mlog_invariant. Qed.
Print Assumptions C15_mlog_ok.

(* Every metadata-log entry is one of the versions committed BEFORE the current one (file and the last_updated_ms it
   carried) and never the current file itself.  The model builds the entry from the current version as resolved
   (`curfile`), not from the bytes of the version pointer: the harness ties this to the code with histories whose
   pointer is legacy / padded / dangling / ahead / missing / unreadable at the moment of the commit, and with the
   newest version file lost while the pointer naming it survives, judging the log against the files on disk. *)
Theorem C15_mlog_names_superseded : forall (t0 f0 : Z) (ops : list op) (e : Z * Z),
  fresh_ops f0 ops -> In e (mlog (md (replay t0 f0 ops))) ->
  In e (removelast (versions_of t0 f0 ops)) /\ snd e <> curfile (replay t0 f0 ops).
Proof. exact mlog_names_superseded. Qed.
Print Assumptions C15_mlog_names_superseded.

(* The mutators the theorems above reason about are the functions of the SOURCE: Model/Meta.v's expire,
   apply_retention, most_recent, by_timestamp and append_mlog are equal, for ALL inputs, to the definitions the
   translator regenerates on every run from Transaction._make_expire_mutator, SnapshotManager._apply_retention,
   _most_recent_snapshot_id, get_snapshot_by_timestamp, delete_snapshot (between its refresh and its commit) and
   MetadataManager._append_metadata_log (Gen/GenMeta.v;
   statement-by-statement translation over the Python primitives of Model/MetaPy.v).  A change to one of those
   functions changes the generated term, and this theorem -- and with it the tie of every history theorem of this
   file to the code -- is re-checked against it.  (_most_recent_snapshot_id never raises: PyOk.) *)
Theorem C15_mutators_regenerated :
  (forall cutoff m, gen_expire cutoff m = expire cutoff m)
  /\ (forall m, gen_apply_retention m = apply_retention m)
  /\ (forall m, gen_most_recent m = PyOk (most_recent m))
  /\ (forall m t, gen_by_timestamp (snaps m) t = by_timestamp m t)
  /\ (forall p log bu pf, gen_append_mlog p log bu pf = append_mlog p log bu pf)
  /\ (forall m id, gen_delete_snapshot m id = PyOk (delete_snapshot m id)).
Proof.
  split; [exact gen_expire_agrees|]. split; [exact gen_apply_retention_agrees|]. split; [exact gen_most_recent_agrees|].
  split; [exact gen_by_timestamp_agrees|]. split; [exact gen_append_mlog_agrees | exact gen_delete_snapshot_agrees].
Qed.
Print Assumptions C15_mutators_regenerated.

(* ... and so are the steps of a file transaction: the partitioning of the queued operations and the file / metadata-only
   dispatch (Transaction.commit), the base snapshot's manifests (PyRaise = dangling current_snapshot_id: the commit
   aborts), the delete rewrite that carries manifests into the new snapshot -- untouched manifests as they are, partially
   deleted ones rewritten with the survivors as EXISTING entries keeping their adding snapshot and sequence number,
   fully deleted ones dropped --, the ADDED manifest of the appended files after them, and the sequence number / parent
   stamped into the new snapshot (Transaction._commit_file_ops; Gen/GenFileOps.v).  The file manager's contract
   (reading a manifest returns its entries; create_manifest_file's EXISTING / ADDED entries) is the model's, tied by
   the correspondence. *)
Theorem C15_file_ops_regenerated :
  (forall ops, gen_partition ops = (tx_adds ops, tx_dels ops, tx_expire ops))
  /\ (forall adds dels : list path, gen_is_file_txn adds dels = false <-> (adds = [] /\ dels = []))
  /\ (forall m, gen_base_manifests m = match base_manifests m with Some l => PyOk l | None => PyRaise end)
  /\ (forall ps mfs, gen_final_manifests ps mfs = apply_deletes ps mfs)
  /\ (forall id sq adds fin, gen_append_manifests id sq adds fin = fin ++ append_manifest id sq adds)
  /\ (forall m id t ml, seq (new_snap m id t ml) = gen_seq m /\ parent (new_snap m id t ml) = gen_parent m).
Proof.
  split; [exact gen_partition_agrees|]. split; [exact gen_is_file_txn_spec|]. split; [exact gen_base_manifests_agrees|].
  split; [exact gen_final_manifests_agrees|]. split; [exact gen_append_manifests_agrees | exact gen_stamps_agree].
Qed.
Print Assumptions C15_file_ops_regenerated.

(* Put together: ONE STEP of the sequential machine over which every history theorem of this file is proved is, for every
   state and operation, the composition of the regenerated kernels -- a transaction (partitioning, dispatch, base manifests,
   delete rewrite, append manifest, create_snapshot with the expiry folded in, retention) and a snapshot deletion, each
   followed by MetadataManager.commit's stamp rule (Gen/GenCommit.v gen_new_lu) and metadata log.  create_snapshot (statement
   shape checked one by one, metadata update emitted) included.  The GLUE between the kernels (StepGenProofs.gen_txn_meta: no commit
   for an empty queue, the metadata-only branch, which kernel feeds which; gen_md_commit: which fields the stamp and the log
   use) is HAND-WRITTEN there, despite the gen_ prefix, after the call structure that translator/gen_fileops.py pins: so `replay`
   is the fold of regenerated kernels composed by hand-written glue; the glue, the file manager's contract and the I/O around
   the kernels are what the `histories` correspondence compares with the code. *)
Theorem C15_step_regenerated :
  (forall st ops id t tu f,
     step_full st (Txn ops id t tu f) =
     match gen_txn_meta (md st) ops id t with
     | PyOk None => (st, NoCommit, None)
     | PyRaise => (st, Aborted, None)
     | PyOk (Some m') =>
         (gen_md_commit st m' tu f, Committed,
          if gen_is_file_txn (tx_adds ops) (tx_dels ops)
          then match base_manifests (md st) with
               | Some base => Some (new_snap (md st) id t (apply_deletes (tx_dels ops) base ++ append_manifest id (last_seq (md st) + 1) (tx_adds ops)))
               | None => None
               end
          else None)
     end)
  /\ (forall st id tu f,
     step_full st (DeleteSnap id tu f) =
     match gen_delete_snapshot (md st) id with
     | PyOk None => (st, NoCommit, None)
     | PyOk (Some m') => (gen_md_commit st m' tu f, Committed, None)
     | PyRaise => (st, Aborted, None)
     end)
  /\ (forall m id t ml cut,
     gen_create_snapshot m id t ml (gen_parent m) (gen_seq m) cut
     = match create_snapshot m id t ml cut with Some m' => PyOk m' | None => PyRaise end).
Proof.
  split; [exact txn_step_regenerated|]. split; [exact delete_step_regenerated|]. exact gen_create_snapshot_agrees.
Qed.
Print Assumptions C15_step_regenerated.

(* The file manager's side of "files carried through manifest rewrites keep their original adding snapshot and sequence
   number": the manifest ENTRY codec, regenerated field by field from FileManager.create_manifest_file (the `record`
   literal and the stamp of an entry) and read_manifest_file (Gen/GenEntryCodec.v), loses nothing.  For every DataFile:
   an entry written as ADDED and read back carries the committing snapshot's id and sequence number; carried through a
   later rewrite as EXISTING it still carries THOSE, and its path, size, row count, checksum and column bounds are
   what they were (an empty bounds / statistics map reads back as none).  Hypotheses: the inverse laws of the
   primitive codecs -- int(str(k)) = k, _safe_int(n) = n on ints, and _decode_bound(_encode_bound(v)) = v on the
   values a bound can take (that law, for the regenerated bound codec, is C13_bound_roundtrip). *)
Theorem C15_entry_codec_preserves :
  forall (bval ebound skey : Type) (enc : bval -> ebound) (dec : ebound -> bval) (str_of : Z -> skey) (int_of : skey -> Z)
         (safe_int pstr : Z -> Z),
  (forall k, int_of (str_of k) = k) ->
  forall okb : bval -> bool, (forall v, okb v = true -> dec (enc v) = v) -> (forall z, safe_int z = z) ->
  forall (id : Z) (sq : option Z) (id' : Z) (sq' : option Z) (df : datafile bval), bounds_ok bval okb df ->
  let once := gen_read_entry bval ebound skey dec int_of
                (gen_write_entry bval ebound skey enc str_of safe_int pstr gen_status_added id sq df) in
  let twice := gen_read_entry bval ebound skey dec int_of
                (gen_write_entry bval ebound skey enc str_of safe_int pstr gen_status_existing id' sq' once) in
  df_checksum twice = df_checksum df /\ df_lower twice = norm_map (df_lower df) /\ df_upper twice = norm_map (df_upper df)
  /\ df_path twice = df_path df /\ df_count twice = df_count df /\ df_size twice = df_size df
  /\ df_added twice = Some id /\ df_seq twice = sq.
Proof. exact rewrite_preserves. Qed.
Print Assumptions C15_entry_codec_preserves.

(* ------------------------------------------------------------------ C09 pieces proved over the same model
   (re-exported by Props/C09.v): lookups by timestamp / by id, and deleting the current snapshot. *)

(* With non-decreasing commit timestamps (equal ones allowed; the sort in get_snapshot_by_timestamp is stable),
   lookup by timestamp returns the MOST RECENTLY COMMITTED retained snapshot not newer than t -- or nothing when
   there is none -- after any history. *)
Theorem C09_by_timestamp : forall (t0 f0 : Z) (ops : list op) (t : Z),
  fresh_ops f0 ops -> nondecreasing_ts ops ->
  option_map sid (by_timestamp (md (replay t0 f0 ops)) t) =
  option_map sid (last_opt (filter (fun h => memZ (sid h) (sids (md (replay t0 f0 ops))) && (ts h <=? t))
                                   (hist_of t0 f0 ops))).
Proof. exact by_timestamp_most_recent. Qed.
Print Assumptions C09_by_timestamp.

(* Deleting the current snapshot succeeds and repoints the table to the most recently committed survivor
   (nothing when no snapshot is left), whatever the timestamps. *)
Theorem C09_delete_current : forall (t0 f0 : Z) (ops : list op) (id : Z),
  fresh_ops f0 ops ->
  cur (md (replay t0 f0 ops)) = Some id -> In id (sids (md (replay t0 f0 ops))) ->
  exists m', delete_snapshot (md (replay t0 f0 ops)) id = Some m' /\
    cur m' = option_map sid (last_opt (filter (fun h => memZ (sid h) (sids (md (replay t0 f0 ops))) && negb (sid h =? id))
                                              (hist_of t0 f0 ops))).
Proof. exact delete_current_most_recent. Qed.
Print Assumptions C09_delete_current.

(* Lookup by id returns the retained snapshot with that id: a committed snapshot, unchanged but for its parent. *)
Theorem C09_by_id : forall (t0 f0 : Z) (ops : list op) (id : Z) (s : snap),
  fresh_ops f0 ops -> by_id (md (replay t0 f0 ops)) id = Some s ->
  In s (snaps (md (replay t0 f0 ops))) /\ sid s = id /\ exists h, In h (hist_of t0 f0 ops) /\ same_but_parent h s.
Proof. exact by_id_retained. Qed.
Print Assumptions C09_by_id.

(* ------------------------------------------------------------------ non-vacuity *)
(* A concrete history meets `fresh_ops`, and drives the model through every mutator: three appends (one with a
   delete), delete_snapshot of the middle snapshot, both properties, then a transaction mixing append / expire /
   delete whose expiry removes the new snapshot's parent: the survivor is repointed to its grandparent's parent. *)
Definition ops_ex : list op :=
  [ Txn [TAppend [(1, 1)]] 1 1000 1000 1;
    Txn [TAppend [(1, 2)]] 2 1000 1001 2;
    Txn [TAppend [(1, 3)]; TDelete [(0, 1)]] 3 999 1001 3;
    DeleteSnap 2 1002 4;
    SetPrevMax (PInt 2) 1000 5;
    SetRetention (PInt 2) 1000 6;
    Txn [TAppend [(0, 4)]; TExpire 1000; TDelete [(1, 2); (2, 4)]] 4 1001 1000 7 ].

Example C15_nonvacuous :
  fresh_ops 0 ops_ex
  /\ map (fun s => (sid s, parent s)) (hist_of 1000 0 ops_ex) = [(1, Some (-1)); (2, Some 1); (3, Some 2); (4, Some 3)]
  /\ map (fun s => (sid s, parent s, seq s)) (snaps (md (replay 1000 0 ops_ex))) = [(1, Some (-1), 1); (4, Some 1, 4)]
  /\ slog (md (replay 1000 0 ops_ex)) = [(1000, 1); (1001, 4)]
  /\ mlog (md (replay 1000 0 ops_ex)) = [(1005, 5); (1006, 6)]
  /\ map (map ekey) (match snaps (md (replay 1000 0 ops_ex)) with [_; s4] => mlist s4 | _ => [] end)
     = [[((1, 3), 3, 3)]; [((0, 4), 4, 4)]]
  /\ nondecreasing_ts (firstn 2 ops_ex) /\ ~ nondecreasing_ts ops_ex
  /\ option_map sid (by_timestamp (md (replay 1000 0 ops_ex)) 1000) = Some 1
  /\ option_map cur (delete_snapshot (md (replay 1000 0 ops_ex)) 4) = Some (Some 1)
  /\ (* a cyclic parent map: 1 -> 2 -> 3 -> 1, nothing kept but 9: the link is dropped *)
     gen_repoint_one [(1, Some 2); (2, Some 3); (3, Some 1)] [9] (Some 1) = Some None
  /\ (* an acyclic chain 4 -> 3 -> 2 -> 1 -> -1 with {1} kept: nearest surviving ancestor of 4's parent 3 is 1 *)
     acyclic [(1, Some (-1)); (2, Some 1); (3, Some 2); (4, Some 3)]
  /\ gen_repoint_one [(1, Some (-1)); (2, Some 1); (3, Some 2); (4, Some 3)] [1] (Some 3) = Some (Some 1).
Proof.
  split.
  { unfold fresh_ops, ops_ex. simpl. split; [|split].
    - repeat constructor; simpl; intuition discriminate.
    - repeat constructor.
    - repeat constructor; simpl; intuition discriminate. }
  split; [vm_compute; reflexivity|]. split; [vm_compute; reflexivity|]. split; [vm_compute; reflexivity|].
  split; [vm_compute; reflexivity|]. split; [vm_compute; reflexivity|].
  split; [unfold nondecreasing_ts; simpl; repeat constructor; lia|].
  split.
  { unfold nondecreasing_ts. simpl. intro Hs. inversion Hs as [|? ? ? Hall]; subst.
    inversion Hall as [|? ? ? Hall2]; subst. inversion Hall2 as [|? ? Hbad ?]; subst. lia. }
  split; [vm_compute; reflexivity|]. split; [vm_compute; reflexivity|]. split; [vm_compute; reflexivity|].
  split; [|vm_compute; reflexivity].
  (* acyclicity of the chain: every link strictly decreases the id *)
  assert (Hstep : forall a b, pstep [(1, Some (-1)); (2, Some 1); (3, Some 2); (4, Some 3)] a b -> b < a).
  { intros a b Hs. apply pstep_In in Hs. simpl in Hs. destruct Hs as [Hs|[Hs|[Hs|[Hs|[]]]]]; inversion Hs; subst; lia. }
  assert (Hdec : forall a b, reach [(1, Some (-1)); (2, Some 1); (3, Some 2); (4, Some 3)] a b -> b < a).
  { intros a b Hr. induction Hr as [a b Hs|a b c Hs Hr IH]; [apply Hstep; exact Hs|apply Hstep in Hs; lia]. }
  intros x Hx. apply Hdec in Hx. lia.
Qed.
