(* Props/C03.v -- A crash at any point leaves the table in the pre- or post-operation state.
   Statements only; proofs in Proofs/CommitProofs.v and Proofs/FaultProofs.v.

   ECrash a: the process running transaction a dies at a step boundary -- no handler, no `finally`;
   an exclusive flock is dropped by the kernel, a lease lock stays until it lapses.  Crashes may occur
   anywhere in the event list, for any number of concurrent operations (FProto (ev a ECrash)). *)
From Coq Require Import ZArith List Bool Arith.
Require Import DS.Model.Commit DS.Model.Fault DS.Proofs.CommitProofs DS.Proofs.FaultProofs.
Require DS.Model.HintPrim DS.Model.Hint DS.Proofs.HintPadProofs.
Import ListNotations.
Open Scope Z_scope.

(* Reopening (= reading what the pointer names) yields the serial application of exactly the
   operations whose pointer flip happened: an operation that died is reflected (post-state) iff the
   version pointer had already been advanced by it, otherwise not at all (pre-state). *)
Theorem C03_crash_atomic : forall c m0 kind mr r0 next evs,
  sound c -> (forall f, In f r0 -> (f < next)%nat) ->
  let w := fw (frun c (finit m0 kind mr r0 next) evs) in
  m_ops (file w (w_ptr w)) = m_ops m0 ++ map snd (w_hist w)
  /\ NoDup (map snd (w_hist w))
  /\ forall a, (In a (map snd (w_hist w)) <-> flipped (a_pc (w_actors w a)) = true)
            /\ (a_pc (w_actors w a) = PDone Aborted -> ~ In a (map snd (w_hist w)))
            /\ (a_pc (w_actors w a) = PDone AbortedPost -> In a (map snd (w_hist w))).
Proof. exact crash_atomic. Qed.
Print Assumptions C03_crash_atomic.

(* The reopened table is fully readable: every file referenced by every committed version exists. *)
Theorem C03_readable : forall c m0 kind mr r0 next evs,
  sound c -> (forall f, In f r0 -> (f < next)%nat) ->
  let x := frun c (finit m0 kind mr r0 next) evs in
  forall v, In v (committed (fw x)) -> forall f, In f (refs x v) -> In f (f_present x).
Proof. exact no_damage. Qed.
Print Assumptions C03_readable.

(* A finished -- in particular a dead -- operation does not keep the exclusive lock. *)
Theorem C03_lock_released : forall c m0 kind mr evs a o,
  lockkind c = Excl -> a_pc (w_actors (run c (init_world m0 kind mr) evs) a) = PDone o ->
  w_lock (run c (init_world m0 kind mr) evs) <> Some a.
Proof. exact lock_released. Qed.
Print Assumptions C03_lock_released.

(* The reopened table accepts new commits: from ANY world in which the lock is free (or gives no
   exclusion), an idle committer's seven protocol steps are all enabled and end in an acknowledged,
   reflected commit on top of the current version. *)
Theorem C03_writable : forall c w b now,
  a_pc (w_actors w b) = PIdle -> (lockkind c = GrantAll \/ w_lock w = None) ->
  exists w', run_strict c w (commit_script b (w_ptr w) now) 0 = inl w'
             /\ a_pc (w_actors w' b) = PDone Success
             /\ w_hist w' = w_hist w ++ [(length (w_files w), b)]
             /\ w_ptr w' = length (w_files w).
Proof. exact can_commit. Qed.
Print Assumptions C03_writable.

(* Non-vacuity: actor 0 dies right after its flip (before releasing the lock), actor 1 dies
   between its metadata write and its flip; the table is [op 0]; actor 2 then commits on top. *)
Definition ev a k := {| e_actor := a; e_kind := k |}.
Definition ex_cfg := {| cas := false; lockkind := Excl |}.
Definition ex_init := finit {| m_ops := []; m_cur := 1; m_lu := 100 |} (fun _ => KFresh) (fun _ => 50%nat) [0; 1]%nat 2%nat.
Example C03_nonvacuous :
  let x := frun ex_cfg ex_init
     ([FWrite 0; FProto (ev 0 (EBegin 0)); FProto (ev 0 (ELockTry true)); FProto (ev 0 (EValidate 0 true));
       FProto (ev 0 (EMetaW 100)); FProto (ev 0 (EFence true)); FProto (ev 0 (EFlip true)); FProto (ev 0 ECrash);
       FWrite 1; FProto (ev 1 (EBegin 1)); FProto (ev 1 (ELockTry true)); FProto (ev 1 (EValidate 1 true));
       FProto (ev 1 (EMetaW 100)); FProto (ev 1 ECrash)]
      ++ map FProto (commit_script 2 1 100))%nat in
  map snd (w_hist (fw x)) = [0; 2]%nat /\ m_ops (file (fw x) (w_ptr (fw x))) = [0; 2]%nat
  /\ a_pc (w_actors (fw x) 0%nat) = PDone AbortedPost /\ a_pc (w_actors (fw x) 1%nat) = PDone Aborted
  /\ a_pc (w_actors (fw x) 2%nat) = PDone Success /\ w_lock (fw x) = None /\ all_present x = true.
Proof. vm_compute. repeat split. Qed.

(* "Reopening" is the resolution of the pointer's content by the REGENERATED parser (Gen/GenHint.v): whitespace around the
   content -- a trailing newline left by a shell or an editor, CR LF, blanks -- is invisible to it, whatever the content is
   (a file name, a legacy number, garbage) and whatever the listing holds.  So the pre-state of a crash may carry its
   pointer in any of these spellings (the fork-and-kill runs start from them) and the theorems above, which speak of
   the pointer's VALUE, apply unchanged.  (This is a statement about the parser -- it is the justification of that harness
   dimension; it is not composed with the commit machine above, whose `file w (w_ptr w)` is the reopen.) *)
Theorem C03_pointer_spelling_invisible :
  forall (a l b : list HintPrim.cp) (es : list Hint.entry),
  HintPadProofs.all_space a -> HintPadProofs.all_space b ->
  Hint.parse_hint (Some (a ++ l ++ b)) = Hint.parse_hint (Some l)
  /\ Hint.resolve (Some (Some (a ++ l ++ b))) es = Hint.resolve (Some (Some l)) es.
Proof. exact (fun a l b es Ha Hb => conj (HintPadProofs.parse_padding a l b Ha Hb) (HintPadProofs.resolve_padding a l b es Ha Hb)). Qed.
Print Assumptions C03_pointer_spelling_invisible.

(* Non-vacuity: "v3-0123abcd.metadata.json" followed by a newline / surrounded by blanks parses to version 3 and the bare name *)
Example C03_spelling_nonvacuous :
  let name := Hint.render_name 3%N [0;1;2;3;10;11;12;13]%N in
  HintPadProofs.all_space [HintPrim.acp 10%N] /\ HintPadProofs.all_space [HintPrim.acp 32%N]
  /\ Hint.parse_hint (Some (name ++ [HintPrim.acp 10%N])) = HintPrim.PRet (Some (3%N, name))
  /\ Hint.parse_hint (Some ([HintPrim.acp 32%N] ++ name ++ [HintPrim.acp 32%N; HintPrim.acp 10%N])) = HintPrim.PRet (Some (3%N, name)).
Proof. vm_compute. repeat split; repeat constructor. Qed.
