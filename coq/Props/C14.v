(* Props/C14.v -- Reads fail closed: damaged or missing files raise, never yield partial rows.
   Only theorem statements, each closed by `exact <lemma>`, with Print Assumptions beneath.

   Model: Model/Read.v (the read pipeline of transaction.py / file_manager.py / metadata_manager.py as a
   result-and-trace program over a store of Absent / Present bytes / Flaky site bytes cells; every parser,
   SHA-256 and the recovery scan are function parameters [env], never axioms; the exception classes of the
   two Avro fallbacks come from Gen/GenRead.v, regenerated from the source on every run).

   Hypothesis json_not_avro (all theorems that follow the pipeline through a manifest): bytes accepted by
   the JSON fallback make the Avro attempt raise one of the fallback classes -- Avro containers start with
   the magic "Obj\001", which is not JSON; the harness checks it on every byte string of every run.

   "The current snapshot" on the specification side is the one of the metadata file the POINTER names
   ([spec_meta]: no recovery).  What the code serves is [served_meta]: the same file when it is there, otherwise
   whatever the recovery scan settles on.  The two differ in exactly one case, and there the full-strength
   statements are FALSE of the faithful model of the code (known finding
   current-metadata-file-deleted-serves-previous-version): the current metadata file deleted while the pointer
   still names it -- every API then returns an OLDER version's rows (C14_fail_closed_full_refuted), and on a table
   with a single commit that older version is v0, so the broken table is reported as an EMPTY one
   (C14_not_empty_full_refuted).  C14_fail_closed and C14_not_empty_partial are the full statements minus that
   case; C14_never_partial speaks of the current version when the pointer's file is there, and
   C14_never_partial_of_served_version / C14_not_empty_of_served_version say what still holds of whichever
   version is served (also on a table without a usable pointer, which C10 makes a legitimate state). *)
From Coq Require Import ZArith NArith List Bool String.
Require Import DS.Gen.GenRead DS.Model.Read DS.Proofs.ReadProofs DS.Model.ReadBlocks DS.Proofs.ReadBlocksProofs.
Import ListNotations.
Open Scope list_scope.
Open Scope Z_scope.

(* Every store (any number of damaged files), every read API and option, every file k reachable from
   the current snapshot in role r (metadata file, manifest list, manifest, data file), every damage class
   (Absent; Present bytes the role's parser rejects = unparseable prefix / non-parsing replacement;
   Flaky = transient OSError at a call site) that the API touches: the call raises. *)
Theorem C14_fail_closed : forall (E : env) (st : store) (a : api) (o : opts) (r : role) (k : key),
  json_not_avro E ->
  reach E st r k -> damaged E st r k -> touched E st a o r k ->
  ~ (r = RMeta /\ hinted E st = Some k /\ st k = Absent) ->
  exists e, out (read_current E st a o) = Err e.
Proof. exact fail_closed. Qed.
Print Assumptions C14_fail_closed.

(* All or nothing: an API that returns, returns exactly the answer of the CURRENT snapshot -- the snapshot of the
   metadata file the pointer names: every manifest of the list, every de-duplicated data file of every manifest,
   every row of every file (row_count: the sum over exactly those files); a generator API that completes has yielded
   exactly those rows.  (Hypothesis spec_meta = Some md: the pointer's file is there and parses; without it there is
   no current snapshot to compare with -- see C14_not_empty_full_refuted for what the code does then.) *)
Theorem C14_never_partial : forall (E : env) (st : store) (a : api) (o : opts) (ans : answer) (md : meta),
  json_not_avro E ->
  out (read_current E st a o) = Ok ans ->
  spec_meta E st = Some md ->
  spec_answer E st a md = Some ans
  /\ yielded (read_current E st a o) = match ans with ARows rows => rows | ACount _ => [] end.
Proof. exact never_partial_current. Qed.
Print Assumptions C14_never_partial.

(* The same of whichever version the resolution SERVES (the pointer's file, or what the recovery scan settles on
   when the pointer is missing / unparseable / names a missing file): no subset of THAT version's rows either.
   This is not a statement about the current snapshot when the two differ. *)
Theorem C14_never_partial_of_served_version : forall (E : env) (st : store) (a : api) (o : opts) (ans : answer) (md : meta),
  json_not_avro E ->
  out (read_current E st a o) = Ok ans ->
  served_meta E st = Some md ->
  spec_answer E st a md = Some ans
  /\ yielded (read_current E st a o) = match ans with ARows rows => rows | ACount _ => [] end.
Proof. exact never_partial. Qed.
Print Assumptions C14_never_partial_of_served_version.

(* A broken table is never reported as an empty one (nor as anything else) -- PARTIAL: under the extra hypothesis
   that the pointer does not name a metadata file that is gone.  Then a dangling current_snapshot_id, a missing
   manifest list, a missing manifest all raise, in every API.  The statement without that hypothesis is
   C14_not_empty_full below, refuted. *)
Theorem C14_not_empty_partial : forall (E : env) (st : store) (a : api) (o : opts),
  json_not_avro E ->
  (forall mk, hinted E st = Some mk -> st mk <> Absent) ->
  broken_table E st ->
  exists e, out (read_current E st a o) = Err e.
Proof. exact not_empty_partial. Qed.
Print Assumptions C14_not_empty_partial.

(* Whichever version is served (see above), if ITS snapshot is broken -- dangling id, manifest list gone, a manifest
   gone -- every API raises: also on a table without a usable pointer. *)
Theorem C14_not_empty_of_served_version : forall (E : env) (st : store) (a : api) (o : opts) (md : meta),
  json_not_avro E -> served_meta E st = Some md -> broken_snapshot E st md ->
  exists e, out (read_current E st a o) = Err e.
Proof. exact not_empty. Qed.
Print Assumptions C14_not_empty_of_served_version.

(* With verification on, a recorded checksum and changed bytes: the file's read raises CorruptDataError,
   every data-reading API raises, and the error IS CorruptDataError whenever the other data files read
   (sha is a parameter; collision-freedom is assumed on the two byte strings in play only). *)
Theorem C14_checksum : forall (E : env) (st : store) (a : api) (o : opts) (dfs : list dfile) (df : dfile) (b orig : bytes),
  verify o = true -> reads_data a = true ->
  fst (get_all_data_files E st) = Ok dfs -> In df dfs ->
  dsum df = Some (sha E orig) -> st (dpath df) = Present b -> b <> orig ->
  (sha E b = sha E orig -> b = orig) ->
  fst (read_data E st true df) = Err ECorrupt
  /\ (exists e, out (read_current E st a o) = Err e)
  /\ ((forall df', In df' dfs -> df' <> df -> exists t, fst (read_data E st true df') = Ok t) ->
      out (read_current E st a o) = Err ECorrupt).
Proof. exact checksum_detects. Qed.
Print Assumptions C14_checksum.

(* "(the default)": the same for a call that passes no verify_checksums -- default_opts carries
   GenRead.verify_default_on, regenerated from Table._resolve_verify_checksums on every run (no hypothesis on the
   options; with the library's default switched off this theorem does not check). *)
Theorem C14_checksum_by_default : forall (E : env) (st : store) (a : api) (dfs : list dfile) (df : dfile) (b orig : bytes),
  reads_data a = true ->
  fst (get_all_data_files E st) = Ok dfs -> In df dfs ->
  dsum df = Some (sha E orig) -> st (dpath df) = Present b -> b <> orig ->
  (sha E b = sha E orig -> b = orig) ->
  fst (read_data E st (verify default_opts) df) = Err ECorrupt
  /\ (exists e, out (read_current E st a default_opts) = Err e)
  /\ ((forall df', In df' dfs -> df' <> df -> exists t, fst (read_data E st (verify default_opts) df') = Ok t) ->
      out (read_current E st a default_opts) = Err ECorrupt).
Proof. exact checksum_detects_by_default. Qed.
Print Assumptions C14_checksum_by_default.

(* Damage outside what the read touches changes nothing: two stores that agree on every key the call
   accessed give the same outcome and the same storage-call trace (any API, any options). *)
Theorem C14_untouched : forall (E : env) (st st' : store) (a : api) (o : opts),
  (forall k, In k (map fst (trace (read_current E st a o))) -> st' k = st k) ->
  out (read_current E st' a o) = out (read_current E st a o)
  /\ trace (read_current E st' a o) = trace (read_current E st a o).
Proof. exact untouched. Qed.
Print Assumptions C14_untouched.

(* row_count is metadata-only: its accesses are exactly those of the manifest walk, so (by C14_untouched)
   no damage to a data file can change or fail it. *)
Theorem C14_row_count_metadata_only : forall (E : env) (st : store) (o : opts),
  trace (read_current E st RowCount o) = snd (get_all_data_files E st).
Proof. exact row_count_trace. Qed.
Print Assumptions C14_row_count_metadata_only.

(* The outcome of a read depends only on the store at the time of the read, not on earlier reads through the
   same handle: whatever the handle read before (and whatever the store looked like then), the last read of a
   session is read_current on the store as it is now -- so C14_fail_closed / C14_checksum / C14_never_partial
   apply to it unchanged -- whether the earlier reads returned or RAISED (a read that failed half-way through the
   manifests leaves nothing behind).  (True by construction of the model, which gives a handle no read state; that
   the CODE has none is what the same-handle correspondences and oracles observe on every run: read, damage, read
   again; and damage, read (raises), read again with the damage in place and after it has cleared.) *)
Theorem C14_history_independent : forall (E : env) (history : list (store * api * opts)) (st : store) (a : api) (o : opts) (d : result),
  last (read_session E (history ++ [(st, a, o)])) d = read_current E st a o.
Proof. exact history_independent. Qed.
Print Assumptions C14_history_independent.

(* The checksum recorded at write time is the one the reader verifies, through every history: after any sequence
   of commits (each deleting any set of files and appending any files; manifests kept, rewritten with the survivors
   carried over, or dropped), every entry of every manifest of the resulting snapshot still carries the path, the
   record count and the CHECKSUM of the entry some commit appended.  So C14_checksum's hypothesis "a checksum is
   recorded" cannot be lost on the way.  (Over GenRead.gen_entry_checksum, regenerated from create_manifest_file.) *)
Theorem C14_checksum_survives_history : forall (h : list commit) (m : list dfile) (d : dfile),
  In m (run_history h) -> In d m ->
  exists c a, In c h /\ In a (c_appended c) /\ dpath d = dpath a /\ dcount d = dcount a /\ dsum d = dsum a.
Proof. exact checksum_survives_history. Qed.
Print Assumptions C14_checksum_survives_history.

(* No check/use gap, even when the store changes WHILE the call runs (ts n = the store as the call's n-th storage
   operation sees it): the data stage makes exactly one storage operation per data file, and every table it returns
   is the parse of the very bytes that operation returned -- bytes which, with verification on, hash to the recorded
   checksum.  So a change before a file's one read is judged by C14_checksum on the store of that moment, and a
   change after it is not seen at all; rows of bytes that were never hashed cannot be returned. *)
Theorem C14_no_check_use_gap : forall (E : env) (ts : nat -> store) (v : bool) (dfs : list dfile) (t : nat) (tabs : list (list row)),
  fst (data_stage_t E ts t v dfs) = Ok tabs ->
  List.length (snd (data_stage_t E ts t v dfs)) = List.length dfs /\
  forall i df tab, nth_error dfs i = Some df -> nth_error tabs i = Some tab ->
    exists b, cur_bytes (ts (t + i)%nat) (dpath df) = Some b /\ parquet E b = PqOk tab
              /\ (v = true -> forall d, dsum df = Some d -> sha E b = d).
Proof. exact no_check_use_gap. Qed.
Print Assumptions C14_no_check_use_gap.

(* Of a manifest-list entry only the manifest path has read meaning: two decodings of the list that agree on
   every entry's path (and on which bytes fail to decode, and how) give the same outcome, trace and yielded rows in
   every API -- whatever they say about content, manifest_length, partition_spec_id, snapshot id and the counts.
   In particular an entry whose `content` byte was flipped still contributes its manifest; a reader that drops such
   an entry (returns a subset, or an empty table) is not this pipeline. *)
Theorem C14_list_fields_without_read_meaning :
  forall (E : env) (dec dec' : bytes -> avro (list lentry)) (st : store) (a : api) (o : opts),
  (forall b, project_list (dec b) = project_list (dec' b)) ->
  read_current (with_list_decoder E dec) st a o = read_current (with_list_decoder E dec') st a o.
Proof. exact list_fields_without_read_meaning. Qed.
Print Assumptions C14_list_fields_without_read_meaning.

(* When the pointer cannot name the metadata file (missing, unparseable, or naming a file that is gone) the
   version is recovered by listing the metadata directory; a listing that FAILS makes every read API raise -- it
   is never taken for "no metadata", which would report the table as empty. *)
Theorem C14_recovery_listing_fails_closed : forall (E : env) (st : store) (a : api) (o : opts) (b : bytes),
  (forall s b', st HINT <> Flaky s b') ->
  (hinted E st = None \/ exists mk, hinted E st = Some mk /\ st mk = Absent) ->
  st METADIR = Flaky (OpList, 0%nat) b ->
  out (read_current E st a o) = Err EIO.
Proof. exact recovery_listing_fails_closed. Qed.
Print Assumptions C14_recovery_listing_fails_closed.

(* The generator APIs' guard makes a short read impossible to miss: whatever prefix of each row group the batched
   parquet reader hands out (a damaged per-group count, chunk count or offset makes it stop early without an
   error), comparing the number of rows handed out with the file's true row count -- its file-level footer count,
   which is what the code compares with -- lets the read succeed only with ALL rows of ALL groups. *)
Theorem C14_batched_guard_complete : forall (handed groups : list (list row)) (rows : list row),
  Forall2 prefix_of handed groups ->
  guarded_batches (List.length (List.concat groups)) handed = Ok rows ->
  rows = List.concat groups.
Proof. exact batched_guard_complete. Qed.
Print Assumptions C14_batched_guard_complete.

(* ---------------------------------------------------------------------------------------------
   Containers are decoded BLOCK BY BLOCK (Model/ReadBlocks.v): the decoder hands out the records of the leading
   blocks before it meets a block it cannot decode.  The reader's loop returns all records of all blocks or raises:
   whatever the number of blocks, their sizes and the position of the damaged one, a returned list is never the
   records of the leading blocks only. *)
Theorem C14_blocks_all_or_nothing : forall (A : Type) (bs : list (blk A)) (xs : list A),
  collect bs = AvOk xs -> forallb good bs = true /\ xs = all_records bs.
Proof. exact collect_all_or_nothing. Qed.
Print Assumptions C14_blocks_all_or_nothing.

(* ... and the exception is the one of the FIRST bad block, however many records were handed out before it -- those of
   the blocks before ([pre]) and those of the bad block itself that precede its damage ([p]). *)
Theorem C14_blocks_raise_at_first_bad_block : forall (A : Type) (pre : list (blk A)) (p : list A) (m : list string) (tl : list (blk A)),
  forallb good pre = true -> collect (pre ++ BBad p m :: tl) = AvRaise m.
Proof. exact collect_raises_at_first_bad_block. Qed.
Print Assumptions C14_blocks_raise_at_first_bad_block.

(* Through the whole pipeline: a manifest (a manifest list) reachable from the current snapshot with ONE undecodable
   block anywhere -- first, last, in between; any number of good blocks and records before it -- and bytes the JSON
   fallback rejects: every read API raises, with every option. *)
Theorem C14_bad_manifest_block_fails_closed :
  forall (E : env) (lb : bytes -> list (blk (option key))) (mb : bytes -> list (blk dfile)) (st : store) (a : api) (o : opts) (k : key) (b : bytes),
  json_not_avro (with_block_decoders E lb mb) ->
  reach (with_block_decoders E lb mb) st RManifest k ->
  st k = Present b -> forallb good (mb b) = false -> json_man E b = None ->
  exists e, out (read_current (with_block_decoders E lb mb) st a o) = Err e.
Proof. exact bad_manifest_block_fails_closed. Qed.
Print Assumptions C14_bad_manifest_block_fails_closed.

Theorem C14_bad_list_block_fails_closed :
  forall (E : env) (lb : bytes -> list (blk (option key))) (mb : bytes -> list (blk dfile)) (st : store) (a : api) (o : opts) (k : key) (b : bytes),
  json_not_avro (with_block_decoders E lb mb) ->
  reach (with_block_decoders E lb mb) st RList k ->
  st k = Present b -> forallb good (lb b) = false -> json_list E b = None ->
  exists e, out (read_current (with_block_decoders E lb mb) st a o) = Err e.
Proof. exact bad_list_block_fails_closed. Qed.
Print Assumptions C14_bad_list_block_fails_closed.

(* A handle that remembers decoded manifests between calls (the pinned read path has no such component; this is what
   any such component has to satisfy): a cache that registers only the result of a decode that ran to the END is
   invisible -- through any sequence of decodes of any byte strings (failing ones, repeated ones, in any order) every
   outcome is the outcome of decoding afresh; in particular a decode that raised raises again, and nothing a failed
   decode had gathered is ever served.  (Keyed by the identity of the bytes: a stamp that determines the content.) *)
Theorem C14_decode_cache_transparent : forall (dec : bytes -> avro (list dfile)) (reads : list bytes),
  fst (run_decodes dec [] reads) = map dec reads.
Proof. exact cache_transparent. Qed.
Print Assumptions C14_decode_cache_transparent.

(* ... whereas registering the entry BEFORE decoding and filling it record by record is not: one manifest of three
   blocks, the second undecodable, read twice -- the second read returns the entries handed out before the failure. *)
Theorem C14_eager_decode_cache_refuted : ~ eager_transparent.
Proof. exact eager_refuted. Qed.
Print Assumptions C14_eager_decode_cache_refuted.

Example C14_blocks_nonvacuous :
  collect w_blocks_sample = AvRaise ["EOFError"; "Exception"]%string
  /\ fst (stream w_blocks_sample) = [w_df 8%N; w_df 7%N]
  /\ fst (run_eager w_blocks [] [5%N; 5%N]) = [AvRaise ["EOFError"; "Exception"]%string; AvOk [w_df 8%N; w_df 7%N]]
  /\ fst (run_decodes (fun b => collect (w_blocks b)) [] [5%N; 5%N]) = [AvRaise ["EOFError"; "Exception"]%string; AvRaise ["EOFError"; "Exception"]%string]
  /\ collect [BGood [w_df 8%N]; BGood []; BGood [w_df 9%N]] = AvOk [w_df 8%N; w_df 9%N].
Proof. repeat split; vm_compute; reflexivity. Qed.

(* The model does not raise without cause (so the theorems above are not satisfied by a pipeline that
   always fails): with no transient fault anywhere, metadata that resolves, a complete answer on the
   specification side and recorded checksums that match, every API returns exactly that answer. *)
Theorem C14_healthy_ok : forall (E : env) (st : store) (a : api) (o : opts) (md : meta) (ans : answer),
  noflaky st -> served_meta E st = Some md -> spec_answer E st a md = Some ans ->
  (forall s dfs, find_snap md = Some s -> spec_dfiles E st s = Some dfs -> sums_ok E st dfs) ->
  out (read_current E st a o) = Ok ans.
Proof. exact healthy_ok. Qed.
Print Assumptions C14_healthy_ok.

(* ---------------------------------------------------------------------------------------------
   The statement without the exclusion, and why it is false of the code (known finding
   current-metadata-file-deleted-serves-previous-version): pointer -> v2 (deleted); the recovery scan
   finds v1, whose snapshot holds rows 1,2 only; every API returns them instead of raising. *)
Definition C14_fail_closed_full : Prop := forall (E : env) (st : store) (a : api) (o : opts) (r : role) (k : key),
  json_not_avro E ->
  reach E st r k -> damaged E st r k -> touched E st a o r k ->
  exists e, out (read_current E st a o) = Err e.

(* keys: 0 pointer, 4 = v1 metadata, 5 = v2 metadata (gone), 6 list, 7 manifest, 8 data file *)
Definition w_env : env :=
  mk_env [(18, 99)]%N [(10%N, Some 5%N)] (Some 4%N)
         [(11%N, Some {| mcur := Some 1; msnaps := [{| sid := 1; slist := 6%N |}] |})]
         [(16%N, AvOk [Some 7%N])] []
         [(17%N, AvOk [{| dpath := 8%N; dcount := 2; dsum := Some 99%N |}])] []
         [(18%N, PqOk [1; 2])].
Definition w_store : store :=
  store_of [(0, Present 10); (4, Present 11); (6, Present 16); (7, Present 17); (8, Present 18)]%N.

Lemma w_env_wf : json_not_avro w_env.
Proof. split; intros b x H; vm_compute in H; discriminate. Qed.

Theorem C14_fail_closed_full_refuted : ~ C14_fail_closed_full.
Proof.
  intro H. destruct (H w_env w_store Scan {| verify := true |} RMeta 5%N w_env_wf) as [e He].
  - apply reach_hinted. reflexivity.
  - apply dmg_absent. reflexivity.
  - exact I.
  - vm_compute in He. discriminate.
Qed.
Print Assumptions C14_fail_closed_full_refuted.

(* what the witness returns: the previous version's rows, in every API *)
Example C14_witness_serves_old_rows :
  map (fun a => out (read_current w_env w_store a {| verify := true |})) [Scan; ScanPar; Batches; IterRecords; RowCount]
  = [Ok (ARows [1; 2]); Ok (ARows [1; 2]); Ok (ARows [1; 2]); Ok (ARows [1; 2]); Ok (ACount 2)].
Proof. vm_compute. reflexivity. Qed.

(* ---------------------------------------------------------------------------------------------
   "A broken table is never reported as an empty one", without the extra hypothesis of C14_not_empty_partial, and
   why it is false of the code (the same known finding): create_table writes v0 (no snapshot), one commit writes v1
   and the pointer; v1 deleted: the recovery scan finds v0 and every API reports an EMPTY table.
   keys: 0 pointer, 4 = v0 metadata, 5 = v1 metadata (gone) *)
Definition C14_not_empty_full : Prop := forall (E : env) (st : store) (a : api) (o : opts),
  json_not_avro E -> broken_table E st ->
  exists e, out (read_current E st a o) = Err e.

Definition e_env : env :=
  mk_env [] [(10%N, Some 5%N)] (Some 4%N) [(11%N, Some {| mcur := None; msnaps := [] |})] [] [] [] [] [].
Definition e_store : store := store_of [(0, Present 10); (4, Present 11)]%N.

Lemma e_env_wf : json_not_avro e_env.
Proof. split; intros b x H; vm_compute in H; discriminate. Qed.

Theorem C14_not_empty_full_refuted : ~ C14_not_empty_full.
Proof.
  intro H. destruct (H e_env e_store Scan {| verify := true |} e_env_wf) as [e He].
  - left. exists 5%N. split; reflexivity.
  - vm_compute in He. discriminate.
Qed.
Print Assumptions C14_not_empty_full_refuted.

(* what the witness returns: an empty table, in every API *)
Example C14_witness_reports_empty_table :
  broken_table e_env e_store
  /\ map (fun a => out (read_current e_env e_store a {| verify := true |})) [Scan; ScanPar; Batches; IterRecords; RowCount]
     = [Ok (ARows []); Ok (ARows []); Ok (ARows []); Ok (ARows []); Ok (ACount 0)].
Proof. split; [left; exists 5%N; split; reflexivity|vm_compute; reflexivity]. Qed.

(* ---------------------------------------------------------------------------------------------
   Non-vacuity: a concrete table (pointer -> metadata 5 -> list 6 -> manifests 7, 9 -> data files 8, 12, 13;
   file 8 is listed by both manifests and read once) satisfies the hypotheses of the theorems, reads
   completely when healthy, and each damage class on each role is reachable, damaged, touched, and raises. *)
Definition x_env : env :=
  mk_env [(18, 98); (22, 97); (23, 96); (30, 95)]%N [(10%N, Some 5%N)] (Some 5%N)
         [(11%N, Some {| mcur := Some 2; msnaps := [{| sid := 1; slist := 3%N |}; {| sid := 2; slist := 6%N |}] |})]
         [(16%N, AvOk [Some 7%N; None; Some 9%N]); (31%N, AvRaise ["ValueError"; "Exception"]%string)] []
         [(17%N, AvOk [{| dpath := 8%N; dcount := 2; dsum := Some 98%N |}; {| dpath := 12%N; dcount := 1; dsum := Some 97%N |}]);
          (19%N, AvOk [{| dpath := 8%N; dcount := 2; dsum := None |}; {| dpath := 13%N; dcount := 3; dsum := None |}]);
          (31%N, AvRaise ["EOFError"; "Exception"]%string)] []
         [(18%N, PqOk [1; 2]); (22%N, PqOk [3]); (23%N, PqOk [4; 5; 6]); (30%N, PqOk [7]); (31%N, PqFail [])].
Definition x_cells : list (key * cell) :=
  [(0, Present 10); (5, Present 11); (6, Present 16); (7, Present 17); (9, Present 19);
   (8, Present 18); (12, Present 22); (13, Present 23)]%N.
Definition x_store : store := store_of x_cells.
Definition x_with (k : key) (c : cell) : store := store_of ((k, c) :: x_cells).
Definition x_out (st : store) (a : api) (v : bool) := out (read_current x_env st a {| verify := v |}).

Example C14_nonvacuous :
  json_not_avro x_env
  /\ reach x_env x_store RMeta 5%N /\ reach x_env x_store RList 6%N
  /\ reach x_env x_store RManifest 9%N /\ reach x_env x_store RData 13%N
  (* healthy: everything, once *)
  /\ x_out x_store Scan true = Ok (ARows [1; 2; 3; 4; 5; 6])
  /\ x_out x_store Batches false = Ok (ARows [1; 2; 3; 4; 5; 6])
  /\ x_out x_store RowCount true = Ok (ACount 6)
  (* absent / garbage / transient, per role *)
  /\ x_out (x_with 6%N Absent) RowCount true = Err EInconsistent
  /\ x_out (x_with 9%N Absent) Scan true = Err EInconsistent
  /\ x_out (x_with 9%N (Present 31%N)) IterRecords true = Err EParse
  /\ x_out (x_with 6%N (Present 31%N)) ScanPar false = Err EParse
  /\ x_out (x_with 7%N (Flaky (OpOpen, 0%nat) 17%N)) RowCount true = Err EParse
  /\ x_out (x_with 5%N (Flaky (OpRead, 0%nat) 11%N)) Scan true = Err EIO
  /\ x_out (x_with 13%N Absent) Scan false = Err ENotFound
  /\ x_out (x_with 13%N (Present 31%N)) Scan false = Err EParse
  /\ x_out (x_with 12%N (Present 30%N)) Scan true = Err ECorrupt          (* valid parquet, other content *)
  /\ x_out (x_with 12%N (Present 30%N)) Scan false = Ok (ARows [1; 2; 7; 4; 5; 6])   (* ... unverified: outside the property *)
  /\ x_out (x_with 13%N Absent) RowCount true = Ok (ACount 6)           (* untouched *)
  /\ yielded (read_current x_env (x_with 13%N Absent) Batches {| verify := true |}) = [1; 2; 3]
  /\ damaged x_env (x_with 9%N (Present 31%N)) RManifest 9%N
  /\ touched x_env (x_with 13%N (Flaky (OpOpen, 0%nat) 23%N)) Scan {| verify := true |} RData 13%N.
Proof.
  split; [split; intros b x H; vm_compute in H;
          repeat match type of H with (if ?c then _ else _) = _ => destruct c eqn:?; try discriminate end; discriminate|].
  split; [apply reach_hinted; reflexivity|].
  assert (Hl : reach x_env x_store RList 6%N).
  { apply (reach_list x_env x_store {| mcur := Some 2; msnaps := [{| sid := 1; slist := 3%N |}; {| sid := 2; slist := 6%N |}] |}
             {| sid := 2; slist := 6%N |}); reflexivity. }
  assert (Hm : reach x_env x_store RManifest 9%N).
  { apply (reach_manifest x_env x_store 6%N 16%N [Some 7%N; None; Some 9%N] 9%N Hl); [reflexivity|reflexivity|simpl; auto]. }
  split; [exact Hl|]. split; [exact Hm|].
  split; [apply (reach_data x_env x_store 9%N 19%N [{| dpath := 8%N; dcount := 2; dsum := None |}; {| dpath := 13%N; dcount := 3; dsum := None |}] {| dpath := 13%N; dcount := 3; dsum := None |} Hm); [reflexivity|reflexivity|simpl; auto]|].
  repeat (split; [vm_compute; reflexivity|]).
  split.
  - apply (dmg_garbage _ _ _ _ 31%N); reflexivity.
  - split; [reflexivity|]. simpl. intros md sn dfs df Hmd Hsn Hdfs Hsel.
    vm_compute in Hmd. inversion Hmd; subst md. vm_compute in Hsn. inversion Hsn; subst sn.
    vm_compute in Hdfs. inversion Hdfs; subst dfs. vm_compute in Hsel. inversion Hsel; subst df. reflexivity.
Qed.

(* ... and of the statements about the CURRENT version: the pointer's file is there and parses (hypothesis of
   C14_never_partial), the hypotheses of C14_not_empty_partial hold of a table with a manifest / the manifest list
   gone (which then raises), and a call without options verifies (C14_checksum_by_default). *)
Definition x_md : meta := {| mcur := Some 2; msnaps := [{| sid := 1; slist := 3%N |}; {| sid := 2; slist := 6%N |}] |}.

Example C14_nonvacuous_current :
  spec_meta x_env x_store = Some x_md
  /\ served_meta x_env x_store = Some x_md
  /\ (forall mk, hinted x_env (x_with 9%N Absent) = Some mk -> x_with 9%N Absent mk <> Absent)
  /\ broken_table x_env (x_with 9%N Absent)
  /\ broken_table x_env (x_with 6%N Absent)
  /\ x_out (x_with 6%N Absent) Scan true = Err EInconsistent
  /\ verify default_opts = true
  /\ out (read_current x_env (x_with 12%N (Present 30%N)) Scan default_opts) = Err ECorrupt
  /\ out (read_current x_env x_store IterRecords default_opts) = Ok (ARows [1; 2; 3; 4; 5; 6]).
Proof.
  split; [vm_compute; reflexivity|]. split; [vm_compute; reflexivity|].
  split; [intros mk H; vm_compute in H; inversion H; subst mk; vm_compute; discriminate|].
  split.
  { right. exists x_md. split; [vm_compute; reflexivity|]. right. right.
    exists {| sid := 2; slist := 6%N |}, 16%N, [Some 7%N; None; Some 9%N], 9%N.
    repeat split; try reflexivity. simpl; auto. }
  split.
  { right. exists x_md. split; [vm_compute; reflexivity|]. right. left.
    exists {| sid := 2; slist := 6%N |}. split; reflexivity. }
  repeat (split; [vm_compute; reflexivity|]). vm_compute. reflexivity.
Qed.
