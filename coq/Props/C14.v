(* Props/C14.v -- Reads fail closed: damaged or missing files raise, never yield partial rows.
   Only theorem statements, each closed by `exact <lemma>`, with Print Assumptions beneath.

   Model: Model/Read.v (the read pipeline of transaction.py / file_manager.py / metadata_manager.py as a
   result-and-trace program over a store of Absent / Present bytes / Flaky site bytes cells; every parser,
   SHA-256 and the recovery scan are function parameters [env], never axioms; the exception classes of the
   two Avro fallbacks come from Gen/GenRead.v, regenerated from the source on every run).

   Hypothesis json_not_avro (all theorems that follow the pipeline through a manifest): bytes accepted by
   the JSON fallback make the Avro attempt raise one of the fallback classes -- Avro containers start with
   the magic "Obj\001", which is not JSON; the harness checks it on every byte string of every run.

   The full-strength C14_fail_closed is FALSE of the faithful model of the code for exactly one case,
   kept visible below: the current metadata file deleted while the pointer still names it
   (C14_fail_closed_full, C14_fail_closed_full_refuted).  C14_fail_closed is the full statement minus
   that case. *)
From Coq Require Import ZArith NArith List Bool String.
Require Import DS.Gen.GenRead DS.Model.Read DS.Proofs.ReadProofs.
Import ListNotations.
Open Scope list_scope.
Open Scope Z_scope.

(* Every store (any number of damaged files), every read API and option, every file k reachable from
   the current snapshot in role r (metadata file, manifest list, manifest, data file), every damage class
   (Absent; Present bytes the role's parser rejects = unparseable prefix / non-parsing replacement;
   Flaky = transient OSError at a call site) that the API touches: the call raises. *)
Theorem C14_fail_closed : forall (E : env) (st : store) (a : api) (o : opts) (r : role) (k : key),
  json_not_avro E ->
  reach E st r k -> damaged E st r k -> touched E st a o r k ->
  ~ (r = RMeta /\ hinted E st = Some k /\ st k = Absent) ->
  exists e, out (read_current E st a o) = Err e.
Proof. exact fail_closed. Qed.
Print Assumptions C14_fail_closed.

(* All or nothing: an API that returns, returns exactly the answer of the current snapshot -- every
   manifest of the list, every de-duplicated data file of every manifest, every row of every file
   (row_count: the sum over exactly those files); a generator API that completes has yielded exactly
   those rows. *)
Theorem C14_never_partial : forall (E : env) (st : store) (a : api) (o : opts) (ans : answer) (md : meta),
  json_not_avro E ->
  out (read_current E st a o) = Ok ans ->
  spec_meta E st = Some md ->
  spec_answer E st a md = Some ans
  /\ yielded (read_current E st a o) = match ans with ARows rows => rows | ACount _ => [] end.
Proof. exact never_partial. Qed.
Print Assumptions C14_never_partial.

(* A broken table is never reported as an empty one (nor as anything else): a dangling
   current_snapshot_id, a missing manifest list, a missing manifest all raise, in every API. *)
Theorem C14_not_empty : forall (E : env) (st : store) (a : api) (o : opts) (md : meta),
  json_not_avro E -> spec_meta E st = Some md ->
  ( (find_snap md = None /\ exists id, mcur md = Some id /\ id <> -1)
    \/ (exists s, find_snap md = Some s /\ st (slist s) = Absent)
    \/ (exists s b ms m, find_snap md = Some s /\ cur_bytes st (slist s) = Some b /\ list_content E b = Some ms
                          /\ In (Some m) ms /\ st m = Absent) ) ->
  exists e, out (read_current E st a o) = Err e.
Proof. exact not_empty. Qed.
Print Assumptions C14_not_empty.
