(* Props/C17.v -- No operation escapes the table root.
   Only theorem statements, each closed by `exact <lemma>`, with Print Assumptions beneath.

   Model: Model/Path.v (symlink file system, CPython's non-strict realpath with its give-up-on-a-loop
   branch, commonpath, relpath, the repaired resolver, _get_arrow_path, list_files, the entry points,
   and the kernel's own path walk `kwalk`).  Gen/GenPath.v is regenerated from the source on every run
   (table directories, which guard each entry point's raw string goes through).

   All statements quantify over EVERY tree (any arrangement of links, loops included), every spelling of
   the table path, every working directory, every path string and every fuel; nothing is bounded.
   `names q` = no "", "." or ".." component.  Locations are component lists, so /wh and /wh2 differ.

   "Escaping" is judged on the string join_for_resolve builds, not on the string as written: a TRUE ABSOLUTE path such as
   /etc/passwd is stripped of its leading slashes and joined under the table root BY DESIGN (it names <root>/etc/passwd, never
   the system file), so it is accepted or refused exactly as its relative spelling is (C17_absolute_is_rerooted); only the
   parquet read path honours a true absolute string as such, and then only when it resolves under the root (C17_arrow_inside).

   History: the resolver as found trusted os.path.realpath, which does not fail on a symlink loop but
   returns the rest of the path unresolved and lexically normalised; C17_legacy_resolver_refuted keeps the
   witness (loop/../ln_out/secret read a file outside the root).  The repaired resolver (canonical_path)
   is what `resolve` models. *)
From Coq Require Import ZArith List Bool.
Require Import DS.Model.Path DS.Gen.GenPath DS.Proofs.PathProofs DS.Proofs.KernelAgree DS.Proofs.SessionProofs DS.Proofs.HandleState.
Require Import DS.Proofs.PathAbsolute.
Require Import DS.Model.Str DS.Gen.GenS3 DS.Proofs.S3KeyProofs.
Import ListNotations.
Open Scope Z_scope.

(* The containment test `os.path.commonpath([base, full]) == base` is component-wise prefix. *)
Theorem C17_commonpath_prefix : forall b f : loc, names b -> names f ->
  (commonpath2 (abs_str b) (abs_str f) = Some (abs_str b) <-> is_prefix b f = true).
Proof. exact commonpath_prefix. Qed.
Print Assumptions C17_commonpath_prefix.

(* _resolve_path returns only what realpath computed for the joined string, and only when that is
   under the canonical root and has no symlink component at all. *)
Theorem C17_resolve_inside : forall (d : nat) (t : tree) (cwd : loc) (base p : pstr) (q : loc),
  resolve d t cwd base p = Ok q ->
  exists rb, realpath d t cwd base = Ok rb
          /\ realpath d t cwd (join_for_resolve base p) = Ok q
          /\ is_prefix rb q = true /\ no_link_prefix t q = true /\ names q /\ names rb.
Proof. exact resolve_ok. Qed.
Print Assumptions C17_resolve_inside.

(* What the operating system reaches when it is handed a link-free location, or any ancestor of it
   (the directory a temp file is staged in, the root itself): exactly that location, for every budget --
   or an error.  Together with C17_resolve_inside: open/remove/replace/scandir of a resolved path act
   under the canonical root. *)
Theorem C17_resolve_kernel : forall (t : tree) (q : loc), names q -> no_link_prefix t q = true ->
  forall a, is_prefix a q = true -> forall (fuel : nat) (l : loc), kwalk fuel t [] a = Ok l -> l = a.
Proof. exact kernel_stays. Qed.
Print Assumptions C17_resolve_kernel.

(* A string whose resolution lies outside the canonical root is rejected with the Security error. *)
Theorem C17_reject_outside : forall (d : nat) (t : tree) (cwd : loc) (base p : pstr) (full rb : loc),
  realpath d t cwd (join_for_resolve base p) = Ok full -> realpath d t cwd base = Ok rb ->
  is_prefix rb full = false -> resolve d t cwd base p = Err Security.
Proof. exact resolve_reject. Qed.
Print Assumptions C17_reject_outside.

(* A true absolute string p (it starts with "/") is RE-ROOTED, for every tree, base spelling, working directory and fuel: its
   leading slashes are stripped and the rest -- which is not absolute -- is joined under the base, literally `base ++ lstrip p` for
   a canonical base; the resolver answers for p exactly what it answers for the relative spelling lstrip p; when it answers, the
   answer is the realpath of that JOINED string, link-free and under the canonical root; and when the JOINED string resolves
   outside the root the outcome is the Security error.  Where p itself would lead in the file system never enters. *)
Theorem C17_absolute_is_rerooted : forall (d : nat) (t : tree) (cwd : loc) (base p : pstr),
  is_abs p = true ->
  is_abs (lstrip p) = false
  /\ join_for_resolve base p = os_join base (lstrip p)
  /\ (forall b : loc, names b -> b <> [] -> base = abs_str b -> join_for_resolve base p = abs_str b ++ lstrip p)
  /\ resolve d t cwd base p = resolve d t cwd base (lstrip p)
  /\ (forall q : loc, resolve d t cwd base p = Ok q ->
        exists rb, realpath d t cwd base = Ok rb /\ realpath d t cwd (os_join base (lstrip p)) = Ok q
                /\ is_prefix rb q = true /\ no_link_prefix t q = true)
  /\ (forall full rb : loc, realpath d t cwd (os_join base (lstrip p)) = Ok full -> realpath d t cwd base = Ok rb ->
        is_prefix rb full = false -> resolve d t cwd base p = Err Security).
Proof. exact absolute_is_rerooted. Qed.
Print Assumptions C17_absolute_is_rerooted.

(* The second sentence of the property, against the KERNEL rather than against realpath: whenever the
   operating system itself can walk the joined string (every component exists, no ELOOP), the modelled
   os.path.realpath returns exactly the kernel's location -- its lexical fallbacks (missing component,
   give-up on a loop) are never taken.  Proof: the kernel's finite walk is a nested derivation, realpath
   follows it, and a link being expanded cannot recur inside its own finite expansion. *)
Theorem C17_realpath_agrees_with_kernel : forall (d : nat) (t : tree) (cwd : loc) (s : pstr) (kf : nat) (l : loc),
  (count_links t <= d)%nat ->
  kwalk kf t [] (tl (absolutize cwd s)) = Ok l -> realpath d t cwd s = Ok l.
Proof. exact realpath_agrees_with_kernel. Qed.
Print Assumptions C17_realpath_agrees_with_kernel.

(* Hence: a string that the kernel resolves to a location outside the canonical root is rejected ... *)
Theorem C17_kernel_outside_rejected : forall (d : nat) (t : tree) (cwd : loc) (base p : pstr) (kf : nat) (l rb : loc),
  (count_links t <= d)%nat ->
  kwalk kf t [] (tl (absolutize cwd (join_for_resolve base p))) = Ok l ->
  realpath d t cwd base = Ok rb -> is_prefix rb l = false ->
  resolve d t cwd base p = Err Security.
Proof. exact kernel_outside_rejected. Qed.
Print Assumptions C17_kernel_outside_rejected.

(* ... and is never silently resolved to some other file: when the resolver answers, it answers the
   kernel's own location. *)
Theorem C17_resolve_is_kernel_location : forall (d : nat) (t : tree) (cwd : loc) (base p : pstr) (kf : nat) (l q : loc),
  (count_links t <= d)%nat ->
  kwalk kf t [] (tl (absolutize cwd (join_for_resolve base p))) = Ok l ->
  resolve d t cwd base p = Ok q -> q = l.
Proof. exact resolve_is_kernel_location. Qed.
Print Assumptions C17_resolve_is_kernel_location.

(* _get_arrow_path: table-relative / Iceberg-style strings go through the resolver; a true absolute
   string is admitted only when its own resolution is link-free and under the root. *)
Theorem C17_arrow_inside : forall (d : nat) (t : tree) (cwd : loc) (dirs : list comp) (base p : pstr) (q : loc),
  arrow_path d t cwd dirs base p = Ok q ->
  exists rb, realpath d t cwd base = Ok rb /\ is_prefix rb q = true /\ no_link_prefix t q = true /\ names q /\ names rb
          /\ (realpath d t cwd (join_for_resolve base p) = Ok q \/ (is_abs p = true /\ realpath d t cwd p = Ok q)).
Proof. exact arrow_path_ok. Qed.
Print Assumptions C17_arrow_inside.

(* list_files: every returned string is a non-empty sequence of names ('..'-free), and joined to the
   canonical root it is a file (or a link not leading to a directory) strictly below the resolved prefix --
   for the root given directly or through links alike. *)
Theorem C17_listing_relative : forall (d kf : nat) (t : tree) (cwd : loc) (base prefix : pstr) (rs : list pstr) (r : pstr),
  list_files d kf t cwd base prefix = Ok rs -> In r rs ->
  exists rb q, realpath d t cwd base = Ok rb /\ resolve d t cwd base prefix = Ok q
    /\ names r /\ r <> []
    /\ is_prefix q (rb ++ r) = true /\ (rb ++ r) <> q
    /\ In (rb ++ r) (walk_files kf t q)
    /\ walk_is_file kf t (rb ++ r) = true.
Proof. exact list_files_ok. Qed.
Print Assumptions C17_listing_relative.

(* Which directories a listing ENUMERATES (os.scandir): only real directories at or below the resolved
   prefix -- link-free locations under the canonical root, so by C17_resolve_kernel the kernel lists exactly
   them.  A directory symlink below the prefix, pointing inward or outward, is never descended into; no
   foreign directory is scanned and none of its files can be returned (C17_listing_relative). *)
Theorem C17_listing_scans_inside : forall (d : nat) (t : tree) (cwd : loc) (base prefix : pstr) (ds : list loc) (dd : loc),
  list_scans d t cwd base prefix = Ok ds -> In dd ds ->
  exists rb q, realpath d t cwd base = Ok rb /\ resolve d t cwd base prefix = Ok q
    /\ is_prefix q dd = true /\ is_prefix rb dd = true /\ names dd
    /\ lstat t dd = Some Dir /\ no_link_prefix t dd = true.
Proof. exact list_scans_ok. Qed.
Print Assumptions C17_listing_scans_inside.

(* Every entry point in the table regenerated from the source: its raw string goes through the recorded
   guard, and every location handed to the OS is the guard's result or its parent directory, link-free
   and under the canonical root (os.makedirs may also name an ancestor of the root). *)
Theorem C17_entrypoints : forall (d : nat) (t : tree) (cwd : loc) (base : pstr) (ep : entry) (g : guard) (p : pstr) (accs : list access),
  In (ep, g) gen_entry_guards ->
  run_entry d t cwd gen_table_dirs base ep p = Ok accs ->
  exists rb q, realpath d t cwd base = Ok rb
    /\ guard_result d t cwd gen_table_dirs base rb g p = Ok q
    /\ Forall (fun a => (snd a = q \/ snd a = parent q) /\ touch_ok t rb a) accs.
Proof. exact run_entry_ok. Qed.
Print Assumptions C17_entrypoints.

(* Histories on one long-lived handle.  The arrangement may change between two uses of the same string (a
   directory inside the root replaced by an outward link, a file by a link, ...).  Whatever was resolved or
   accepted before, the i-th use touches only link-free locations under the canonical root OF THE TREE CURRENT
   AT THAT USE: a handle carries no validated-path state (C17_history_stateless: the outcome of a use is a
   function of its own tree only). *)
Theorem C17_history_inside : forall (d : nat) (cwd : loc) (base : pstr) (steps : list hstep) (i : nat)
                                    (t : tree) (ep : entry) (g : guard) (p : pstr) (accs : list access),
  nth_error steps i = Some (t, ep, p) ->
  In (ep, g) gen_entry_guards ->
  nth_error (run_history d cwd gen_table_dirs base steps) i = Some (Ok accs) ->
  exists rb q, realpath d t cwd base = Ok rb
    /\ guard_result d t cwd gen_table_dirs base rb g p = Ok q
    /\ Forall (fun a => (snd a = q \/ snd a = parent q) /\ touch_ok t rb a) accs.
Proof. exact run_history_ok. Qed.
Print Assumptions C17_history_inside.

Theorem C17_history_stateless : forall (d : nat) (cwd : loc) (dirs : list comp) (base : pstr) (pre post : list hstep)
                                       (t : tree) (ep : entry) (p : pstr),
  nth_error (run_history d cwd dirs base (pre ++ (t, ep, p) :: post)) (length pre) = Some (run_entry d t cwd dirs base ep p).
Proof. exact run_history_stateless. Qed.
Print Assumptions C17_history_stateless.

(* Sessions on one long-lived handle over ANY trees: the string of a step is a literal or a NAME AN EARLIER LISTING OF THE SAME
   HANDLE RETURNED (SListed i k) -- the collector sweeping the candidates it listed, a caller registering a file it saw in data/.
   os.walk reports a symlink to a file among a directory's files, so a listing hands out names that lead out of the root.
   (1) The step law: the outcome of a step is run_entry of ITS OWN tree on the string its argument denotes, plus the names it
   returns; nothing else of the past enters -- a handle keeps no record of what it listed, probed or read. *)
Theorem C17_session_stateless : forall (d kf : nat) (cwd : loc) (dirs : list comp) (base : pstr) (pre : list sstep) (s : sstep) (post : list sstep),
  nth_error (run_session d kf cwd dirs base (pre ++ s :: post)) (length pre)
  = Some (session_out d kf cwd dirs base (run_session d kf cwd dirs base pre) s).
Proof. exact session_step_at. Qed.
Print Assumptions C17_session_stateless.

(* (2) Every step of every session that returns touches only link-free locations under the canonical root of the tree current at
   that step, wherever its string came from. *)
Theorem C17_session_inside : forall (d kf : nat) (cwd : loc) (base : pstr) (steps : list sstep) (i : nat)
                                    (t : tree) (ep : entry) (g : guard) (a : sarg) (accs : list access) (ns : list pstr),
  nth_error steps i = Some (t, ep, a) ->
  In (ep, g) gen_entry_guards ->
  nth_error (run_session d kf cwd gen_table_dirs base steps) i = Some (Some (Ok accs), ns) ->
  exists p rb q, sderef (run_session d kf cwd gen_table_dirs base (firstn i steps)) a = Some p
    /\ realpath d t cwd base = Ok rb
    /\ guard_result d t cwd gen_table_dirs base rb g p = Ok q
    /\ Forall (fun x => (snd x = q \/ snd x = parent q) /\ touch_ok t rb x) accs.
Proof. exact session_inside. Qed.
Print Assumptions C17_session_inside.

(* (3) A step whose string is a LISTED name that the kernel walks to a location outside the canonical root -- a file symlink
   inside the root pointing out, directly or through further links -- is refused with the Security error by EVERY entry point
   (read, open, size, mtime, exists, write, delete, lock, the parquet read and write paths): having been listed earns a name nothing. *)
Theorem C17_session_listed_name_rejected : forall (d kf : nat) (cwd : loc) (dirs : list comp) (base : pstr) (steps : list sstep) (j : nat)
                                                  (t : tree) (ep : entry) (i k : nat) (r : pstr) (kf' : nat) (l rb : loc),
  nth_error steps j = Some (t, ep, SListed i k) ->
  sderef (run_session d kf cwd dirs base (firstn j steps)) (SListed i k) = Some r ->
  (count_links t <= d)%nat ->
  kwalk kf' t [] (tl (absolutize cwd (join_for_resolve base r))) = Ok l ->
  realpath d t cwd base = Ok rb -> is_prefix rb l = false ->
  exists ns, nth_error (run_session d kf cwd dirs base steps) j = Some (Some (Err Security), ns).
Proof. exact session_listed_name_rejected. Qed.
Print Assumptions C17_session_listed_name_rejected.

(* ... in its simplest form: one listing, then one use of a returned name, same arrangement. *)
Theorem C17_listed_name_rejected : forall (d kf : nat) (t : tree) (cwd : loc) (dirs : list comp) (base prefix : pstr) (rs : list pstr) (r : pstr)
                                          (ep : entry) (kf' : nat) (l rb : loc),
  list_files d kf t cwd base prefix = Ok rs -> In r rs ->
  (count_links t <= d)%nat ->
  kwalk kf' t [] (tl (absolutize cwd (join_for_resolve base r))) = Ok l ->
  realpath d t cwd base = Ok rb -> is_prefix rb l = false ->
  run_entry d t cwd dirs base ep r = Err Security.
Proof. exact listed_name_rejected. Qed.
Print Assumptions C17_listed_name_rejected.

(* Sessions extend histories: with literal strings only, a session is exactly a history. *)
Theorem C17_session_of_literals_is_history : forall (d kf : nat) (cwd : loc) (dirs : list comp) (base : pstr) (steps : list hstep),
  map fst (run_session d kf cwd dirs base (map (fun s : hstep => let '(t, ep, p) := s in (t, ep, SLit p)) steps))
  = map Some (run_history d cwd dirs base steps).
Proof. exact session_of_literals_is_history. Qed.
Print Assumptions C17_session_of_literals_is_history.

(* Why the model's handle is its base string and nothing else -- over the tables REGENERATED FROM THE SOURCE on every run
   (Gen/GenPath.v): every attribute of self that a path guard of DataFileManager or any method of LocalStorageBackend loads is set
   up at construction and is stored into by NO method afterwards (assignment, item assignment / deletion, mutating call). *)
Theorem C17_handle_state_fixed_at_construction : forall c m f : String.string, In (c, m, f) gen_guard_reads ->
  In (c, f) gen_handle_fields /\ forall m' : String.string, ~ In (c, m', f) gen_handle_writes.
Proof. exact guard_state_fixed_at_construction. Qed.
Print Assumptions C17_handle_state_fixed_at_construction.

(* The object-store backend.  Its root is a KEY PREFIX and keys are opaque strings: over the key mapping regenerated
   from S3StorageBackend._get_s3_key / list_files on every run (Gen/GenS3.v), for EVERY path string -- '..', '.',
   '//', absolute, sibling-prefix names included -- the key of a request is the configured prefix, a '/', and the bytes
   of the path after its leading slashes VERBATIM (no segment is interpreted), so it lies under the table prefix;
   likewise the Prefix= of a listing. *)
Theorem C17_s3_key_under_prefix : forall prefix path : str, nonempty prefix = true ->
  gen_get_s3_key prefix path = (prefix ++ [slash]) ++ lstrip_slash path
  /\ starts_with (gen_get_s3_key prefix path) (prefix ++ [slash]) = true.
Proof. intros prefix path H. split; [exact (s3_key_verbatim prefix path H)|exact (s3_key_under_prefix prefix path H)]. Qed.
Print Assumptions C17_s3_key_under_prefix.

Theorem C17_s3_list_prefix_under_prefix : forall prefix path : str, nonempty prefix = true ->
  starts_with (gen_list_prefix prefix path) (prefix ++ [slash]) = true.
Proof. exact s3_list_prefix_under_prefix. Qed.
Print Assumptions C17_s3_list_prefix_under_prefix.

(* The fuel bound is satisfiable: one unit per link in the tree is always enough. *)
Theorem C17_fuel_sufficient : forall (d : nat) (t : tree) (cwd : loc) (base p : pstr),
  (count_links t <= d)%nat ->
  realpath d t cwd p <> Err OutOfFuel /\ resolve d t cwd base p <> Err OutOfFuel.
Proof. intros d t cwd base p H. split; [exact (realpath_fuel d t cwd p H)|exact (resolve_fuel d t cwd base p H)]. Qed.
Print Assumptions C17_fuel_sufficient.

(* ---- a concrete arrangement: non-vacuity, and the refutation of the resolver as found ----
   codes: 10 "w"  11 "tbl"  12 "tbl2"  13 "out"  14 "secret"  15 "ln_out"  16 "ln_loop"  17 "ln_in"  18 "f"  19 "lnroot"
     /w/tbl/data/f   /w/tbl/ln_out -> /w/out   /w/tbl/ln_loop -> ln_loop   /w/tbl/ln_in -> data
     /w/tbl2/secret  /w/out/secret             /w/lnroot -> tbl *)
Definition ex_tree : tree :=
  [ ([10], Dir); ([10; 11], Dir); ([10; 11; 3], Dir); ([10; 11; 3; 18], File);
    ([10; 11; 15], Link [0; 10; 13]); ([10; 11; 16], Link [16]); ([10; 11; 17], Link [3]);
    ([10; 12], Dir); ([10; 12; 14], File); ([10; 13], Dir); ([10; 13; 14], File); ([10; 19], Link [11]);
    ([10; 11; 3; 21], Link [0; 10; 13]) ].          (* 21 "ext": /w/tbl/data/ext -> /w/out, an outward DIRECTORY link below data *)
Definition ex_cwd : loc := [10].
Definition ex_base : pstr := [0; 10; 11].          (* "/w/tbl" *)
Definition ex_base_link : pstr := [19].            (* "lnroot", relative to the working directory /w *)

(* The resolver as found (realpath trusted): "ln_loop/../ln_out/secret" is accepted, and the kernel then
   follows ln_out to /w/out/secret, outside the root /w/tbl.  The repaired resolver rejects it. *)
Theorem C17_legacy_resolver_refuted :
  resolve_legacy 3 ex_tree ex_cwd ex_base [16; 2; 15; 14] = Ok [10; 11; 15; 14]
  /\ kwalk 20 ex_tree [] [10; 11; 15; 14] = Ok [10; 13; 14]
  /\ is_prefix [10; 11] [10; 13; 14] = false
  /\ resolve 3 ex_tree ex_cwd ex_base [16; 2; 15; 14] = Err Security.
Proof. vm_compute. repeat split. Qed.
Print Assumptions C17_legacy_resolver_refuted.

(* the same tree after <root>/data was replaced by a link to /w/out (the old directory moved aside) *)
Definition ex_tree_swapped : tree :=
  [ ([10], Dir); ([10; 11], Dir); ([10; 11; 3], Link [0; 10; 13]); ([10; 13], Dir); ([10; 13; 18], File); ([10; 13; 14], File) ].

Example C17_history_nonvacuous :
  run_history 5 ex_cwd gen_table_dirs ex_base
    [ (ex_tree, EpReadDataFile, [3; 18]); (ex_tree_swapped, EpReadDataFile, [3; 18]); (ex_tree, EpReadDataFile, [3; 18]) ]
  = [ Ok [(ARead, [10; 11; 3; 18])]; Err Security; Ok [(ARead, [10; 11; 3; 18])] ].
Proof. vm_compute. reflexivity. Qed.

(* file links inside the root: 22 "imported": /w/tbl/data/imported -> /w/out/secret (absolute, outward);
   23 "chain": /w/tbl/data/chain -> imported (inside link to the outward link);  24 "inlink": /w/tbl/data/inlink -> f (inward) *)
Definition ex_tree_fl : tree :=
  [ ([10], Dir); ([10; 11], Dir); ([10; 11; 3], Dir); ([10; 11; 3; 18], File);
    ([10; 11; 3; 22], Link [0; 10; 13; 14]); ([10; 11; 3; 23], Link [22]); ([10; 11; 3; 24], Link [18]);
    ([10; 13], Dir); ([10; 13; 14], File); ([10; 19], Link [11]) ].

(* A handle that remembers what it listed and skips the boundary check for those names (Model/Path.v resolve_memo -- NOT the library's
   behaviour) is refuted by this tree: after a listing of data/, "data/imported" is answered with the link's own location, the kernel
   follows it to /w/out/secret outside the root /w/tbl; the library's resolver refuses the same string. *)
Theorem C17_memoising_handle_refuted :
  let m := memo_after_listing [] 5 20 ex_tree_fl ex_cwd ex_base [3] in
  resolve_memo m 5 ex_tree_fl ex_cwd ex_base [3; 22] = Ok [10; 11; 3; 22]
  /\ kwalk 20 ex_tree_fl [] [10; 11; 3; 22] = Ok [10; 13; 14]
  /\ is_prefix [10; 11] [10; 13; 14] = false
  /\ resolve 5 ex_tree_fl ex_cwd ex_base [3; 22] = Err Security.
Proof. vm_compute. repeat split. Qed.
Print Assumptions C17_memoising_handle_refuted.

(* a session: list data/ (four names, three of them links), then use every listed name; the outward link, the chain to it are
   refused by every entry point tried, the inward link resolves to its target, a dangling reference executes nothing *)
Example C17_session_nonvacuous :
  run_session 5 20 ex_cwd gen_table_dirs ex_base_link
    [ (ex_tree_fl, EpList, SLit [3]);
      (ex_tree_fl, EpRead, SListed 0 0); (ex_tree_fl, EpRead, SListed 0 1); (ex_tree_fl, EpParquetSource, SListed 0 1);
      (ex_tree_fl, EpSize, SListed 0 2); (ex_tree_fl, EpDelete, SListed 0 3); (ex_tree_fl, EpWrite, SListed 0 1);
      (ex_tree_fl, EpRead, SListed 0 9); (ex_tree_fl, EpRead, SListed 5 0) ]
  = [ (Some (Ok [(AStat, [10; 11; 3]); (AList, [10; 11; 3])]), [[3; 18]; [3; 22]; [3; 23]; [3; 24]]);
      (Some (Ok [(ARead, [10; 11; 3; 18])]), []); (Some (Err Security), []); (Some (Err Security), []);
      (Some (Err Security), []); (Some (Ok [(AStat, [10; 11; 3; 18]); (ARemove, [10; 11; 3; 18])]), []); (Some (Err Security), []);
      (None, []); (None, []) ]
  /\ (count_links ex_tree_fl <= 5)%nat
  /\ kwalk 20 ex_tree_fl [] (tl (absolutize ex_cwd (join_for_resolve ex_base_link [3; 23]))) = Ok [10; 13; 14].
Proof. vm_compute. repeat split; auto 10. Qed.

Example C17_nonvacuous :
  (count_links ex_tree <= 5)%nat
  (* accepted: through an inside link, Iceberg-style, through the symlinked root spelled relatively *)
  /\ resolve 5 ex_tree ex_cwd ex_base [17; 18] = Ok [10; 11; 3; 18]
  /\ resolve 5 ex_tree ex_cwd ex_base [0; 3; 18] = Ok [10; 11; 3; 18]
  /\ resolve 5 ex_tree ex_cwd ex_base_link [3; 2; 17; 18] = Ok [10; 11; 3; 18]
  (* rejected: outward link, sibling whose name has the root's name as a string prefix, '..' chain *)
  /\ resolve 5 ex_tree ex_cwd ex_base [15; 14] = Err Security
  /\ resolve 5 ex_tree ex_cwd ex_base [2; 12; 14] = Err Security
  /\ resolve 5 ex_tree ex_cwd ex_base_link [0; 3; 2; 2; 2; 10; 13; 14] = Err Security
  (* the parquet read path: a true absolute path inside is honoured, outside refused *)
  /\ arrow_path 5 ex_tree ex_cwd gen_table_dirs ex_base [0; 10; 19; 3; 18] = Ok [10; 11; 3; 18]
  /\ arrow_path 5 ex_tree ex_cwd gen_table_dirs ex_base [0; 10; 13; 14] = Err Security
  (* listing under the symlinked root: paths relative to the canonical root *)
  /\ list_files 5 20 ex_tree ex_cwd ex_base_link [0] = Ok [[3; 18]; [16]]
  (* ... and a listing ABOVE the outward directory link data/ext scans /w/tbl and /w/tbl/data only, never /w/out *)
  /\ list_scans 5 ex_tree ex_cwd ex_base_link [0] = Ok [[10; 11]; [10; 11; 3]]
  /\ list_files 5 20 ex_tree ex_cwd ex_base [3] = Ok [[3; 18]]
  /\ list_files 5 20 ex_tree ex_cwd ex_base [3; 21] = Err Security
  (* entry points: a write below the root stages in the parent; a write AT the root is refused *)
  /\ run_entry 5 ex_tree ex_cwd gen_table_dirs ex_base EpWrite [3; 20] = Ok [(AMkdirs, [10; 11; 3]); (ACreateIn, [10; 11; 3]); (AReplace, [10; 11; 3; 20])]
  /\ run_entry 5 ex_tree ex_cwd gen_table_dirs ex_base EpWrite [3; 2] = Err IsRoot
  /\ In (EpWrite, GFileTarget) gen_entry_guards.
Proof. vm_compute. repeat split; try reflexivity; auto 20. Qed.

(* non-vacuity of C17_absolute_is_rerooted: "/w/out/secret" is the true absolute name of an existing file OUTSIDE the root /w/tbl;
   handed to the resolver it names /w/tbl/w/out/secret (a location inside, nothing there yet), as "w/out/secret" does; the kernel
   walks the string itself to /w/out/secret; only the parquet read path takes it as written, and refuses it; with enough '..'
   behind the slash the JOINED string leaves the root and is refused *)
Example C17_absolute_nonvacuous :
  is_abs [0; 10; 13; 14] = true
  /\ join_for_resolve ex_base [0; 10; 13; 14] = [0; 10; 11; 10; 13; 14]
  /\ resolve 5 ex_tree ex_cwd ex_base [0; 10; 13; 14] = Ok [10; 11; 10; 13; 14]
  /\ resolve 5 ex_tree ex_cwd ex_base [10; 13; 14] = Ok [10; 11; 10; 13; 14]
  /\ kwalk 20 ex_tree [] (tl [0; 10; 13; 14]) = Ok [10; 13; 14]
  /\ arrow_path 5 ex_tree ex_cwd gen_table_dirs ex_base [0; 10; 13; 14] = Err Security
  /\ resolve 5 ex_tree ex_cwd ex_base [0; 2; 13; 14] = Err Security.
Proof. vm_compute. repeat split. Qed.

(* non-vacuity of the object-store theorems (string literals need String, imported last: it shadows List.length) *)
From Coq Require Import String.
Example C17_s3_nonvacuous :
  gen_get_s3_key (lit "wh/t"%string) (lit "../t2/data/x"%string) = lit "wh/t/../t2/data/x"%string
  /\ gen_get_s3_key (lit "wh/t"%string) (lit "//etc/passwd"%string) = lit "wh/t/etc/passwd"%string
  /\ gen_list_prefix (lit "wh/t"%string) (lit "../t2"%string) = lit "wh/t/../t2/"%string.
Proof. vm_compute. repeat split. Qed.

(* non-vacuity of the handle-state theorem: the guards do read handle state (the base string, the storage object) *)
Example C17_handle_state_nonvacuous :
  In ("LocalStorageBackend"%string, "_resolve_path"%string, "base_path"%string) gen_guard_reads
  /\ In ("DataFileManager"%string, "_get_arrow_path"%string, "storage"%string) gen_guard_reads.
Proof. vm_compute. repeat split; auto 10. Qed.
