(* Props/C08.v -- A stale lock holder or delayed pointer write cannot lose an update on S3.
   Statements only; proofs are in Proofs/CommitProofs.v.

   `cas c = true` and NOTHING is assumed about the lock: lockkind may be Excl, Lease (with ESteal
   events -- lease lapse / takeover -- anywhere in the schedule) or GrantAll (no exclusion at all).
   A delayed (in-flight) conditional PUT is an EFlip event placed later in the schedule: its
   precondition is evaluated when it lands. *)
From Coq Require Import ZArith List Bool Arith.
Require Import DS.Model.CommitBase DS.Gen.GenCommit DS.Model.Commit DS.Proofs.CommitGenProofs DS.Proofs.CommitProofs.
Require Import DS.Model.FlipFault DS.Proofs.FlipFaultProofs.
Import ListNotations.
Open Scope Z_scope.

(* A commit is acknowledged only if the pointer it replaced names the very version it validated:
   w_repl records, for every flip, (pointer value replaced, version validated). *)
Theorem C08_ack_implies_validated : forall c m0 kind mr evs, cas c = true ->
  let w := run c (init_world m0 kind mr) evs in
  Forall (fun p => fst p = snd p) (w_repl w).
Proof. intros c m0 kind mr evs CAS w. apply reach_repl. left. exact CAS. Qed.
Print Assumptions C08_ack_implies_validated.

(* ... so no acknowledged commit is overwritten, whatever the lock does: the table is the serial
   application of the flips, each acknowledged commit is reflected exactly once, and the versions
   form one linear chain. *)
Theorem C08_no_lost_update : forall c m0 kind mr evs, cas c = true ->
  let w := run c (init_world m0 kind mr) evs in
  m_ops (file w (w_ptr w)) = m_ops m0 ++ map snd (w_hist w)
  /\ NoDup (map snd (w_hist w))
  /\ (forall a, a_pc (w_actors w a) = PDone Success -> In a (map snd (w_hist w)))
  /\ chain_ok (w_files w) 0%nat (w_hist w).
Proof.
  intros c m0 kind mr evs CAS w. assert (S : sound c) by (left; exact CAS).
  split; [apply reach_serializable; exact S|]. split; [apply reach_once; exact S|]. split.
  - intros a H. apply (reach_acked c m0 kind mr evs S a). fold w. rewrite H. reflexivity.
  - apply reach_chain. exact S.
Qed.
Print Assumptions C08_no_lost_update.

(* With a lease lock the fence passes only for the current owner of the lock object ... *)
Theorem C08_fence : forall c w e w',
  lockkind c = Lease -> e_kind e = EFence true -> step c w e = Some w' -> w_lock w = Some (e_actor e).
Proof. exact fence_requires_lock. Qed.
Print Assumptions C08_fence.

(* ... and a committer that lost its lock before the commit point reports a retryable conflict,
   never success: a failed fence leads to PConflict, whose release yields a retry (PIdle) or
   PDone Conflict; PFenced -- the only state from which the pointer can be flipped -- is entered
   only through a fence that succeeded. *)
Theorem C08_stolen_never_success : forall c w e w',
  step c w e = Some w' ->
  (e_kind e = EFence false -> a_pc (w_actors w' (e_actor e)) = PConflict)
  /\ (e_kind e = ERelease -> a_pc (w_actors w (e_actor e)) = PConflict ->
      a_pc (w_actors w' (e_actor e)) = PIdle \/ a_pc (w_actors w' (e_actor e)) = PDone Conflict)
  /\ (forall a, a_pc (w_actors w' a) = PFenced -> a_pc (w_actors w a) <> PFenced ->
      e_actor e = a /\ e_kind e = EFence true).
Proof.
  intros c w e w' H. split; [intro EK; eapply fence_failed_conflict; eauto|]. split.
  - intros EK PC. eapply conflict_release_not_success; eauto.
  - intros a. apply (fenced_only_by_fence c w e w' a). exact H.
Qed.
Print Assumptions C08_stolen_never_success.

(* The conditional-write path of the source, regenerated on every run: the pointer is read ONCE together with its
   ETag (AReadPtrEtag precedes AValidate and is the only pointer read on the normal path; the translator fails closed
   if the ETag handed to the commit point has any other origin, or if the validated version is not derived from that
   read's bytes), and a refused conditional write is the RETRYABLE conflict while any other failure of it is
   ambiguous -- never success, never a clean failure. *)
Theorem C08_cas_path_regenerated :
  model_path true = gen_commit_path_cas
  /\ (exists pre post, gen_commit_path_cas = pre ++ AReadPtrEtag :: post /\ ~ In AReadPtrEtag pre /\ ~ In AReadPtrEtag post
        /\ ~ In AValidate pre /\ In AValidate post /\ In AFlip post)
  /\ (forall atomic, gen_flip_exn true atomic FEPrecondition = XConflict)
  /\ (forall atomic, gen_flip_exn true atomic FEError = XAmbiguous)
  /\ gen_tx_on XConflict false = TxRetry.
Proof.
  split; [exact model_path_cas_regenerated|]. split.
  - exists [ALock], [AMaybe ARefresh; AValidate; AStamp; AWriteMeta; AFence; AFlip; ARelease].
    split; [reflexivity|]. repeat split; simpl; intuition discriminate.
  - split; [exact flip_refused_is_conflict|]. split.
    + intro atomic. apply flip_error_possibly_applied_is_ambiguous. left. reflexivity.
    + reflexivity.
Qed.
Print Assumptions C08_cas_path_regenerated.

(* ---- the pointer write itself FAILS (Model/FlipFault.v): the conditional PUT raises an error that is not the store's
   refusal (read timeout, connection reset, 5xx ...), the store having applied it or not, anywhere in any interleaving with
   other committers and with ANY lock behaviour; a request that lands after its client gave up is the same event placed
   later in the schedule.  What the committer does next is computed from the two tables regenerated from the source
   (gen_flip_exn: _write_hint_at_commit_point's classification; gen_tx_on: Transaction.commit's except-arms): *)
Theorem C08_failed_flip_reaction_regenerated : forall atomic last,
  flip_reaction true atomic FEError last = RRaise true            (* reported to the caller, files kept: never acknowledged, never retried *)
  /\ flip_reaction true atomic FEPrecondition false = RRetry       (* the store's refusal: retried against a fresh base ... *)
  /\ flip_reaction true atomic FEPrecondition true = RRaise false. (* ... until the attempt bound *)
Proof. exact failed_flip_reaction. Qed.
Print Assumptions C08_failed_flip_reaction_regenerated.

(* ... every pointer replacement -- including those whose response was lost -- replaced exactly the version its committer
   validated, the table is the serial application of the replacements, every acknowledged commit is among them, once *)
Theorem C08_faulted_no_lost_update : forall c atomic m0 kind mr xs, cas c = true ->
  let w := xw (xrun c atomic (xinit (init_world m0 kind mr)) xs) in
  Forall (fun p => fst p = snd p) (w_repl w)
  /\ m_ops (file w (w_ptr w)) = m_ops m0 ++ map snd (w_hist w)
  /\ NoDup (map snd (w_hist w))
  /\ (forall a, a_pc (w_actors w a) = PDone Success -> In a (map snd (w_hist w)))
  /\ chain_ok (w_files w) 0%nat (w_hist w).
Proof. exact faulted_no_lost_update. Qed.
Print Assumptions C08_faulted_no_lost_update.

(* ... and a committer whose pointer write raised is NEVER acknowledged, whatever the pointer says afterwards (another
   committer may have landed a version with the same number meanwhile); once the exception has left commit() the
   committer is finished, and its commit is in the table exactly when the store had applied its write *)
Theorem C08_failed_write_never_acknowledged : forall c atomic m0 kind mr xs a, cas c = true ->
  let X := xrun c atomic (xinit (init_world m0 kind mr)) xs in
  In a (x_failed X) ->
  a_pc (w_actors (xw X) a) <> PDone Success
  /\ (x_err X a = None ->
      (a_pc (w_actors (xw X) a) = PDone Aborted /\ ~ In a (map snd (w_hist (xw X))))
      \/ (a_pc (w_actors (xw X) a) = PDone AbortedPost /\ In a (map snd (w_hist (xw X))))).
Proof. exact failed_write_never_acknowledged. Qed.
Print Assumptions C08_failed_write_never_acknowledged.

(* Non-vacuity: CAS storage with a lock that grants everyone.  Both actors validate version 0;
   actor 1 flips first; actor 0's delayed conditional PUT then fails (its ETag names version 0),
   it retries on top of version 1, and both commits are reflected: nothing is lost.  A lease
   variant: actor 0's lock is stolen before its fence, which therefore fails. *)
Definition ev a k := {| e_actor := a; e_kind := k |}.
Definition ex_m0 := {| m_ops := []; m_cur := 1; m_lu := 100 |}.
Definition ex_init := init_world ex_m0 (fun _ => KFresh) (fun _ => 50%nat).
Definition ex_sched : list event :=
  [ ev 0 (EBegin 0); ev 1 (EBegin 0); ev 0 (ELockTry true); ev 1 (ELockTry true);
    ev 0 (EValidate 0 true); ev 1 (EValidate 0 true); ev 0 (EMetaW 100); ev 1 (EMetaW 100);
    ev 0 (EFence true); ev 1 (EFence true); ev 1 (EFlip true); ev 0 (EFlip false); ev 1 ERelease; ev 0 ERelease;
    ev 0 (EBegin 2); ev 0 (ELockTry true); ev 0 (EValidate 2 true); ev 0 (EMetaW 100); ev 0 (EFence true);
    ev 0 (EFlip true); ev 0 ERelease ]%nat.
Example C08_nonvacuous :
  let c := {| cas := true; lockkind := GrantAll |} in
  let w := run c ex_init ex_sched in
  run_strict c ex_init ex_sched 0 = inl w
  /\ map snd (w_hist w) = [1; 0]%nat /\ w_repl w = [(0, 0); (2, 2)]%nat
  /\ a_pc (w_actors w 0%nat) = PDone Success /\ a_pc (w_actors w 1%nat) = PDone Success
  /\ (let cl := {| cas := true; lockkind := Lease |} in
      exists w1, run_strict cl ex_init [ev 0 (EBegin 0); ev 0 (ELockTry true); ev 0 (EValidate 0 true); ev 0 (EMetaW 100);
                                        ev 1 ESteal; ev 0 (EFence false); ev 0 ERelease]%nat 0 = inl w1
                 /\ a_pc (w_actors w1 0%nat) = PIdle /\ w_hist w1 = []).
Proof. vm_compute. repeat split. eexists. repeat split. Qed.

(* Non-vacuity of the failing-write theorems: both actors validate version 0 under a lock that grants everyone; actor 0's
   conditional PUT raises WITHOUT having been applied, actor 1 lands its version (same number, other file) before actor 0's
   exception has left commit(): actor 0 ends unacknowledged and not in the table.  Second schedule: actor 0's PUT raises
   after having been APPLIED: unacknowledged, in the table once; actor 1's PUT is then refused and it retries. *)
Definition xe a k := XE (ev a k).
Example C08_failed_write_nonvacuous :
  let c := {| cas := true; lockkind := GrantAll |} in
  let pre := [ xe 0 (EBegin 0); xe 1 (EBegin 0); xe 0 (ELockTry true); xe 1 (ELockTry true);
               xe 0 (EValidate 0 true); xe 1 (EValidate 0 true); xe 0 (EMetaW 100); xe 1 (EMetaW 100);
               xe 0 (EFence true); xe 1 (EFence true) ]%nat in
  (exists X, xrun_strict c false (xinit ex_init)
               (pre ++ [ XFlipErr 0 false; xe 1 (EFlip true); xe 1 ERelease; XUnwind 0 ])%nat 0 = inl X
     /\ x_failed X = [0]%nat /\ a_pc (w_actors (xw X) 0%nat) = PDone Aborted /\ a_pc (w_actors (xw X) 1%nat) = PDone Success
     /\ map snd (w_hist (xw X)) = [1]%nat)
  /\ (exists X, xrun_strict c false (xinit ex_init)
               (pre ++ [ XFlipErr 0 true; xe 1 (EFlip false); XUnwind 0; xe 1 ERelease; xe 1 (EBegin 1) ])%nat 0 = inl X
     /\ x_failed X = [0]%nat /\ a_pc (w_actors (xw X) 0%nat) = PDone AbortedPost /\ a_pc (w_actors (xw X) 1%nat) = PBegun
     /\ map snd (w_hist (xw X)) = [0]%nat)
  /\ (* an applied write cannot be claimed when the precondition does not hold at the store *)
     (exists i, xrun_strict c false (xinit ex_init) (pre ++ [ xe 1 (EFlip true); XFlipErr 0 true ])%nat 0 = inr i).
Proof. vm_compute. split; [|split]; eexists; repeat split. Qed.
