(* Props/C08.v -- A stale lock holder or delayed pointer write cannot lose an update on S3.
   Statements only; proofs are in Proofs/CommitProofs.v.

   `cas c = true` and NOTHING is assumed about the lock: lockkind may be Excl, Lease (with ESteal
   events -- lease lapse / takeover -- anywhere in the schedule) or GrantAll (no exclusion at all).
   A delayed (in-flight) conditional PUT is an EFlip event placed later in the schedule: its
   precondition is evaluated when it lands; a PUT whose client gave up on it (timeout -> AmbiguousCommitError -> lock
   released) and that lands LATER is Model/FlipFault.v's XFlipErr placed later (C08_delayed_landing_nonvacuous).
   commit()'s fallback on an UNUSABLE pointer (absent / garbage / dangling: `if current is None: current = self.refresh()`)
   is Model/PtrFallback.v: what holds when damaged pointer objects are distinguishable by the store, what holds only when the recovery scan is right too, and the
   counterexample when it is not, are the three C08_fallback_* statements below. *)
From Coq Require Import ZArith List Bool Arith.
Require Import DS.Model.CommitBase DS.Gen.GenCommit DS.Model.Commit DS.Proofs.CommitGenProofs DS.Proofs.CommitProofs.
Require Import DS.Model.FlipFault DS.Proofs.FlipFaultProofs.
Require Import DS.Model.PtrFallback DS.Proofs.PtrFallbackProofs DS.Proofs.LostLockProofs DS.Proofs.C08Proofs.
Import ListNotations.
Open Scope Z_scope.

(* A commit is acknowledged only if the pointer it replaced names the very version it validated:
   w_repl records, for every flip, (pointer value replaced, version validated).
   (In `step`, EValidate sets a_cur := v and a_etag := v at once: that the ETag handed to the commit point and the validated
   version come from ONE pointer read is not proved here -- it is the data-flow check of translator/gen_commit.py, which
   fails closed when the ETag has another origin or `current` is not derived from that read's bytes, and what the
   harness projection demands of every observed run.) *)
Theorem C08_ack_implies_validated : forall c m0 kind mr evs, cas c = true ->
  let w := run c (init_world m0 kind mr) evs in
  Forall (fun p => fst p = snd p) (w_repl w).
Proof. exact cas_ack_implies_validated. Qed.
Print Assumptions C08_ack_implies_validated.

(* ... so no acknowledged commit is overwritten, whatever the lock does: the table is the serial
   application of the flips, each acknowledged commit is reflected exactly once, and the versions
   form one linear chain. *)
Theorem C08_no_lost_update : forall c m0 kind mr evs, cas c = true ->
  let w := run c (init_world m0 kind mr) evs in
  m_ops (file w (w_ptr w)) = m_ops m0 ++ map snd (w_hist w)
  /\ NoDup (map snd (w_hist w))
  /\ (forall a, a_pc (w_actors w a) = PDone Success -> In a (map snd (w_hist w)))
  /\ chain_ok (w_files w) 0%nat (w_hist w).
Proof. exact cas_no_lost_update. Qed.
Print Assumptions C08_no_lost_update.

(* A committer that lost its lock before the commit point reports a retryable conflict, never success -- over SCHEDULES:
   actor a is inside commit() before its fence (lock taken; validating or writing its metadata file) when its lease lapses
   (ESteal by anybody).  Then for EVERY continuation evs of the schedule, whoever takes the lock meanwhile: either a is
   still before its fence, un-acknowledged, and has added nothing to the pointer history; or the first step that took a
   out of those states was a's own, left it in PConflict (the fence answered False / validation failed: the retryable
   ConcurrentModificationException, released by ERelease into a retry or the conflict report -- conflict_release_not_success)
   or ended the call without a pointer write (PDone Aborted: an exception / the process died), and a's part of the pointer
   history is what it was.  a never reaches PFenced, the only state from which the pointer can be written.
   "Before the commit point" is covered up to the FENCE: a lease that lapses between is_held() and the conditional PUT can
   still end in Success (C08_lapse_after_fence_example) -- harmless on conditional-write storage, because that PUT lands
   only if the pointer still names the version a validated (C08_ack_implies_validated), whoever holds the lock. *)
Theorem C08_lost_lock_before_fence_conflict : forall c w b a w' evs,
  lockkind c = Lease -> prefence (a_pc (w_actors w a)) = true ->
  step c w {| e_actor := b; e_kind := ESteal |} = Some w' ->
  (lost (run c w' evs) a /\ by_actor a (w_hist (run c w' evs)) = by_actor a (w_hist w))
  \/ (exists evs1 e evs2, evs = evs1 ++ e :: evs2 /\ e_actor e = a
        /\ lost (run c w' evs1) a
        /\ ended (a_pc (w_actors (run c w' (evs1 ++ [e])) a))
        /\ by_actor a (w_hist (run c w' (evs1 ++ [e]))) = by_actor a (w_hist w)).
Proof. exact lost_lock_before_fence_conflict. Qed.
Print Assumptions C08_lost_lock_before_fence_conflict.

(* The conditional-write path of the source, regenerated on every run: the pointer is read ONCE together with its
   ETag (AReadPtrEtag precedes AValidate and is the only pointer read on the normal path; the translator fails closed
   if the ETag handed to the commit point has any other origin, or if the validated version is not derived from that
   read's bytes), and a refused conditional write is the RETRYABLE conflict while any other failure of it is
   ambiguous -- never success, never a clean failure. *)
Theorem C08_cas_path_regenerated :
  model_path true = gen_commit_path_cas
  /\ (exists pre post, gen_commit_path_cas = pre ++ AReadPtrEtag :: post /\ ~ In AReadPtrEtag pre /\ ~ In AReadPtrEtag post
        /\ ~ In AValidate pre /\ In AValidate post /\ In AFlip post)
  /\ (forall atomic, gen_flip_exn true atomic FEPrecondition = XConflict)
  /\ (forall atomic, gen_flip_exn true atomic FEError = XAmbiguous)
  /\ gen_tx_on XConflict false = TxRetry.
Proof. exact cas_path_regenerated. Qed.
Print Assumptions C08_cas_path_regenerated.

(* ---- the pointer write itself FAILS (Model/FlipFault.v): the conditional PUT raises an error that is not the store's
   refusal (read timeout, connection reset, 5xx ...), the store having applied it or not, anywhere in any interleaving with
   other committers and with ANY lock behaviour; a request that lands after its client gave up is the same event placed
   later in the schedule.  What the committer does next is computed from the two tables regenerated from the source
   (gen_flip_exn: _write_hint_at_commit_point's classification; gen_tx_on: Transaction.commit's except-arms): *)
Theorem C08_failed_flip_reaction_regenerated : forall atomic last,
  flip_reaction true atomic FEError last = RRaise true            (* reported to the caller, files kept: never acknowledged, never retried *)
  /\ flip_reaction true atomic FEPrecondition false = RRetry       (* the store's refusal: retried against a fresh base ... *)
  /\ flip_reaction true atomic FEPrecondition true = RRaise false. (* ... until the attempt bound *)
Proof. exact failed_flip_reaction. Qed.
Print Assumptions C08_failed_flip_reaction_regenerated.

(* ... every pointer replacement -- including those whose response was lost -- replaced exactly the version its committer
   validated, the table is the serial application of the replacements, every acknowledged commit is among them, once.
   PARTIAL: stated over xrun_p true only -- the exact extra hypothesis is that no pointer write lands between a
   refused-although-applied write (XFlipResent) and its read-back (C08_acknowledged_iff_applied_* below).  Without it the
   statement is false: in the unrestricted machine superseded_witness makes the committer retry an operation the store has
   applied, and its second commit breaks NoDup (the operation is in the table twice; x_misreported = [0]).  For schedules
   without XFlipResent -- all of the failing-write alphabet -- the two machines coincide: prompt_irrelevant_without_pending. *)
Theorem C08_faulted_no_lost_update_partial : forall c atomic m0 kind mr xs, cas c = true ->
  let w := xw (xrun_p true c atomic (xinit (init_world m0 kind mr)) xs) in
  Forall (fun p => fst p = snd p) (w_repl w)
  /\ m_ops (file w (w_ptr w)) = m_ops m0 ++ map snd (w_hist w)
  /\ NoDup (map snd (w_hist w))
  /\ (forall a, a_pc (w_actors w a) = PDone Success -> In a (map snd (w_hist w)))
  /\ chain_ok (w_files w) 0%nat (w_hist w).
Proof. exact faulted_no_lost_update. Qed.
Print Assumptions C08_faulted_no_lost_update_partial.

(* ... and a committer whose pointer write raised is NEVER acknowledged, whatever the pointer says afterwards (another
   committer may have landed a version with the same number meanwhile); once the exception has left commit() the
   committer is finished, and its commit is in the table exactly when the store had applied its write *)
Theorem C08_failed_write_never_acknowledged : forall c atomic m0 kind mr xs a, cas c = true ->
  let X := xrun_p true c atomic (xinit (init_world m0 kind mr)) xs in
  In a (x_failed X) ->
  a_pc (w_actors (xw X) a) <> PDone Success
  /\ (x_err X a = None ->
      (a_pc (w_actors (xw X) a) = PDone Aborted /\ ~ In a (map snd (w_hist (xw X))))
      \/ (a_pc (w_actors (xw X) a) = PDone AbortedPost /\ In a (map snd (w_hist (xw X))))).
Proof. exact failed_write_never_acknowledged. Qed.
Print Assumptions C08_failed_write_never_acknowledged.

(* ---- the store REFUSES a write it has APPLIED (XFlipResent: the SDK re-sent a PutObject whose response was lost, and the
   re-sent copy of the conditional request is refused because the first one landed).  What the commit point does about a
   refusal is regenerated from _write_hint_at_commit_point / _hint_write_landed: it reads the pointer back, and the write
   counts as landed iff the pointer's content is exactly OUR file name (never the version NUMBER).  A source that calls
   every refusal a conflict makes this statement -- and with it the next one -- fail to check. *)
Theorem C08_refusal_read_back_regenerated :
  gen_refused_reads_back = true /\ (forall names_ours, gen_write_landed names_ours = names_ours).
Proof. exact refusal_read_back_regenerated. Qed.
Print Assumptions C08_refusal_read_back_regenerated.

(* An attempt is at / past its commit point EXACTLY when the store applied its pointer write; nobody is told "conflict" about
   a write the store applied (x_misreported = []: nobody discards the file the pointer names, nobody commits the same
   operation twice: NoDup); acknowledged => applied; applied => acknowledged at the release, unless an error / interrupt
   reached the caller after the write (AbortedPost).  For every schedule of protocol steps, failing pointer writes and
   refused-although-applied pointer writes, any lock, the read-back a step of its own -- the FULL statement (any schedule) is
   false: if another committer validates the landed version and replaces the pointer BEFORE the read-back, the read-back
   sees a foreign name and the applied write is reported as a conflict (superseded_witness; needs a lock that does not
   exclude, or a lease that lapses between two consecutive requests of the committer, on top of the SDK-level re-send) ... *)
Definition C08_acknowledged_iff_applied_full : Prop := forall prompt, acked_iff_applied_for prompt.
Theorem C08_acknowledged_iff_applied_refuted : ~ C08_acknowledged_iff_applied_full.
Proof. exact acknowledged_iff_applied_full_refuted. Qed.
Print Assumptions C08_acknowledged_iff_applied_refuted.

(* ... and it holds under the exact extra hypothesis that no pointer write lands between a refused-although-applied write
   and its read-back (prompt = true) *)
Theorem C08_acknowledged_iff_applied_partial : acked_iff_applied_for true.
Proof. exact acknowledged_iff_applied_prompt. Qed.
Print Assumptions C08_acknowledged_iff_applied_partial.

(* ---- commit()'s FALLBACK (Model/PtrFallback.v): the pointer object read with its ETag is unusable (absent / bytes that name
   nothing / the name of a missing file), `current = self.refresh()` re-reads the pointer and recovers the latest version
   by scanning; pointer damage (RDamage) may happen anywhere in the schedule, any number of times, any lock.
   The store compares only what it can SEE of an unusable object (rstep_s idn): "no object" (the committer's write is
   create-if-absent: IAbsent, ONE identity for every absence) or the ETag of garbled content (S3: its MD5 -- IGarbled b, one
   identity per content).  idn g = what the g-th damage event leaves behind.
   The statement: every applied pointer write replaced exactly the pointer object STATE whose ETag its committer had read
   under the lock; if that object named a version, that is the version validated, read from the very bytes that came with the
   ETag; if it was unusable, the version validated is the one recovered by the scan (a committer that found the pointer
   repaired when refresh() re-read it is refused by the store: it holds a dead ETag).
   FULL (any idn) it is FALSE, for an absent pointer and for garbled ones: the pointer deleted twice -- or garbled twice with
   the same bytes -- within one attempt lets a conditional write keyed to the first damage land on the second, on top of a
   commit acknowledged in between (double_damage_witness; source: hint_etag = None -> If-None-Match: *; S3 ETag = content
   MD5.  Reproduced on the real code; it needs an agent OUTSIDE the library destroying the pointer twice the same way
   within one commit attempt -- no pause, lease lapse, takeover or delayed write of the property's schedules does that). *)
Definition C08_fallback_replaced_what_it_read_full : Prop := forall idn, fallback_replaced_for idn.
Theorem C08_fallback_replaced_what_it_read_refuted :
  ~ fallback_replaced_for (fun _ => IAbsent)            (* PAbsent: deleted twice *)
  /\ ~ fallback_replaced_for (fun _ => IGarbled 0)      (* PGarbled: the same garbage twice *)
  /\ ~ C08_fallback_replaced_what_it_read_full.
Proof. exact (conj fallback_replaced_absent_refuted (conj fallback_replaced_same_garbage_refuted fallback_replaced_full_refuted)). Qed.
Print Assumptions C08_fallback_replaced_what_it_read_refuted.

(* ... and it HOLDS under the exact extra hypothesis that no two damage events leave the same store-visible object (at most
   one of them leaves the pointer absent, garbled contents pairwise different) -- whatever the scans return *)
Theorem C08_fallback_replaced_what_it_read_partial : forall idn, (forall g g', idn g = idn g' -> g = g') ->
  forall c exact m0 kind mr xs, cas c = true ->
  Forall entry_ok (r_repl (rrun_s idn c exact (rinit (init_world m0 kind mr)) xs)).
Proof. exact fallback_replaced_distinguishable. Qed.
Print Assumptions C08_fallback_replaced_what_it_read_partial.

(* "No acknowledged commit is overwritten" on that path needs MORE than the conditional write can give: the full statement
   (any store-visible identities, scans that may return any metadata file) is FALSE twice over -- a scan that returns another
   committer's unpublished file of the same version number loses an acknowledged commit (lost_update_witness: needs a lock
   that does not exclude AND a pointer damaged after that commit), and with exact scans the double damage above does ... *)
Definition C08_fallback_no_lost_update_full : Prop := forall idn exact, fallback_no_lost_update_s idn exact.
Theorem C08_fallback_no_lost_update_refuted :
  ~ fallback_no_lost_update_s (fun g => IGarbled g) false     (* distinguishable damage, inexact scan *)
  /\ ~ fallback_no_lost_update_s (fun _ => IAbsent) true      (* exact scans, pointer deleted twice *)
  /\ ~ C08_fallback_no_lost_update_full.
Proof.
  exact (conj fallback_no_lost_update_s_inexact_refuted
          (conj fallback_no_lost_update_s_double_damage_refuted fallback_no_lost_update_s_full_refuted)).
Qed.
Print Assumptions C08_fallback_no_lost_update_refuted.

(* ... and it HOLDS, for every schedule with damage events and fallbacks and any lock, under the two exact extra hypotheses:
   every recovery scan returns the version named by the last successful pointer write (`exact = true`; that the library's
   scan does so is the subject of C10 -- the residual is the same event as C10_leftover_surfaces: an unpublished leftover
   surfacing through the scan), and no two damage events leave the same store-visible object *)
Theorem C08_fallback_no_lost_update_partial : forall idn, (forall g g', idn g = idn g' -> g = g') ->
  fallback_no_lost_update_s idn true.
Proof. exact fallback_no_lost_update_s_exact. Qed.
Print Assumptions C08_fallback_no_lost_update_partial.

(* the fallback attempt is the regenerated skeleton of MetadataManager.commit with its data-dependent refresh() taken *)
Theorem C08_fallback_path_regenerated : forall a g r now,
  flat_map ractions_of (fallback_events a g r now) = map force gen_commit_path_cas.
Proof. exact fallback_path_regenerated. Qed.
Print Assumptions C08_fallback_path_regenerated.

(* Non-vacuity: CAS storage with a lock that grants everyone.  Both actors validate version 0;
   actor 1 flips first; actor 0's delayed conditional PUT then fails (its ETag names version 0),
   it retries on top of version 1, and both commits are reflected: nothing is lost.  A lease
   variant: actor 0's lock is stolen before its fence, which therefore fails. *)
Definition ev a k := {| e_actor := a; e_kind := k |}.
Definition ex_m0 := {| m_ops := []; m_cur := 1; m_lu := 100 |}.
Definition ex_init := init_world ex_m0 (fun _ => KFresh) (fun _ => 50%nat).
Definition ex_sched : list event :=
  [ ev 0 (EBegin 0); ev 1 (EBegin 0); ev 0 (ELockTry true); ev 1 (ELockTry true);
    ev 0 (EValidate 0 true); ev 1 (EValidate 0 true); ev 0 (EMetaW 100); ev 1 (EMetaW 100);
    ev 0 (EFence true); ev 1 (EFence true); ev 1 (EFlip true); ev 0 (EFlip false); ev 1 ERelease; ev 0 ERelease;
    ev 0 (EBegin 2); ev 0 (ELockTry true); ev 0 (EValidate 2 true); ev 0 (EMetaW 100); ev 0 (EFence true);
    ev 0 (EFlip true); ev 0 ERelease ]%nat.
Example C08_nonvacuous :
  let c := {| cas := true; lockkind := GrantAll |} in
  let w := run c ex_init ex_sched in
  run_strict c ex_init ex_sched 0 = inl w
  /\ map snd (w_hist w) = [1; 0]%nat /\ w_repl w = [(0, 0); (2, 2)]%nat
  /\ a_pc (w_actors w 0%nat) = PDone Success /\ a_pc (w_actors w 1%nat) = PDone Success
  /\ (let cl := {| cas := true; lockkind := Lease |} in
      exists w1, run_strict cl ex_init [ev 0 (EBegin 0); ev 0 (ELockTry true); ev 0 (EValidate 0 true); ev 0 (EMetaW 100);
                                        ev 1 ESteal; ev 0 (EFence false); ev 0 ERelease]%nat 0 = inl w1
                 /\ a_pc (w_actors w1 0%nat) = PIdle /\ w_hist w1 = []).
Proof. vm_compute. repeat split. eexists. repeat split. Qed.

(* Non-vacuity of the failing-write theorems: both actors validate version 0 under a lock that grants everyone; actor 0's
   conditional PUT raises WITHOUT having been applied, actor 1 lands its version (same number, other file) before actor 0's
   exception has left commit(): actor 0 ends unacknowledged and not in the table.  Second schedule: actor 0's PUT raises
   after having been APPLIED: unacknowledged, in the table once; actor 1's PUT is then refused and it retries. *)
Definition xe a k := XE (ev a k).
Example C08_failed_write_nonvacuous :
  let c := {| cas := true; lockkind := GrantAll |} in
  let pre := [ xe 0 (EBegin 0); xe 1 (EBegin 0); xe 0 (ELockTry true); xe 1 (ELockTry true);
               xe 0 (EValidate 0 true); xe 1 (EValidate 0 true); xe 0 (EMetaW 100); xe 1 (EMetaW 100);
               xe 0 (EFence true); xe 1 (EFence true) ]%nat in
  (exists X, xrun_strict c false (xinit ex_init)
               (pre ++ [ XFlipErr 0 false; xe 1 (EFlip true); xe 1 ERelease; XUnwind 0 ])%nat 0 = inl X
     /\ x_failed X = [0]%nat /\ a_pc (w_actors (xw X) 0%nat) = PDone Aborted /\ a_pc (w_actors (xw X) 1%nat) = PDone Success
     /\ map snd (w_hist (xw X)) = [1]%nat)
  /\ (exists X, xrun_strict c false (xinit ex_init)
               (pre ++ [ XFlipErr 0 true; xe 1 (EFlip false); XUnwind 0; xe 1 ERelease; xe 1 (EBegin 1) ])%nat 0 = inl X
     /\ x_failed X = [0]%nat /\ a_pc (w_actors (xw X) 0%nat) = PDone AbortedPost /\ a_pc (w_actors (xw X) 1%nat) = PBegun
     /\ map snd (w_hist (xw X)) = [0]%nat)
  /\ (* an applied write cannot be claimed when the precondition does not hold at the store *)
     (exists i, xrun_strict c false (xinit ex_init) (pre ++ [ xe 1 (EFlip true); XFlipErr 0 true ])%nat 0 = inr i).
Proof. vm_compute. split; [|split]; eexists; repeat split. Qed.

(* Non-vacuity of the lost-lock theorem (lease lock): actor 0 has validated and written its file when its lease lapses and
   actor 1 takes the lock over and commits; actor 0's fence then fails, it adds nothing to the history, releases and is
   back at the start of a new attempt (the retry).  The schedule is accepted step by step (run_strict). *)
Example C08_lost_lock_nonvacuous :
  let c := {| cas := true; lockkind := Lease |} in
  let pre := [ev 0 (EBegin 0); ev 0 (ELockTry true); ev 0 (EValidate 0 true); ev 0 (EMetaW 100); ev 1 (EBegin 0)]%nat in
  let post := [ev 1 (ELockTry true); ev 1 (EValidate 0 true); ev 1 (EMetaW 100); ev 1 (EFence true); ev 1 (EFlip true); ev 1 ERelease;
               ev 0 (EFence false); ev 0 ERelease]%nat in
  let w0 := run c ex_init pre in
  let w1 := run c w0 [ev 1%nat ESteal] in
  let w2 := run c w1 post in
  run_strict c ex_init pre 0 = inl w0 /\ prefence (a_pc (w_actors w0 0%nat)) = true
  /\ step c w0 (ev 1%nat ESteal) = Some w1 /\ lost w1 0%nat
  /\ run_strict c w1 post 0 = inl w2
  /\ a_pc (w_actors w2 0%nat) = PIdle /\ a_pc (w_actors w2 1%nat) = PDone Success /\ map snd (w_hist w2) = [1]%nat.
Proof. vm_compute. repeat split. discriminate. Qed.

(* The limit of "before the commit point": a lease that lapses AFTER the fence passed does not stop the conditional PUT; the
   committer is acknowledged -- and nothing is lost, the PUT having replaced the version it validated. *)
Example C08_lapse_after_fence_example :
  let c := {| cas := true; lockkind := Lease |} in
  exists w, run_strict c ex_init [ev 0 (EBegin 0); ev 0 (ELockTry true); ev 0 (EValidate 0 true); ev 0 (EMetaW 100); ev 0 (EFence true);
                                  ev 1 ESteal; ev 0 (EFlip true); ev 0 ERelease]%nat 0 = inl w
    /\ a_pc (w_actors w 0%nat) = PDone Success /\ w_repl w = [(0, 0)]%nat.
Proof. vm_compute. eexists. repeat split. Qed.

(* The delayed pointer write of the property text, literally: actor 0's conditional PUT is in flight when its client gives up
   (timeout -> AmbiguousCommitError); its lock is released (lease lock: ESteal); actor 1 takes the lock and commits; only THEN
   does actor 0's request reach the store -- refused, its ETag names version 0 (first schedule).  Second schedule: the
   late request lands BEFORE actor 1's write: applied, actor 0 is still not acknowledged (AbortedPost), actor 1's write is
   refused and it retries on top of actor 0's version. *)
Example C08_delayed_landing_nonvacuous :
  let c := {| cas := true; lockkind := Lease |} in
  let pre := [ xe 0 (EBegin 0); xe 1 (EBegin 0); xe 0 (ELockTry true); xe 0 (EValidate 0 true); xe 0 (EMetaW 100); xe 0 (EFence true);
               xe 0 ESteal; xe 1 (ELockTry true); xe 1 (EValidate 0 true); xe 1 (EMetaW 100); xe 1 (EFence true) ]%nat in
  (exists X, xrun_strict c false (xinit ex_init) (pre ++ [ xe 1 (EFlip true); xe 1 ERelease; XFlipErr 0 false; XUnwind 0 ])%nat 0 = inl X
     /\ a_pc (w_actors (xw X) 0%nat) = PDone Aborted /\ a_pc (w_actors (xw X) 1%nat) = PDone Success
     /\ map snd (w_hist (xw X)) = [1]%nat /\ w_repl (xw X) = [(0, 0)]%nat)
  /\ (exists X, xrun_strict c false (xinit ex_init)
                 (pre ++ [ XFlipErr 0 true; XUnwind 0; xe 1 (EFlip false); xe 1 ERelease; xe 1 (EBegin 1) ])%nat 0 = inl X
     /\ a_pc (w_actors (xw X) 0%nat) = PDone AbortedPost /\ a_pc (w_actors (xw X) 1%nat) = PBegun
     /\ map snd (w_hist (xw X)) = [0]%nat /\ x_failed X = [0]%nat)
  /\ (* the late request cannot be applied once the pointer has moved on *)
     (exists i, xrun_strict c false (xinit ex_init) (pre ++ [ xe 1 (EFlip true); xe 1 ERelease; XFlipErr 0 true ])%nat 0 = inr i).
Proof. vm_compute. split; [|split]; eexists; repeat split. Qed.

(* Non-vacuity of the fallback theorems.  (1) the pointer is damaged at rest; actor 0 reads its base by scanning, finds the
   unusable object under the lock, recovers version 0, commits with the conditional write keyed to the unusable object and
   thereby REPAIRS the pointer; actor 1, which had read the same unusable object, is refused (its ETag is dead), retries on
   the repaired pointer through the normal path and commits: both acknowledged, one chain, r_repl = the unusable object
   replaced by a scan-validated commit, then a direct one.  (2) actor 1 found the pointer unusable at the ETag read and
   REPAIRED when refresh() re-read it: it validates the repaired pointer's version and is refused.  Accepted with exact = true. *)
Example C08_fallback_nonvacuous :
  let c := {| cas := true; lockkind := GrantAll |} in
  (exists X, rrun_strict c true (rinit ex_init)
               ([ RDamage; RBegin 0 0; RBegin 1 0; rx 1 (ELockTry true); RReadBad 1 0; RRefresh 1 (RScan 0) true;
                  rx 1 (EMetaW 100); rx 1 (EFence true) ] ++ fallback_events 0 0 0 100%Z
                ++ [ RFlip 1 false; rx 1 ERelease;
                     rx 1 (EBegin 2); rx 1 (ELockTry true); rx 1 (EValidate 2 true); rx 1 (EMetaW 100); rx 1 (EFence true);
                     rx 1 (EFlip true); rx 1 ERelease ])%nat 0 = inl X
     /\ a_pc (w_actors (rw X) 0%nat) = PDone Success /\ a_pc (w_actors (rw X) 1%nat) = PDone Success
     /\ map snd (w_hist (rw X)) = [0; 1]%nat /\ phys X = PGood 3%nat /\ r_inexact X = 0%nat
     /\ map (fun e => (re_actor e, re_replaced e, re_validated e, re_how e)) (r_repl X)
        = [(0, PBad 0, 0, HScan); (1, PGood 2, 2, HDirect)]%nat)
  /\ (exists X, rrun_strict c true (rinit ex_init)
               ([ RDamage; RBegin 0 0; RBegin 1 0; rx 1 (ELockTry true); RReadBad 1 0 ] ++ fallback_events 0 0 0 100%Z
                ++ [ RRefresh 1 (RGood 1) false; rx 1 ERelease;
                     rx 1 (EBegin 1); rx 1 (ELockTry true); rx 1 (EValidate 1 true); rx 1 (EMetaW 100); rx 1 (EFence true);
                     rx 1 (EFlip true); rx 1 ERelease ])%nat 0 = inl X
     /\ a_pc (w_actors (rw X) 1%nat) = PDone Success /\ map snd (w_hist (rw X)) = [0; 1]%nat)
  /\ (* a scan result other than the last successfully written version is not a step of the exact machine *)
     (exists i, rrun_strict c true (rinit ex_init)
                  [ rx 0 (EBegin 0); rx 0 (ELockTry true); rx 0 (EValidate 0 true); rx 0 (EMetaW 100); RDamage; RBegin 1 1 ]%nat 0 = inr i)
  /\ (exists X, rrun_strict c false (rinit ex_init) lost_update_witness 0 = inl X /\ r_inexact X = 2%nat
                /\ a_pc (w_actors (rw X) 1%nat) = PDone Success /\ m_ops (file (rw X) (w_ptr (rw X))) = [0; 2]%nat)
  /\ (* the double damage: accepted step by step by the store that sees only "absent", exact scans; both acknowledged, actor
        1's operation gone, actor 0's write replaced incarnation 1 holding incarnation 0's identity ... *)
     (exists X, rrun_s_strict (fun _ => IAbsent) c true (rinit ex_init) double_damage_witness 0 = inl X /\ r_inexact X = 0%nat
                /\ a_pc (w_actors (rw X) 0%nat) = PDone Success /\ a_pc (w_actors (rw X) 1%nat) = PDone Success
                /\ m_ops (file (rw X) (w_ptr (rw X))) = [0]%nat
                /\ map (fun e => (re_actor e, re_replaced e, re_held e)) (r_repl X) = [(1, PBad 0, PBad 0); (0, PBad 1, PBad 0)]%nat)
  /\ (* ... and refused by the store that can tell the two damages apart (the hypothesis of the _partial theorems) *)
     (exists i, rrun_s_strict (fun g => IGarbled g) c true (rinit ex_init) double_damage_witness 0 = inr i).
Proof. vm_compute. repeat split; eexists; repeat split. Qed.

(* Non-vacuity of the refused-although-applied theorems (lock that excludes nobody; both actors validated version 0).
   (1) accepted by the PROMPT machine: actor 0's write is applied, the re-sent copy refused; it reads the pointer back, finds
   its own file name, releases: acknowledged; actor 1's write is (genuinely) refused and it retries.  (2) the prompt machine
   does not let actor 1 land a write while actor 0's read-back is pending; (3) the unrestricted machine does, and actor 0's
   applied write is then reported to it as a conflict (the refutation witness, step by step). *)
Example C08_resent_nonvacuous :
  let c := {| cas := true; lockkind := GrantAll |} in
  let pre := [ xe 0 (EBegin 0); xe 1 (EBegin 0); xe 0 (ELockTry true); xe 1 (ELockTry true);
               xe 0 (EValidate 0 true); xe 1 (EValidate 0 true); xe 0 (EMetaW 100); xe 1 (EMetaW 100);
               xe 0 (EFence true); xe 1 (EFence true) ]%nat in
  (exists X, xrun_strict_p true c false (xinit ex_init)
               (pre ++ [ XFlipResent 0; xe 1 (EFlip false); XReadBack 0; xe 0 ERelease; xe 1 ERelease ])%nat 0 = inl X
     /\ a_pc (w_actors (xw X) 0%nat) = PDone Success /\ a_pc (w_actors (xw X) 1%nat) = PIdle
     /\ map snd (w_hist (xw X)) = [0]%nat /\ x_misreported X = [] /\ x_npending X = 0%nat)
  /\ (exists i, xrun_strict_p true c false (xinit ex_init)
               (pre ++ [ XFlipResent 0; xe 1 (EFlip false); xe 1 ERelease;
                         xe 1 (EBegin 1); xe 1 (ELockTry true); xe 1 (EValidate 1 true); xe 1 (EMetaW 100); xe 1 (EFence true);
                         xe 1 (EFlip true) ])%nat 0 = inr i)
  /\ (exists X, xrun_strict c false (xinit ex_init) superseded_witness 0 = inl X
     /\ x_misreported X = [0]%nat /\ a_pc (w_actors (xw X) 0%nat) = PIdle /\ map snd (w_hist (xw X)) = [0; 1]%nat)
  /\ (* while the read-back is pending the committer does nothing else; a write that cannot be applied cannot be "resent" *)
     (exists i, xrun_strict c false (xinit ex_init) (pre ++ [ XFlipResent 0; xe 0 ERelease ])%nat 0 = inr i)
  /\ (exists i, xrun_strict c false (xinit ex_init) (pre ++ [ xe 1 (EFlip true); XFlipResent 0 ])%nat 0 = inr i).
Proof. vm_compute. repeat split; eexists; repeat split. Qed.
