(* Props/C05.v -- Garbage collection never deletes anything reachable or in flight.
   Only theorem statements, each closed by `exact <lemma>`, with Print Assumptions beneath.
   Model: Model/GC.v (collect() call by call); normalize_path / marker fallback / constants are
   REGENERATED from garbage_collector.py and transaction.py (Gen/GenNorm.v) on every run. *)
From Coq Require Import ZArith String Ascii List Bool.
Require Import DS.Model.PyStr DS.Gen.GenNorm DS.Gen.GenGCLog DS.Model.GC DS.Model.GCHist DS.Model.GCHistFS DS.Model.LogConf DS.Model.GCConf DS.Proofs.GCNormProofs DS.Proofs.GCAcceptProofs DS.Proofs.GCProofs DS.Proofs.GCLiveProofs DS.Proofs.GCHistProofs DS.Proofs.GCHistFSProofs DS.Proofs.GCConfProofs.
Import ListNotations.
Open Scope string_scope.
Open Scope Z_scope.

(* Both spellings of one file ("/data/x" in manifests, "data/x" in listings) normalise to the listed
   key -- for EVERY table-location string tp (absolute, relative, "d", "data", "/data", "m", ...) and
   every key under data/ or metadata/. *)
Theorem C05_norm_agree : forall (tp p : string), table_relative p ->
  normalize_path tp ("/" ++ p) = normalize_path tp p /\ normalize_path tp p = p.
Proof. exact norm_agree. Qed.
Print Assumptions C05_norm_agree.

(* A collection (any table location, grace period, clock, abandonment timeout, file ages) over a store
   in writer form deletes no file referenced by ANY retained snapshot, no file registered by a live
   transaction, and nothing younger than the grace period. *)
Theorem C05_gc_safe : forall (tp : string) (grace now timeout : Z) (snaps : list string) (st : store),
  wf_store snaps st ->
  forall k, In k (r_deleted (gc_run tp grace now timeout no_faults snaps st)) ->
    ~ referenced snaps st k /\ ~ live_target now timeout st k /\ exists ob, lookup k st = Some ob /\ mtime ob < now - grace.
Proof. exact gc_safe_nofault. Qed.
Print Assumptions C05_gc_safe.

(* Orphans ARE removed: in a completed fault-free collection every file under data/ or metadata/manifests/ that no
   retained snapshot references, no live transaction registered, and that is older than the grace period is deleted. *)
Theorem C05_gc_live : forall (tp : string) (grace now timeout : Z) (snaps : list string) (st : store),
  wf_store snaps st -> r_out (gc_run tp grace now timeout no_faults snaps st) = Done ->
  forall k ob, lookup k st = Some ob ->
    startswith (DATA_PREFIX ++ "/") k = true \/ startswith (MANIFESTS_PREFIX ++ "/") k = true ->
    ~ referenced snaps st k -> ~ live_target now timeout st k -> mtime ob < now - grace ->
    In k (r_deleted (gc_run tp grace now timeout no_faults snaps st)).
Proof. exact gc_live. Qed.
Print Assumptions C05_gc_live.

(* On an undamaged store (every referenced list and manifest present and parseable) a fault-free collection never
   aborts -- for every table location (the unrepaired code aborted every run of a table located at "m" / "metadata"). *)
Theorem C05_no_abort : forall (tp : string) (grace now timeout : Z) (snaps : list string) (st : store),
  wf_store snaps st -> undamaged snaps st -> r_out (gc_run tp grace now timeout no_faults snaps st) = Done.
Proof. exact gc_no_abort. Qed.
Print Assumptions C05_no_abort.

(* After ANY sequential history -- commits (append / multi-operation / delete_files with any path spelling), expiries,
   snapshot deletions, open transactions, planted orphans, arbitrary file ages, and collections with any table location,
   grace period, clock, abandonment timeout and ANY fault oracle -- the store is in writer form and every retained
   snapshot is fully present: its manifest list, every manifest in it, every data file they name.  No bound on length.
   The machine (Model/GCHistFS.v) runs over a backend that may have SEVERAL spellings of one key: `canon` is the backend's key
   function (a filesystem resolves "data//f", "data/./f", "data/x/../f" to data/f; S3 keys are literal), `normpath` is
   posixpath.normpath, both ABSTRACT; a commit's existence check goes through canon, its acceptance is the REGENERATED guard of
   Transaction.append_files over normpath, the collector compares strings.  The only hypothesis is the law relating the two. *)
Theorem C05_history : forall (normpath canon : string -> string), (forall s, normpath s = s -> canon s = s) ->
  forall ops : list hop,
  let h := run_hist_fs normpath canon ops in
  wf_store (h_lists h) (h_store h) /\ forall l, In l (h_lists h) -> snapshot_present (h_store h) l.
Proof. exact history_invariant_fs. Qed.
Print Assumptions C05_history.

(* ... and the law is what the canonical-spelling half of the guard is for.  With that half erased (normpath := the identity: every
   spelling is "canonical") on a filesystem (canon := squeeze, "//" collapsed) the statement is FALSE: commit data/a, re-commit it
   under the entry "data//a" (accepted; the filesystem finds the file), drop the first snapshot, collect -- the string comparison
   deletes data/a and the retained snapshot names a file the backend no longer has. *)
Theorem C05_alias_spelling_refuted :
  let h := run_hist_fs no_normpath squeeze alias_ops in
  In (man_key "l2") (h_lists h) /\ ~ snapshot_present_fs squeeze (h_store h) (man_key "l2").
Proof. exact alias_spelling_refuted. Qed.
Print Assumptions C05_alias_spelling_refuted.

(* The generic commit step of the history machine is not vacuous: the append of Table.append_records -- new data file,
   new manifest naming it under any of its three canonical spellings, new list carrying over ALL manifests of the current
   snapshot -- with fresh (uuid) names that normpath leaves alone always passes the step's side conditions, from every state. *)
Theorem C05_append_commits : forall (normpath canon : string -> string), (forall s, normpath s = s -> canon s = s) ->
  forall (h : hstate) (sid : Z) (name : string) (sp : nat) (mname lname : string) (mt : Z),
  normpath (data_key name) = data_key name ->
  lookup (data_key name) (h_store h) = None -> lookup (man_key mname) (h_store h) = None -> lookup (man_key lname) (h_store h) = None ->
  mname <> lname ->
  match op_append h sid name sp mname lname mt with
  | HCommit _ nd nm kept ln lmt _ => valid_commit_fs normpath canon h nd nm kept ln lmt = true
  | _ => False
  end.
Proof. exact op_append_valid_fs. Qed.
Print Assumptions C05_append_commits.

(* What the history machine's commit step takes from the source: append_accepts_path is REGENERATED from Transaction.append_files on
   every run (the path guards applied unconditionally to every file of the call; posixpath.normpath is a parameter).  BOTH halves are
   used: (1) an accepted entry names a file under data/ (the writer-side fact wf_store demands: on a tree without it a data file
   accepted at metadata/manifests/f or metadata/inflight/f.inflight is deleted by the manifest sweep / the abandoned-marker sweep
   while snapshots reference it); (2) an accepted entry is spelled canonically, normpath rel = rel -- which with the law of
   C05_history makes the backend's key the literal string the collector compares.  On a tree whose append_files lacks either
   conjunct this theorem, and with it C05_history, does not compile. *)
Theorem C05_acceptance_regenerated : forall (normpath : string -> string) (e : string),
  append_accepts_path normpath e = true -> wf_data_ref e /\ normpath (resolve e) = resolve e.
Proof. exact accepts_both_halves. Qed.
Print Assumptions C05_acceptance_regenerated.

(* --- process-wide configuration: COUNTED SOURCE FACTS (Gen/GenGCLog.v is REGENERATED on every run) --- *)

(* gc_run (every theorem above) has no configuration input.  What justifies that is the source text, stated here as what the
   regenerated tables ARE -- not a theorem about gc_run: in garbage_collector.py (lexical check of the whole module, fail closed) and
   in every function of file_manager / metadata_manager / storage_backend / s3_consistency / integrity / disk_utils reachable by name
   from it (GC_REACH; counting scan) there is no use of a logger other than logging statements whose arguments only observe, no use
   of the logging module, no read of os.environ / os.getenv.  Outside that scope (third-party packages, dynamic dispatch, __str__ of
   logged objects) nothing is claimed.  The differential side: every collection of every generated history runs under a drawn
   configuration and is predicted without it. *)
Theorem C05_conf_not_consulted : GC_CONF_READS = [] /\ GC_ENV_READS = [] /\ GC_ENV_VARS = [].
Proof. exact conf_not_consulted. Qed.
Print Assumptions C05_conf_not_consulted.

(* Non-vacuity: the scan reaches the storage calls of the collector in both backends and the metadata read path, finds logging
   statements there (some at DEBUG), and DOES see environment reads in the scope modules -- in create_storage_backend, which the
   collector does not reach; the collector's own table has a DEBUG-only statement, enabled by set_level(DEBUG) and by nothing in
   the default configuration (Proofs/GCConfProofs.v has the arithmetic of Model/LogConf.v as lemmas). *)
Example C05_conf_nonvacuous :
  In ("storage_backend", "LocalStorageBackend.delete_file") GC_REACH /\ In ("storage_backend", "S3StorageBackend.list_files") GC_REACH
  /\ In ("metadata_manager", "MetadataManager.refresh") GC_REACH /\ In ("file_manager", "FileManager.read_manifest_file") GC_REACH
  /\ ~ In ("storage_backend", "create_storage_backend") GC_REACH
  /\ In ("storage_backend", "create_storage_backend", "DATASHARD_STORAGE_TYPE") GC_UNREACHED_ENV_READS
  /\ In ("storage_backend", "S3StorageBackend.read_file", DEBUG) GC_CALLEE_LOG_SITES
  /\ In ("_gc_prefix", DEBUG) GC_LOG_SITES
  /\ may_emit (conf_run [ESetLevel DEBUG] conf_default) = GC_LOG_SITES
  /\ (length (may_emit conf_default) < length GC_LOG_SITES)%nat.
Proof.
  assert (D : forall (x : string * string) l, existsb (fun y => String.eqb (fst x) (fst y) && String.eqb (snd x) (snd y)) l = false -> ~ In x l).
  { intros x l H Hin. assert (T : existsb (fun y => String.eqb (fst x) (fst y) && String.eqb (snd x) (snd y)) l = true).
    { apply existsb_exists. exists x. split; [exact Hin|]. rewrite !String.eqb_refl. reflexivity. }
    rewrite T in H. discriminate. }
  repeat match goal with |- _ /\ _ => split end;
    try (apply D; vm_compute; reflexivity);
    try (vm_compute; reflexivity);
    try (vm_compute; repeat (first [left; reflexivity | right])).
Qed.

(* Non-vacuity: a table located at "data" (the location that made the unrepaired normalisation delete
   every live file) with two retained snapshots sharing a manifest, an orphan data file, an orphan
   manifest, a file younger than the grace period and a live transaction's file: well-formed, the run
   completes and deletes exactly the two old orphans. *)
Definition ex_st : store := [
  ("data/a.parquet", mkObj 1000 CData);
  ("data/b.parquet", mkObj 1000 CData);
  ("data/orphan.parquet", mkObj 1000 CData);
  ("data/young.parquet", mkObj 999500 CData);
  ("data/tx.parquet", mkObj 1000 CData);
  ("metadata/manifests/m1.avro", mkObj 1000 (CManifest FAvro ["/data/a.parquet"]));
  ("metadata/manifests/m2.avro", mkObj 1000 (CManifest FAvro ["/data/b.parquet"]));
  ("metadata/manifests/l1.avro", mkObj 1000 (CList FAvro ["metadata/manifests/m1.avro"]));
  ("metadata/manifests/l2.avro", mkObj 1000 (CList FAvro ["metadata/manifests/m1.avro"; "metadata/manifests/m2.avro"]));
  ("metadata/manifests/old.avro", mkObj 1000 CGarbage);
  ("metadata/inflight/tx.parquet.inflight", mkObj 999000 (CMarker (Some "data/tx.parquet")))
].
Definition ex_snaps : list string := ["metadata/manifests/l1.avro"; "metadata/manifests/l2.avro"].

Example C05_nonvacuous :
  wf_store ex_snaps ex_st
  /\ r_out (gc_run "data" 1000 1000000 86400000 no_faults ex_snaps ex_st) = Done
  /\ r_deleted (gc_run "data" 1000 1000000 86400000 no_faults ex_snaps ex_st) = ["metadata/manifests/old.avro"; "data/orphan.parquet"]
  /\ referenced ex_snaps ex_st "data/a.parquet"
  /\ live_target 1000000 86400000 ex_st "data/tx.parquet".
Proof.
  split; [apply wf_storeb_sound; vm_compute; reflexivity|].
  split; [vm_compute; reflexivity|]. split; [vm_compute; reflexivity|]. split.
  - right. right. exists "metadata/manifests/l1.avro", ["metadata/manifests/m1.avro"], "metadata/manifests/m1.avro", ["/data/a.parquet"], "/data/a.parquet".
    repeat split; simpl; auto; eexists; split; reflexivity.
  - exists "metadata/inflight/tx.parquet.inflight", (mkObj 999000 (CMarker (Some "data/tx.parquet"))).
    repeat split; try reflexivity. vm_compute. discriminate.
Qed.

(* Non-vacuity of C05_history: two commits (the second carries the first manifest over and spells its entry "data/b"),
   an open transaction, an orphan, deletion of the first snapshot, then a grace-1000 collection at location "data":
   snapshot 2 is retained and fully present; the orphan and the dropped snapshot's manifest list are gone; the open
   transaction's file survives. *)
Definition ex_ops : list hop := [
  HCommit 1 [("a", 1000)] [("m1", ["/data/a"], 1000)] [] "l1" 1000 None;
  HCommit 2 [("b", 1000)] [("m2", ["data/b"], 1000)] ["metadata/manifests/m1"] "l2" 1000 None;
  HOpenTx "t" 1000 999000;
  HPlant "data/orphan" false 1000;
  HDeleteSnapshot 1;
  HCollect "data" 1000 1000000 86400000 no_faults ].
(* a normpath / canon pair satisfying the law without being the identity: both collapse "//" *)
Example C05_history_nonvacuous :
  (forall s, squeeze s = s -> squeeze s = s)
  /\ squeeze "data//a" = "data/a"
  /\ h_snaps (run_hist_fs squeeze squeeze ex_ops) = [(2, "metadata/manifests/l2")]
  /\ map fst (h_store (run_hist_fs squeeze squeeze ex_ops)) =
       ["metadata/inflight/data/t.inflight"; "data/t"; "data/b"; "metadata/manifests/m2"; "metadata/manifests/l2"; "data/a"; "metadata/manifests/m1"]
  (* the same history with the alias commit of C05_alias_spelling_refuted appended: under a normpath that tells "data//a" apart the
     commit is refused and the collection changes nothing the retained snapshot names *)
  /\ run_hist_fs squeeze squeeze (alias_ops) = run_hist_fs squeeze squeeze [nth 0 alias_ops (HExpire (fun _ => true)); HDeleteSnapshot 1; nth 3 alias_ops (HExpire (fun _ => true))]
  /\ map fst (h_store (run_hist_fs no_normpath squeeze alias_ops)) = ["metadata/manifests/m2"; "metadata/manifests/l2"].
Proof. split; [auto|]. repeat split; vm_compute; reflexivity. Qed.

(* Non-vacuity of C05_acceptance_regenerated: under a normpath that collapses "//" the canonical spellings of a file under data/
   (and below it) are accepted; a path in a directory the library manages or sweeps, elsewhere in the table, at its root, or an
   ALIAS spelling of an accepted path is not -- and the last is exactly what the erased guard lets through.  After the first commit
   of ex_ops a second commit naming an existing file outside data/, or data/a under an alias spelling, changes nothing. *)
Definition ex_h1 : hstate := run_hist_fs squeeze squeeze [HCommit 1 [("a", 1000)] [("m1", ["/data/a"], 1000)] [] "l1" 1000 None; HPlant "metadata/manifests/x.parquet" false 1000].
Example C05_acceptance_nonvacuous :
  map (accepts_fs squeeze) ["/data/a"; "data/a"; "//data/a"; "data/sub/a"] = [true; true; true; true]
  /\ map (accepts_fs squeeze) ["metadata/manifests/x.parquet"; "/metadata/inflight/x.inflight"; "metadata/x"; ".locks/x"; "other/x"; "x"; ""; "data"; "../data/x"; "data//a"; "data/sub//a"]
     = [false; false; false; false; false; false; false; false; false; false; false]
  /\ map (accepts_fs no_normpath) ["data//a"; "data/sub//a"] = [true; true]
  /\ has_key "metadata/manifests/x.parquet" (h_store ex_h1) = true
  /\ hstep_fs squeeze squeeze ex_h1 (HCommit 2 [] [("m2", ["metadata/manifests/x.parquet"], 1000)] [] "l2" 1000 None) = ex_h1
  /\ hstep_fs squeeze squeeze ex_h1 (HCommit 2 [] [("m2", ["data//a"], 1000)] [] "l2" 1000 None) = ex_h1
  /\ h_cur (hstep_fs no_normpath squeeze ex_h1 (HCommit 2 [] [("m2", ["data//a"], 1000)] [] "l2" 1000 None)) = Some 2
  /\ h_cur (hstep_fs squeeze squeeze ex_h1 (HCommit 2 [] [("m2", ["//data/a"], 1000)] [] "l2" 1000 None)) = Some 2.
Proof. repeat split; vm_compute; reflexivity. Qed.
