(* Props/C05.v -- Garbage collection never deletes anything reachable or in flight.
   Only theorem statements, each closed by `exact <lemma>`, with Print Assumptions beneath.
   Model: Model/GC.v (collect() call by call); normalize_path / marker fallback / constants are
   REGENERATED from garbage_collector.py and transaction.py (Gen/GenNorm.v) on every run. *)
From Coq Require Import ZArith String Ascii List Bool.
Require Import DS.Model.PyStr DS.Gen.GenNorm DS.Gen.GenGCLog DS.Model.GC DS.Model.GCHist DS.Model.LogConf DS.Model.GCConf DS.Proofs.GCNormProofs DS.Proofs.GCAcceptProofs DS.Proofs.GCProofs DS.Proofs.GCLiveProofs DS.Proofs.GCHistProofs DS.Proofs.GCConfProofs.
Import ListNotations.
Open Scope string_scope.
Open Scope Z_scope.

(* Both spellings of one file ("/data/x" in manifests, "data/x" in listings) normalise to the listed
   key -- for EVERY table-location string tp (absolute, relative, "d", "data", "/data", "m", ...) and
   every key under data/ or metadata/. *)
Theorem C05_norm_agree : forall (tp p : string), table_relative p ->
  normalize_path tp ("/" ++ p) = normalize_path tp p /\ normalize_path tp p = p.
Proof. exact norm_agree. Qed.
Print Assumptions C05_norm_agree.

(* A collection (any table location, grace period, clock, abandonment timeout, file ages) over a store
   in writer form deletes no file referenced by ANY retained snapshot, no file registered by a live
   transaction, and nothing younger than the grace period. *)
Theorem C05_gc_safe : forall (tp : string) (grace now timeout : Z) (snaps : list string) (st : store),
  wf_store snaps st ->
  forall k, In k (r_deleted (gc_run tp grace now timeout no_faults snaps st)) ->
    ~ referenced snaps st k /\ ~ live_target now timeout st k /\ exists ob, lookup k st = Some ob /\ mtime ob < now - grace.
Proof. exact gc_safe_nofault. Qed.
Print Assumptions C05_gc_safe.

(* Orphans ARE removed: in a completed fault-free collection every file under data/ or metadata/manifests/ that no
   retained snapshot references, no live transaction registered, and that is older than the grace period is deleted. *)
Theorem C05_gc_live : forall (tp : string) (grace now timeout : Z) (snaps : list string) (st : store),
  wf_store snaps st -> r_out (gc_run tp grace now timeout no_faults snaps st) = Done ->
  forall k ob, lookup k st = Some ob ->
    startswith (DATA_PREFIX ++ "/") k = true \/ startswith (MANIFESTS_PREFIX ++ "/") k = true ->
    ~ referenced snaps st k -> ~ live_target now timeout st k -> mtime ob < now - grace ->
    In k (r_deleted (gc_run tp grace now timeout no_faults snaps st)).
Proof. exact gc_live. Qed.
Print Assumptions C05_gc_live.

(* On an undamaged store (every referenced list and manifest present and parseable) a fault-free collection never
   aborts -- for every table location (the unrepaired code aborted every run of a table located at "m" / "metadata"). *)
Theorem C05_no_abort : forall (tp : string) (grace now timeout : Z) (snaps : list string) (st : store),
  wf_store snaps st -> undamaged snaps st -> r_out (gc_run tp grace now timeout no_faults snaps st) = Done.
Proof. exact gc_no_abort. Qed.
Print Assumptions C05_no_abort.

(* After ANY sequential history -- commits (append / multi-operation / delete_files with any path spelling), expiries,
   snapshot deletions, open transactions, planted orphans, arbitrary file ages, and collections with any table location,
   grace period, clock, abandonment timeout and ANY fault oracle -- the store is in writer form and every retained
   snapshot is fully present: its manifest list, every manifest in it, every data file they name.  No bound on length. *)
Theorem C05_history : forall ops : list hop,
  let h := run_hist ops in
  wf_store (h_lists h) (h_store h) /\ forall l, In l (h_lists h) -> snapshot_present (h_store h) l.
Proof. exact history_invariant. Qed.
Print Assumptions C05_history.

(* The generic commit step of the history machine is not vacuous: the append of Table.append_records -- new data file,
   new manifest naming it under any of its three canonical spellings, new list carrying over ALL manifests of the current
   snapshot -- with fresh (uuid) names always passes the step's side conditions, from every state. *)
Theorem C05_append_commits : forall (h : hstate) (sid : Z) (name : string) (sp : nat) (mname lname : string) (mt : Z),
  lookup (data_key name) (h_store h) = None -> lookup (man_key mname) (h_store h) = None -> lookup (man_key lname) (h_store h) = None ->
  mname <> lname ->
  match op_append h sid name sp mname lname mt with
  | HCommit _ nd nm kept ln lmt _ => valid_commit h nd nm kept ln lmt = true
  | _ => False
  end.
Proof. exact op_append_valid. Qed.
Print Assumptions C05_append_commits.

(* The writer-side fact the two theorems above assume about manifest entries (wf_store: a data file lives under data/) is what
   Transaction.append_files demands of every file it queues: append_accepts_path is REGENERATED from the source on every run
   (the path guards applied unconditionally to every file of the call; posixpath.normpath is a parameter) and implies it, for
   every normpath.  The history machine's commit step (GCHist.valid_commit) accepts an entry exactly by this predicate, so
   C05_history's invariant is re-tied to the source text.  On a tree whose append_files has no such guard the generated
   predicate does not imply it (a data file accepted at metadata/manifests/f or metadata/inflight/f.inflight is deleted by the
   manifest sweep / the abandoned-marker sweep while snapshots reference it), and this theorem and C05_history do not compile. *)
Theorem C05_acceptance_regenerated : forall (normpath : string -> string) (e : string),
  append_accepts_path normpath e = true -> wf_data_ref e.
Proof. exact accepts_under_data. Qed.
Print Assumptions C05_acceptance_regenerated.

(* --- process-wide configuration (Model/LogConf.v, Model/GCConf.v; Gen/GenGCLog.v is REGENERATED on every run and fails closed
   when garbage_collector.py uses its logger for anything but logging statements with purely observing arguments, or reads
   the environment) --- *)

(* What a collection does to the store does not depend on the process-wide configuration: after ANY history of configuration
   events (DataShardLogger.set_level, setLevel on the root / library / module logger, logging.disable, environment changes) from
   ANY starting configuration, the collector's result is gc_run's -- so C05_gc_safe / C05_gc_live / C05_no_abort / C05_history
   speak about every configuration --, the records it may emit come from the regenerated table of its logging statements at
   enabled levels only, and it reads no environment variable. *)
Theorem C05_conf_independent : forall (evs : list conf_ev) (c0 : logconf) (tp : string) (grace now timeout : Z) (o : oracle) (snaps : list string) (st : store),
  fst (gc_run_conf (conf_run evs c0) tp grace now timeout o snaps st) = gc_run tp grace now timeout o snaps st
  /\ (forall s, In s (snd (gc_run_conf (conf_run evs c0) tp grace now timeout o snaps st)) ->
        In s GC_LOG_SITES /\ enabled (conf_run evs c0) (snd s) = true)
  /\ gc_env_view (conf_run evs c0) = [].
Proof. exact gc_conf_independent. Qed.
Print Assumptions C05_conf_independent.

(* C05_gc_safe, stated for the collector under every configuration history. *)
Theorem C05_gc_safe_any_conf : forall (evs : list conf_ev) (c0 : logconf) (tp : string) (grace now timeout : Z) (snaps : list string) (st : store),
  wf_store snaps st ->
  forall k, In k (r_deleted (fst (gc_run_conf (conf_run evs c0) tp grace now timeout no_faults snaps st))) ->
    ~ referenced snaps st k /\ ~ live_target now timeout st k /\ exists ob, lookup k st = Some ob /\ mtime ob < now - grace.
Proof. exact gc_safe_any_conf. Qed.
Print Assumptions C05_gc_safe_any_conf.

(* Which configurations reach a level-guarded statement.  (1) DataShardLogger.set_level(l) from every earlier configuration in
   which the module logger inherits: exactly the levels >= l that logging.disable does not mask.  (2) Once logging.disable(d) is
   in force no later level change anywhere in the tree enables a level <= d: the reason a harness that silences the library
   with logging.disable(CRITICAL) can never see a DEBUG-only behaviour, and why the oracle histories now run under drawn
   configurations with the records written to a sink instead.  (3) The module logger's own level decides, whatever the
   library-level events around it. *)
Theorem C05_set_level_enables : forall (c : logconf) (l lvl : Z), l <> NOTSET -> lc_mod c = NOTSET ->
  (enabled (conf_step c (ESetLevel l)) lvl = true <-> lc_disable c < lvl /\ l <= lvl).
Proof. exact set_level_enables. Qed.
Print Assumptions C05_set_level_enables.

Theorem C05_disable_masks : forall (evs : list conf_ev) (c : logconf) (d lvl : Z),
  forallb (fun e => negb (is_disable e)) evs = true -> lvl <= d ->
  enabled (conf_run evs (conf_step c (EDisable d))) lvl = false.
Proof. exact disable_masks. Qed.
Print Assumptions C05_disable_masks.

Theorem C05_mod_level_wins : forall (evs : list conf_ev) (c : logconf) (l lvl : Z), l <> NOTSET ->
  forallb (fun e => match e with EModLevel _ | EDisable _ => false | _ => true end) evs = true ->
  (enabled (conf_run evs (conf_step c (EModLevel l))) lvl = true <-> lc_disable c < lvl /\ l <= lvl).
Proof. exact mod_level_wins. Qed.
Print Assumptions C05_mod_level_wins.

(* Non-vacuity: the default configuration enables INFO and not DEBUG; set_level(DEBUG) enables every statement of the collector,
   among them one at DEBUG; under logging.disable(CRITICAL) nothing is emitted even after set_level(DEBUG); an application that
   clears the library level and sets the root logger to DEBUG reaches DEBUG too. *)
Example C05_conf_nonvacuous :
  enabled conf_default INFO = true /\ enabled conf_default DEBUG = false
  /\ may_emit (conf_run [ESetLevel DEBUG] conf_default) = GC_LOG_SITES
  /\ In DEBUG (map snd GC_LOG_SITES)
  /\ (length (may_emit conf_default) < length GC_LOG_SITES)%nat
  /\ may_emit (conf_run [EDisable CRITICAL; ESetLevel DEBUG] conf_default) = []
  /\ enabled (conf_run [ELibLevel NOTSET; ERootLevel DEBUG] conf_default) DEBUG = true.
Proof. repeat split; vm_compute; try reflexivity; try (apply le_n || (repeat constructor)); tauto. Qed.

(* Non-vacuity: a table located at "data" (the location that made the unrepaired normalisation delete
   every live file) with two retained snapshots sharing a manifest, an orphan data file, an orphan
   manifest, a file younger than the grace period and a live transaction's file: well-formed, the run
   completes and deletes exactly the two old orphans. *)
Definition ex_st : store := [
  ("data/a.parquet", mkObj 1000 CData);
  ("data/b.parquet", mkObj 1000 CData);
  ("data/orphan.parquet", mkObj 1000 CData);
  ("data/young.parquet", mkObj 999500 CData);
  ("data/tx.parquet", mkObj 1000 CData);
  ("metadata/manifests/m1.avro", mkObj 1000 (CManifest FAvro ["/data/a.parquet"]));
  ("metadata/manifests/m2.avro", mkObj 1000 (CManifest FAvro ["/data/b.parquet"]));
  ("metadata/manifests/l1.avro", mkObj 1000 (CList FAvro ["metadata/manifests/m1.avro"]));
  ("metadata/manifests/l2.avro", mkObj 1000 (CList FAvro ["metadata/manifests/m1.avro"; "metadata/manifests/m2.avro"]));
  ("metadata/manifests/old.avro", mkObj 1000 CGarbage);
  ("metadata/inflight/tx.parquet.inflight", mkObj 999000 (CMarker (Some "data/tx.parquet")))
].
Definition ex_snaps : list string := ["metadata/manifests/l1.avro"; "metadata/manifests/l2.avro"].

Example C05_nonvacuous :
  wf_store ex_snaps ex_st
  /\ r_out (gc_run "data" 1000 1000000 86400000 no_faults ex_snaps ex_st) = Done
  /\ r_deleted (gc_run "data" 1000 1000000 86400000 no_faults ex_snaps ex_st) = ["metadata/manifests/old.avro"; "data/orphan.parquet"]
  /\ referenced ex_snaps ex_st "data/a.parquet"
  /\ live_target 1000000 86400000 ex_st "data/tx.parquet".
Proof.
  split; [apply wf_storeb_sound; vm_compute; reflexivity|].
  split; [vm_compute; reflexivity|]. split; [vm_compute; reflexivity|]. split.
  - right. right. exists "metadata/manifests/l1.avro", ["metadata/manifests/m1.avro"], "metadata/manifests/m1.avro", ["/data/a.parquet"], "/data/a.parquet".
    repeat split; simpl; auto; eexists; split; reflexivity.
  - exists "metadata/inflight/tx.parquet.inflight", (mkObj 999000 (CMarker (Some "data/tx.parquet"))).
    repeat split; try reflexivity. vm_compute. discriminate.
Qed.

(* Non-vacuity of C05_history: two commits (the second carries the first manifest over and spells its entry "data/b"),
   an open transaction, an orphan, deletion of the first snapshot, then a grace-1000 collection at location "data":
   snapshot 2 is retained and fully present; the orphan and the dropped snapshot's manifest list are gone; the open
   transaction's file survives. *)
Definition ex_ops : list hop := [
  HCommit 1 [("a", 1000)] [("m1", ["/data/a"], 1000)] [] "l1" 1000 None;
  HCommit 2 [("b", 1000)] [("m2", ["data/b"], 1000)] ["metadata/manifests/m1"] "l2" 1000 None;
  HOpenTx "t" 1000 999000;
  HPlant "data/orphan" false 1000;
  HDeleteSnapshot 1;
  HCollect "data" 1000 1000000 86400000 no_faults ].
Example C05_history_nonvacuous :
  h_snaps (run_hist ex_ops) = [(2, "metadata/manifests/l2")]
  /\ map fst (h_store (run_hist ex_ops)) =
       ["metadata/inflight/data/t.inflight"; "data/t"; "data/b"; "metadata/manifests/m2"; "metadata/manifests/l2"; "data/a"; "metadata/manifests/m1"].
Proof. split; vm_compute; reflexivity. Qed.

(* Non-vacuity of C05_acceptance_regenerated: the three canonical spellings of a file under data/ (and below it) are accepted;
   a path in a directory the library manages or sweeps, elsewhere in the table, or at its root is not -- and after the first
   commit of ex_ops a second commit naming an existing file outside data/ (or data/a under an alias spelling) changes nothing. *)
Definition ex_h1 : hstate := run_hist [HCommit 1 [("a", 1000)] [("m1", ["/data/a"], 1000)] [] "l1" 1000 None; HPlant "metadata/manifests/x.parquet" false 1000].
Example C05_acceptance_nonvacuous :
  map accepts ["/data/a"; "data/a"; "//data/a"; "data/sub/a"] = [true; true; true; true]
  /\ map accepts ["metadata/manifests/x.parquet"; "/metadata/inflight/x.inflight"; "metadata/x"; ".locks/x"; "other/x"; "x"; ""; "data"; "../data/x"]
     = [false; false; false; false; false; false; false; false; false]
  /\ has_key "metadata/manifests/x.parquet" (h_store ex_h1) = true
  /\ hstep ex_h1 (HCommit 2 [] [("m2", ["metadata/manifests/x.parquet"], 1000)] [] "l2" 1000 None) = ex_h1
  /\ hstep ex_h1 (HCommit 2 [] [("m2", ["data//a"], 1000)] [] "l2" 1000 None) = ex_h1
  /\ h_cur (hstep ex_h1 (HCommit 2 [] [("m2", ["//data/a"], 1000)] [] "l2" 1000 None)) = Some 2.
Proof. repeat split; vm_compute; reflexivity. Qed.
