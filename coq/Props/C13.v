(* Props/C13.v -- File pruning never changes a query's answer.
   Only theorem statements, each closed by `exact <lemma>`, with Print Assumptions beneath. *)
From Coq Require Import ZArith QArith List Bool.
Require Import DS.Model.Value DS.Gen.GenPrune DS.Model.Prune DS.Proofs.PruneProofs.
Require Import DS.Model.BoundPrim DS.Gen.GenBound DS.Model.Bound DS.Proofs.BoundProofs.
Require Import DS.Model.ManifestPrim DS.Gen.GenManifest13 DS.Model.Manifest13 DS.Proofs.Manifest13Proofs.
Require Import DS.Model.FieldKey DS.Gen.GenFieldKey DS.Model.SchemaIds DS.Proofs.FieldKeyProofs DS.Proofs.SchemaIdsProofs
               DS.Proofs.Schema13Proofs DS.Proofs.EntryCodec13.
Require DS.Model.ManifestCodec DS.Gen.GenEntryCodec DS.Proofs.EntryCodecProofs.
Import ListNotations.
Open Scope Z_scope.

(* A file is skipped only when no row in it can satisfy the predicate: for EVERY file content
   (any number of rows and columns, NULLs, NaN, +-inf, every value kind), every schema with unique
   field ids, every conjunction of filter expressions over every operator and literal, and EVERY
   behaviour X of pyarrow's lossy value-set cast inside is_in (float / bool involvement). *)
Theorem C13_prune_sound : forall (X : value -> value -> bool) (schema : list (Z * Z)) (rows : list row) (es : list fexpr),
  NoDup (map snd schema) -> (forall c, homogeneous (column rows c)) ->
  file_may_match (fst (file_bounds schema rows)) (snd (file_bounds schema rows)) schema es = false ->
  forall r, In r rows -> row_selected X es r = false.
Proof. exact prune_sound. Qed.
Print Assumptions C13_prune_sound.

(* The result with pruning equals the result when every file is read (same rows, same order).  `scan` is total here: the
   statement is about scans on which pyarrow does not refuse the literal (C12's no-refusal side; when the UNPRUNED scan raises,
   a pruned one may return rows without raising -- DESIGN.md C13 "Interpretation"; the end-to-end oracle skips those). *)
Theorem C13_scan_equal : forall (X : value -> value -> bool) (schema : list (Z * Z)) (es : list fexpr) (files : list (list row)),
  NoDup (map snd schema) -> (forall f, In f files -> wf_file schema f) ->
  scan X es (prune (file_bounds schema) schema es files) = scan X es files.
Proof. exact scan_pruned_equal. Qed.
Print Assumptions C13_scan_equal.

(* Stored bounds really bound every ordinary (non-NULL, non-NaN) value of the column. *)
Theorem C13_bounds_true : forall (vs : list value) (lo hi : value),
  homogeneous vs -> bounds_of vs = Some (lo, hi) ->
  (forall v, In v vs -> ordinary v = true -> vle lo v /\ vle v hi)
  /\ ((In lo vs /\ In hi vs /\ ordinary lo = true /\ ordinary hi = true)
      \/ (lo = VFlt NaN /\ hi = VFlt NaN /\ forall v, In v vs -> ordinary v = false)).
Proof. exact bounds_true. Qed.
Print Assumptions C13_bounds_true.

(* Bounds survive the manifest round trip type-faithfully: decoding the encoded bound gives back the
   very value -- same kind (bool stays bool, int stays int: the isinstance ORDER in the regenerated
   encoder matters), same number (any integer magnitude, any float: every finite double is a rational
   of the model, plus NaN / +-inf), same string.  Not said by this theorem: the SIGN of a float zero
   (the model's numbers have one zero; -0.0 is checked on the real codec by the codec oracle), and the
   text form of dates / times / timestamps (the payload of a temporal bound is abstract here:
   fromisoformat(isoformat(x)) = x is assumption JSON-exact, checked on the real codec by the oracle);
   the tag dispatch for them IS the regenerated one.  The legacy (untagged) decoder and the JSON-manifest
   fallback of read_manifest_file are not modelled: the writer never produces their inputs. *)
Theorem C13_bound_roundtrip : forall v : value, boundable v = true -> dec (enc v) = v.
Proof. exact bound_roundtrip. Qed.
Print Assumptions C13_bound_roundtrip.

(* The round trip at the level of a whole MANIFEST, over the record construction regenerated from
   create_manifest_file / read_manifest_file: any number of ADDED entries (the files of one, possibly
   multi-append, transaction) and EXISTING entries (survivors of a partial delete), each with any
   number of columns and any bounds -- in particular bounds of different columns / files that are
   equal as Python values but of different types (1, 1.0, True).  Every DataFile comes back in its
   place with its own bounds, value and type intact; the only change is {} -> None. *)
Theorem C13_manifest_roundtrip : forall (added existing : list dfb),
  (forall d, In d (added ++ existing) -> boundable_df d) ->
  via_manifest added existing = map norm_df (added ++ existing).
Proof. exact via_manifest_roundtrip. Qed.
Print Assumptions C13_manifest_roundtrip.

(* The pruning decision on the DataFile read back from the manifest IS the decision on the DataFile that was written. *)
Theorem C13_prune_decision_via_manifest : forall (added existing : list dfb) (ids : list (Z * Z)) (es : list fexpr),
  (forall d, In d (added ++ existing) -> boundable_df d) ->
  map (fun d => file_may_match (fst (df_view d)) (snd (df_view d)) ids es) (via_manifest added existing)
  = map (fun d => file_may_match (fst (df_view d)) (snd (df_view d)) ids es) (added ++ existing).
Proof. exact prune_decision_via_manifest. Qed.
Print Assumptions C13_prune_decision_via_manifest.

(* A file listed in a manifest is skipped -- on the bounds READ BACK from that manifest -- only when
   no row in it can satisfy the predicate. *)
Theorem C13_prune_sound_via_manifest : forall (X : value -> value -> bool) (schema : list (Z * Z)) (es : list fexpr)
    (added existing : list (list row)) (rows : list row) (lo hi : bmap),
  NoDup (map snd schema) -> (forall f, In f (added ++ existing) -> wf_file schema f) ->
  In (rows, (lo, hi)) (combine (added ++ existing) (manifest_bounds schema added existing)) ->
  file_may_match lo hi schema es = false ->
  forall r, In r rows -> row_selected X es r = false.
Proof. exact prune_sound_via_manifest. Qed.
Print Assumptions C13_prune_sound_via_manifest.

(* The result with pruning on the manifest's bounds equals the result when every file is read. *)
Theorem C13_scan_equal_via_manifest : forall (X : value -> value -> bool) (schema : list (Z * Z)) (es : list fexpr)
    (added existing : list (list row)),
  NoDup (map snd schema) -> (forall f, In f (added ++ existing) -> wf_file schema f) ->
  scan X es (prune_via_manifest schema es added existing) = scan X es (added ++ existing).
Proof. exact scan_via_manifest_equal. Qed.
Print Assumptions C13_scan_equal_via_manifest.

(* ------------------------------------------------------------------ the KEYS of the bounds: field ids
   A DataFile's bounds are keyed by the schema's field ids -- whatever Python object the schema carries under "id".
   create_manifest_file stores each key as str(id), read_manifest_file reads int(key), both in dict comprehensions
   (Model/FieldKey.v: kenc = str on None / bool / int / str objects, kdec = Python's int() parser, dict_of = a dict comprehension
   where a later equal key replaces the earlier value). *)

(* Every schema the constructor accepts has pairwise different INT field ids -- proved about the guards REGENERATED from
   Schema.__post_init__ (Gen/GenFieldKey.v gen_id_rejected; the field loop is Model/SchemaIds.v).  With a constructor that only
   tests `f_id in seen_ids` this theorem is false (1 and "1" pass) and its proof does not compile. *)
Theorem C13_schema_ids_are_ints : forall ids : list value,
  schema_ids_ok ids = true -> ids_are_ints ids /\ NoDup (int_ids ids) /\ ids = map VInt (int_ids ids).
Proof. exact schema_ids_are_ints. Qed.
Print Assumptions C13_schema_ids_are_ints.

(* int(str(z)) = z for EVERY int z: the decimal rendering and Python's int() parser (whitespace, sign, underscores) are inverse. *)
Theorem C13_key_codec_inverse : forall z : Z, kenc (VInt z) = Some (str_of_Z z) /\ kdec (str_of_Z z) = IntOk z.
Proof. exact key_codec_inverse. Qed.
Print Assumptions C13_key_codec_inverse.

(* Bounds (any statistic, any payload type A) come back from the manifest under the field id they were stored under: a map
   keyed by pairwise different int ids survives the two dict comprehensions unchanged -- same entries, same order, same keys. *)
Theorem C13_bound_keys_roundtrip : forall (A : Type) (m : list (value * A)),
  ids_are_ints (map fst m) -> py_distinct (map fst m) ->
  key_trip m = TripOk (int_keyed m) /\ m = as_py (int_keyed m).
Proof. exact @bound_keys_roundtrip. Qed.
Print Assumptions C13_bound_keys_roundtrip.

(* ... in particular every statistics map whose keys are ids of an ACCEPTED schema (the columns that have the statistic). *)
Theorem C13_accepted_schema_keys_roundtrip : forall (A : Type) (ids : list value) (m : list (value * A)),
  schema_ids_ok ids = true -> (forall k, In k (map fst m) -> In k ids) -> py_distinct (map fst m) ->
  key_trip m = TripOk (int_keyed m) /\ m = as_py (int_keyed m).
Proof. exact @accepted_schema_keys_roundtrip. Qed.
Print Assumptions C13_accepted_schema_keys_roundtrip.

(* `ids_are_ints` cannot be dropped: for ids that are merely pairwise != (all that the duplicate test alone guarantees) the
   statement is FALSE -- 1 and "1" are two keys before the trip and one key after it (witness below: column b's bounds land
   under column a's id, and `a == 1` skips the file that holds the row). *)
Theorem C13_bound_keys_roundtrip_distinct_ids_refuted : ~ keys_roundtrip_for_distinct_ids.
Proof. exact keys_roundtrip_for_distinct_ids_refuted. Qed.
Print Assumptions C13_bound_keys_roundtrip_distinct_ids_refuted.

(* The pruning theorems for every ACCEPTED schema: the uniqueness of field ids is no longer a hypothesis, it follows from the
   regenerated constructor guards. *)
Theorem C13_scan_equal_accepted_schema : forall (X : value -> value -> bool) (ps : list (Z * value)) (es : list fexpr)
    (added existing : list (list row)),
  schema_ids_ok (map snd ps) = true -> (forall f, In f (added ++ existing) -> wf_file (int_schema ps) f) ->
  scan X es (prune_via_manifest (int_schema ps) es added existing) = scan X es (added ++ existing).
Proof. exact scan_equal_accepted_schema. Qed.
Print Assumptions C13_scan_equal_accepted_schema.

(* The whole manifest ENTRY (Gen/GenEntryCodec.v: the `record = {...}` literal and the DataFile the reader builds, regenerated
   field by field) over the REAL primitive codecs -- the regenerated bound codec and Python's str / int on the keys: a DataFile
   with int-keyed, boundable bounds written as ADDED and read back has its bounds; carried over as EXISTING into a rewritten
   manifest (partial delete) and read back again, it still has them.  (_safe_int is the identity on ints.) *)
Theorem C13_entry_survives_rewrite : forall (safe_int pstr : Z -> Z), (forall z, safe_int z = z) ->
  forall (id : Z) (sq : option Z) (id' : Z) (sq' : option Z) (df : ManifestCodec.datafile value), bounds_boundable df ->
  let once := read_entry13 (write_entry13 safe_int pstr GenEntryCodec.gen_status_added id sq df) in
  let twice := read_entry13 (write_entry13 safe_int pstr GenEntryCodec.gen_status_existing id' sq' once) in
  ManifestCodec.df_lower once = ManifestCodec.norm_map (ManifestCodec.df_lower df)
  /\ ManifestCodec.df_upper once = ManifestCodec.norm_map (ManifestCodec.df_upper df)
  /\ ManifestCodec.df_lower twice = ManifestCodec.norm_map (ManifestCodec.df_lower df)
  /\ ManifestCodec.df_upper twice = ManifestCodec.norm_map (ManifestCodec.df_upper df)
  /\ ManifestCodec.df_path twice = ManifestCodec.df_path df.
Proof. exact entry_rewrite_real_codecs. Qed.
Print Assumptions C13_entry_survives_rewrite.

(* Non-vacuity of the key theorems.  Accepted: ids 7, 2, -3, 2^70 in any order; their map survives the trip, keys rendered
   "7", "2", "-3", "1180591620717411303424".  Python's int() accepts more than str() produces: int(" +1_0 ") = 10, int("07") = 7.
   Refused by the regenerated guards: 1 next to "1", True, None, 1.0.  And what the refusal is for: with ids 1 and "1" (pairwise
   !=), bounds a: 1..1 and b: 100..100 come back as {1: 100}; `a == 1` then skips the file although its row matches. *)
Example C13_keys_nonvacuous :
  schema_ids_ok [VInt 7; VInt 2; VInt (-3); VInt (2 ^ 70)] = true
  /\ key_trip [(VInt 7, VInt 1); (VInt 2, VStr [97]); (VInt (-3), VBool true); (VInt (2 ^ 70), VFlt NaN)]
     = TripOk [(7, VInt 1); (2, VStr [97]); (-3, VBool true); (2 ^ 70, VFlt NaN)]
  /\ map kenc [VInt 7; VInt (-3); VInt 0; VInt (2 ^ 70)]
     = [Some [55]; Some [45; 51]; Some [48]; Some [49;49;56;48;53;57;49;54;50;48;55;49;55;52;49;49;51;48;51;52;50;52]]
  /\ kdec [32; 43; 49; 95; 48; 32] = IntOk 10 /\ kdec [48; 55] = IntOk 7 /\ kdec [49; 46; 48] = IntValueError
  /\ schema_ids_ok [VInt 1; VStr [49]] = false /\ schema_ids_ok [VBool true] = false /\ schema_ids_ok [VNull] = false
  /\ schema_ids_ok [VFlt (Fin (1 # 1))] = false /\ schema_ids_ok [VInt 1; VInt 1] = false
  /\ py_distinct (map fst collide_map)
  /\ key_trip collide_map = TripOk [(1, VInt 100)]
  /\ file_may_match [(1, VInt 100)] [(1, VInt 100)] [(0, 1)] [{| fcol := 0; fop_ := EQ; fsval := VInt 1; flval := [] |}] = false
  /\ row_selected (fun _ _ => false) [{| fcol := 0; fop_ := EQ; fsval := VInt 1; flval := [] |}] [(0, VInt 1); (1, VInt 100)] = true.
Proof. vm_compute. repeat split; auto. Qed.

(* Non-vacuity of the entry theorem: a DataFile with bounds {3: 5 .. 9, 12: "a" .. "b"} keeps them through write / read / rewrite / read. *)
Definition ex_entry : ManifestCodec.datafile value :=
  {| ManifestCodec.df_path := 1; ManifestCodec.df_format := 0; ManifestCodec.df_partition := []; ManifestCodec.df_count := 2;
     ManifestCodec.df_size := 10; ManifestCodec.df_column_sizes := None; ManifestCodec.df_value_counts := Some [(3, 2)];
     ManifestCodec.df_null_counts := None;
     ManifestCodec.df_lower := Some [(3, VInt 5); (12, VStr [97])]; ManifestCodec.df_upper := Some [(3, VInt 9); (12, VStr [98])];
     ManifestCodec.df_checksum := None; ManifestCodec.df_added := None; ManifestCodec.df_seq := None |}.
Example C13_entry_nonvacuous :
  bounds_boundable ex_entry
  /\ ManifestCodec.df_lower (read_entry13 (write_entry13 (fun z => z) (fun z => z) GenEntryCodec.gen_status_existing 8 (Some 2)
        (read_entry13 (write_entry13 (fun z => z) (fun z => z) GenEntryCodec.gen_status_added 7 (Some 1) ex_entry))))
     = Some [(3, VInt 5); (12, VStr [97])]
  /\ ManifestCodec.r_lower (write_entry13 (fun z => z) (fun z => z) GenEntryCodec.gen_status_added 7 (Some 1) ex_entry)
     = Some [([51], enc (VInt 5)); ([49; 50], enc (VStr [97]))].
Proof.
  split; [|vm_compute; split; reflexivity].
  split; cbn; repeat constructor.
Qed.

(* Non-vacuity: a concrete two-column file {x: 5.0, NaN, NULL; s: "a","b","c"} meets the hypotheses,
   is pruned for x > 7, for s < "a" and for s IN ["d";"e"], and is NOT pruned for x != 5.0 nor for
   x IN [NaN] nor x IN [6;7] (float bounds never prune IN). *)
Definition ex_schema : list (Z * Z) := [(0, 1); (1, 2)].
Definition ex_rows : list row :=
  [ [(0, VFlt (Fin (5 # 1))); (1, VStr [97])];
    [(0, VFlt NaN);           (1, VStr [98])];
    [(0, VNull);              (1, VStr [99])] ].
Definition ex_mm (e : fexpr) : bool :=
  file_may_match (fst (file_bounds ex_schema ex_rows)) (snd (file_bounds ex_schema ex_rows)) ex_schema [e].

Example C13_nonvacuous :
  NoDup (map snd ex_schema)
  /\ (forall c, homogeneous (column ex_rows c))
  /\ ex_mm {| fcol := 0; fop_ := GT; fsval := VInt 7; flval := [] |} = false
  /\ ex_mm {| fcol := 1; fop_ := LT; fsval := VStr [97]; flval := [] |} = false
  /\ ex_mm {| fcol := 0; fop_ := NE; fsval := VFlt (Fin (5 # 1)); flval := [] |} = true
  /\ ex_mm {| fcol := 0; fop_ := IN; fsval := VNull; flval := [VFlt NaN] |} = true
  /\ ex_mm {| fcol := 0; fop_ := IN; fsval := VNull; flval := [VInt 6; VInt 7] |} = true
  /\ ex_mm {| fcol := 1; fop_ := IN; fsval := VNull; flval := [VStr [100]; VStr [101]] |} = false.
Proof.
  split; [repeat constructor; simpl; intuition discriminate|].
  split.
  - intro c. destruct (Z.eq_dec c 0) as [->|]; [exists KFlt|destruct (Z.eq_dec c 1) as [->|]; [exists KStr|exists KInt]];
      intros v Hv; unfold column, ex_rows, cell in Hv; simpl in Hv.
    + intuition (subst; reflexivity).
    + intuition (subst; reflexivity).
    + destruct (Z.eqb_spec c 0); [contradiction|]. destruct (Z.eqb_spec c 1); [contradiction|].
      intuition (subst; reflexivity).
  - vm_compute. repeat split.
Qed.

(* Non-vacuity of the manifest theorems: one manifest whose entries carry bounds that are EQUAL as Python
   values but differently typed -- file A: id (long) 1..1, score (double) 1.0..1.0, flag (boolean)
   True..True; file B (an EXISTING entry): id 0..1, score NaN..NaN, flag False..True, and a file without
   bounds.  They come back unchanged, and the types matter to the planner: `score != 1.0` keeps file A
   (a float bound never proves the inequality empty, NaN rows are skipped by bounds) whereas the same
   bound typed as the integer 1 would skip it; `flag in [2]` keeps file B, int-typed bounds 0..1 would
   skip it. *)
Definition ex_dfA : dfb := {| df_lower := Some [(1, VInt 1); (2, VFlt (Fin (1 # 1))); (3, VBool true)];
                             df_upper := Some [(1, VInt 1); (2, VFlt (Fin (1 # 1))); (3, VBool true)] |}.
Definition ex_dfB : dfb := {| df_lower := Some [(1, VInt 0); (2, VFlt NaN); (3, VBool false)];
                             df_upper := Some [(1, VInt 1); (2, VFlt NaN); (3, VBool true)] |}.
Definition ex_dfC : dfb := {| df_lower := None; df_upper := Some [] |}.
Definition ex_ids : list (Z * Z) := [(0, 1); (1, 2); (2, 3)].
Definition ex_ne : fexpr := {| fcol := 1; fop_ := NE; fsval := VFlt (Fin (1 # 1)); flval := [] |}.
Definition ex_in : fexpr := {| fcol := 2; fop_ := IN; fsval := VNull; flval := [VInt 2] |}.

Example C13_manifest_nonvacuous :
  (forall d, In d ([ex_dfA] ++ [ex_dfB; ex_dfC]) -> boundable_df d)
  /\ via_manifest [ex_dfA] [ex_dfB; ex_dfC] = [ex_dfA; ex_dfB; {| df_lower := None; df_upper := None |}]
  /\ map r_status (write_manifest [ex_dfA] [ex_dfB; ex_dfC]) = [1; 0; 0]
  /\ file_may_match (fst (df_view ex_dfA)) (snd (df_view ex_dfA)) ex_ids [ex_ne] = true
  /\ file_may_match [(2, VInt 1)] [(2, VInt 1)] ex_ids [ex_ne] = false
  /\ file_may_match (fst (df_view ex_dfB)) (snd (df_view ex_dfB)) ex_ids [ex_in] = true
  /\ file_may_match [(3, VInt 0)] [(3, VInt 1)] ex_ids [ex_in] = false.
Proof.
  split.
  - intros d [<-|[<-|[<-|[]]]]; split; intros k v I; cbn in I;
      repeat (destruct I as [I|I]; [inversion I; subst; reflexivity|]); destruct I.
  - vm_compute. repeat split.
Qed.
