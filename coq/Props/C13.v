(* Props/C13.v -- File pruning never changes a query's answer.
   Only theorem statements, each closed by `exact <lemma>`, with Print Assumptions beneath. *)
From Coq Require Import ZArith QArith List Bool.
Require Import DS.Model.Value DS.Gen.GenPrune DS.Model.Prune DS.Proofs.PruneProofs.
Require Import DS.Model.BoundPrim DS.Gen.GenBound DS.Model.Bound DS.Proofs.BoundProofs.
Require Import DS.Model.ManifestPrim DS.Gen.GenManifest13 DS.Model.Manifest13 DS.Proofs.Manifest13Proofs.
Import ListNotations.
Open Scope Z_scope.

(* A file is skipped only when no row in it can satisfy the predicate: for EVERY file content
   (any number of rows and columns, NULLs, NaN, +-inf, every value kind), every schema with unique
   field ids, every conjunction of filter expressions over every operator and literal, and EVERY
   behaviour X of pyarrow's lossy value-set cast inside is_in (float / bool involvement). *)
Theorem C13_prune_sound : forall (X : value -> value -> bool) (schema : list (Z * Z)) (rows : list row) (es : list fexpr),
  NoDup (map snd schema) -> (forall c, homogeneous (column rows c)) ->
  file_may_match (fst (file_bounds schema rows)) (snd (file_bounds schema rows)) schema es = false ->
  forall r, In r rows -> row_selected X es r = false.
Proof. exact prune_sound. Qed.
Print Assumptions C13_prune_sound.

(* The result with pruning equals the result when every file is read (same rows, same order). *)
Theorem C13_scan_equal : forall (X : value -> value -> bool) (schema : list (Z * Z)) (es : list fexpr) (files : list (list row)),
  NoDup (map snd schema) -> (forall f, In f files -> wf_file schema f) ->
  scan X es (prune (file_bounds schema) schema es files) = scan X es files.
Proof. exact scan_pruned_equal. Qed.
Print Assumptions C13_scan_equal.

(* Stored bounds really bound every ordinary (non-NULL, non-NaN) value of the column. *)
Theorem C13_bounds_true : forall (vs : list value) (lo hi : value),
  homogeneous vs -> bounds_of vs = Some (lo, hi) ->
  (forall v, In v vs -> ordinary v = true -> vle lo v /\ vle v hi)
  /\ ((In lo vs /\ In hi vs /\ ordinary lo = true /\ ordinary hi = true)
      \/ (lo = VFlt NaN /\ hi = VFlt NaN /\ forall v, In v vs -> ordinary v = false)).
Proof. exact bounds_true. Qed.
Print Assumptions C13_bounds_true.

(* Bounds survive the manifest round trip type-faithfully: decoding the encoded bound gives back the
   very value -- same kind (bool stays bool, int stays int: the isinstance ORDER in the regenerated
   encoder matters), same number (any integer magnitude, any float incl. NaN / inf / -0.0 / float32
   values), same string, same date / time / timestamp. *)
Theorem C13_bound_roundtrip : forall v : value, boundable v = true -> dec (enc v) = v.
Proof. exact bound_roundtrip. Qed.
Print Assumptions C13_bound_roundtrip.

(* The round trip at the level of a whole MANIFEST, over the record construction regenerated from
   create_manifest_file / read_manifest_file: any number of ADDED entries (the files of one, possibly
   multi-append, transaction) and EXISTING entries (survivors of a partial delete), each with any
   number of columns and any bounds -- in particular bounds of different columns / files that are
   equal as Python values but of different types (1, 1.0, True).  Every DataFile comes back in its
   place with its own bounds, value and type intact; the only change is {} -> None. *)
Theorem C13_manifest_roundtrip : forall (added existing : list dfb),
  (forall d, In d (added ++ existing) -> boundable_df d) ->
  via_manifest added existing = map norm_df (added ++ existing).
Proof. exact via_manifest_roundtrip. Qed.
Print Assumptions C13_manifest_roundtrip.

(* A file listed in a manifest is skipped -- on the bounds READ BACK from that manifest -- only when
   no row in it can satisfy the predicate. *)
Theorem C13_prune_sound_via_manifest : forall (X : value -> value -> bool) (schema : list (Z * Z)) (es : list fexpr)
    (added existing : list (list row)) (rows : list row) (lo hi : bmap),
  NoDup (map snd schema) -> (forall f, In f (added ++ existing) -> wf_file schema f) ->
  In (rows, (lo, hi)) (combine (added ++ existing) (manifest_bounds schema added existing)) ->
  file_may_match lo hi schema es = false ->
  forall r, In r rows -> row_selected X es r = false.
Proof. exact prune_sound_via_manifest. Qed.
Print Assumptions C13_prune_sound_via_manifest.

(* The result with pruning on the manifest's bounds equals the result when every file is read. *)
Theorem C13_scan_equal_via_manifest : forall (X : value -> value -> bool) (schema : list (Z * Z)) (es : list fexpr)
    (added existing : list (list row)),
  NoDup (map snd schema) -> (forall f, In f (added ++ existing) -> wf_file schema f) ->
  scan X es (prune_via_manifest schema es added existing) = scan X es (added ++ existing).
Proof. exact scan_via_manifest_equal. Qed.
Print Assumptions C13_scan_equal_via_manifest.

(* Non-vacuity: a concrete two-column file {x: 5.0, NaN, NULL; s: "a","b","c"} meets the hypotheses,
   is pruned for x > 7, for s < "a" and for s IN ["d";"e"], and is NOT pruned for x != 5.0 nor for
   x IN [NaN] nor x IN [6;7] (float bounds never prune IN). *)
Definition ex_schema : list (Z * Z) := [(0, 1); (1, 2)].
Definition ex_rows : list row :=
  [ [(0, VFlt (Fin (5 # 1))); (1, VStr [97])];
    [(0, VFlt NaN);           (1, VStr [98])];
    [(0, VNull);              (1, VStr [99])] ].
Definition ex_mm (e : fexpr) : bool :=
  file_may_match (fst (file_bounds ex_schema ex_rows)) (snd (file_bounds ex_schema ex_rows)) ex_schema [e].

Example C13_nonvacuous :
  NoDup (map snd ex_schema)
  /\ (forall c, homogeneous (column ex_rows c))
  /\ ex_mm {| fcol := 0; fop_ := GT; fsval := VInt 7; flval := [] |} = false
  /\ ex_mm {| fcol := 1; fop_ := LT; fsval := VStr [97]; flval := [] |} = false
  /\ ex_mm {| fcol := 0; fop_ := NE; fsval := VFlt (Fin (5 # 1)); flval := [] |} = true
  /\ ex_mm {| fcol := 0; fop_ := IN; fsval := VNull; flval := [VFlt NaN] |} = true
  /\ ex_mm {| fcol := 0; fop_ := IN; fsval := VNull; flval := [VInt 6; VInt 7] |} = true
  /\ ex_mm {| fcol := 1; fop_ := IN; fsval := VNull; flval := [VStr [100]; VStr [101]] |} = false.
Proof.
  split; [repeat constructor; simpl; intuition discriminate|].
  split.
  - intro c. destruct (Z.eq_dec c 0) as [->|]; [exists KFlt|destruct (Z.eq_dec c 1) as [->|]; [exists KStr|exists KInt]];
      intros v Hv; unfold column, ex_rows, cell in Hv; simpl in Hv.
    + intuition (subst; reflexivity).
    + intuition (subst; reflexivity).
    + destruct (Z.eqb_spec c 0); [contradiction|]. destruct (Z.eqb_spec c 1); [contradiction|].
      intuition (subst; reflexivity).
  - vm_compute. repeat split.
Qed.

(* Non-vacuity of the manifest theorems: one manifest whose entries carry bounds that are EQUAL as Python
   values but differently typed -- file A: id (long) 1..1, score (double) 1.0..1.0, flag (boolean)
   True..True; file B (an EXISTING entry): id 0..1, score NaN..NaN, flag False..True, and a file without
   bounds.  They come back unchanged, and the types matter to the planner: `score != 1.0` keeps file A
   (a float bound never proves the inequality empty, NaN rows are skipped by bounds) whereas the same
   bound typed as the integer 1 would skip it; `flag in [2]` keeps file B, int-typed bounds 0..1 would
   skip it. *)
Definition ex_dfA : dfb := {| df_lower := Some [(1, VInt 1); (2, VFlt (Fin (1 # 1))); (3, VBool true)];
                             df_upper := Some [(1, VInt 1); (2, VFlt (Fin (1 # 1))); (3, VBool true)] |}.
Definition ex_dfB : dfb := {| df_lower := Some [(1, VInt 0); (2, VFlt NaN); (3, VBool false)];
                             df_upper := Some [(1, VInt 1); (2, VFlt NaN); (3, VBool true)] |}.
Definition ex_dfC : dfb := {| df_lower := None; df_upper := Some [] |}.
Definition ex_ids : list (Z * Z) := [(0, 1); (1, 2); (2, 3)].
Definition ex_ne : fexpr := {| fcol := 1; fop_ := NE; fsval := VFlt (Fin (1 # 1)); flval := [] |}.
Definition ex_in : fexpr := {| fcol := 2; fop_ := IN; fsval := VNull; flval := [VInt 2] |}.

Example C13_manifest_nonvacuous :
  (forall d, In d ([ex_dfA] ++ [ex_dfB; ex_dfC]) -> boundable_df d)
  /\ via_manifest [ex_dfA] [ex_dfB; ex_dfC] = [ex_dfA; ex_dfB; {| df_lower := None; df_upper := None |}]
  /\ map r_status (write_manifest [ex_dfA] [ex_dfB; ex_dfC]) = [1; 0; 0]
  /\ file_may_match (fst (df_view ex_dfA)) (snd (df_view ex_dfA)) ex_ids [ex_ne] = true
  /\ file_may_match [(2, VInt 1)] [(2, VInt 1)] ex_ids [ex_ne] = false
  /\ file_may_match (fst (df_view ex_dfB)) (snd (df_view ex_dfB)) ex_ids [ex_in] = true
  /\ file_may_match [(3, VInt 0)] [(3, VInt 1)] ex_ids [ex_in] = false.
Proof.
  split.
  - intros d [<-|[<-|[<-|[]]]]; split; intros k v I; cbn in I;
      repeat (destruct I as [I|I]; [inversion I; subst; reflexivity|]); destruct I.
  - vm_compute. repeat split.
Qed.
