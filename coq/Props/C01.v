(* Props/C01.v -- Concurrent commits are serializable: no acknowledged write lost or duplicated.
   Statements only; proofs are in Proofs/CommitProofs.v. *)
From Coq Require Import ZArith List Bool Arith.
Require Import DS.Model.Commit DS.Proofs.CommitProofs.
Import ListNotations.
Open Scope Z_scope.

(* `sound c`: storage with real mutual exclusion -- an exclusive lock (local flock) or conditional
   pointer writes (CAS S3).  Quantified over: any number of committers (actor ids are arbitrary
   naturals), any operation kinds (data commits, metadata-only commits, deleting the current
   snapshot), any retry budgets, EVERY event list (= every interleaving at protocol-step granularity;
   events that are not enabled are skipped) and EVERY clock reading carried by the events (frozen,
   coarse or decreasing clocks included). *)

(* The table the pointer names is the initial table with exactly the flipped commits applied, one
   after another, in the order the pointer advanced. *)
Theorem C01_serializable : forall c m0 kind mr evs, sound c ->
  let w := run c (init_world m0 kind mr) evs in
  m_ops (file w (w_ptr w)) = m_ops m0 ++ map snd (w_hist w).
Proof. intros. apply reach_serializable. assumption. Qed.
Print Assumptions C01_serializable.

(* Every commit that reported success is reflected, and no commit is reflected twice. *)
Theorem C01_acked_exactly_once : forall c m0 kind mr evs, sound c ->
  let w := run c (init_world m0 kind mr) evs in
  NoDup (map snd (w_hist w))
  /\ forall a, a_pc (w_actors w a) = PDone Success -> In a (map snd (w_hist w)).
Proof.
  intros c m0 kind mr evs S w. split; [apply reach_once; assumption|].
  intros a H. apply (reach_acked c m0 kind mr evs S a). fold w. rewrite H. reflexivity.
Qed.
Print Assumptions C01_acked_exactly_once.

(* A commit that raised -- a conflict after its retry budget, or an error / interrupt / process death
   before its pointer flip -- is not reflected at all; a reflected commit either reported success or
   was cut off AFTER its own pointer flip (asynchronous interrupt or crash, see C03/C04). *)
Theorem C01_raised_not_reflected : forall c m0 kind mr evs, sound c ->
  let w := run c (init_world m0 kind mr) evs in
  forall a, (a_pc (w_actors w a) = PDone Conflict \/ a_pc (w_actors w a) = PDone Aborted -> ~ In a (map snd (w_hist w)))
         /\ (In a (map snd (w_hist w)) ->
             a_pc (w_actors w a) = PFlipped \/ a_pc (w_actors w a) = PDone Success \/ a_pc (w_actors w a) = PDone AbortedPost).
Proof.
  intros c m0 kind mr evs S w a. pose proof (reach_acked c m0 kind mr evs S a) as F. fold w in F. split.
  - intros [H|H] In; apply F in In; rewrite H in In; discriminate.
  - intro In. apply F in In. destruct (a_pc (w_actors w a)) as [| | | | | | | |[]]; simpl in In; try discriminate; auto.
Qed.
Print Assumptions C01_raised_not_reflected.

(* The committed versions form one linear chain: each extends its predecessor by exactly its
   committer's operation and carries a strictly larger last-updated stamp. *)
Theorem C01_chain_linear : forall c m0 kind mr evs, sound c ->
  let w := run c (init_world m0 kind mr) evs in
  chain_ok (w_files w) 0%nat (w_hist w) /\ w_ptr w = lastv 0%nat (w_hist w).
Proof.
  intros c m0 kind mr evs S w. destruct (reach_inv c m0 kind mr evs S) as [I _]. split; apply I.
Qed.
Print Assumptions C01_chain_linear.

(* Non-vacuity: a concrete schedule on the exclusive-lock configuration with a FROZEN clock in which
   a metadata-only commit (actor 1) lands between actor 0's base read and its validation: actor 0
   detects the conflict, retries and both commits are reflected in pointer order 1, 0. *)
Definition ex_cfg := {| cas := false; lockkind := Excl |}.
Definition ex_m0 := {| m_ops := []; m_cur := 1; m_lu := 100 |}.
Definition ev a k := {| e_actor := a; e_kind := k |}.
Definition ex_sched : list event :=
  [ ev 0 (EBegin 0); ev 1 (EBegin 0); ev 1 (ELockTry true); ev 1 (EValidate 0 true); ev 1 (EMetaW 100);
    ev 1 (EFence true); ev 1 (EFlip true); ev 1 ERelease;
    ev 0 (ELockTry true); ev 0 (EValidate 1 false); ev 0 ERelease;
    ev 0 (EBegin 1); ev 0 (ELockTry true); ev 0 (EValidate 1 true); ev 0 (EMetaW 100); ev 0 (EFence true);
    ev 0 (EFlip true); ev 0 ERelease ]%nat.
Example C01_nonvacuous :
  sound ex_cfg /\
  let w := run ex_cfg (init_world ex_m0 (fun a => match a with O => KFresh | _ => KKeep end) (fun _ => 50%nat)) ex_sched in
  map snd (w_hist w) = [1; 0]%nat /\ m_ops (file w (w_ptr w)) = [1; 0]%nat
  /\ a_pc (w_actors w 0%nat) = PDone Success /\ a_pc (w_actors w 1%nat) = PDone Success
  /\ run_strict ex_cfg (init_world ex_m0 (fun a => match a with O => KFresh | _ => KKeep end) (fun _ => 50%nat)) ex_sched 0 = inl w.
Proof. split; [right; reflexivity | vm_compute; repeat split]. Qed.
