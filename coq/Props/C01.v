(* Props/C01.v -- Concurrent commits are serializable: no acknowledged write lost or duplicated.
   Statements only; proofs are in Proofs/CommitProofs.v. *)
From Coq Require Import ZArith List Bool Arith.
Require Import DS.Model.CommitBase DS.Gen.GenCommit DS.Model.Commit DS.Proofs.CommitGenProofs DS.Proofs.CommitProofs.
Import ListNotations.
Open Scope Z_scope.

(* `sound c`: storage with real mutual exclusion -- an exclusive lock (local flock) or conditional
   pointer writes (CAS S3).  Quantified over: any number of committers (actor ids are arbitrary
   naturals), any operation kinds (data commits, metadata-only commits, deleting the current
   snapshot), any retry budgets, EVERY event list (= every interleaving at protocol-step granularity;
   events that are not enabled are skipped) and EVERY clock reading carried by the events (frozen,
   coarse or decreasing clocks included). *)

(* The table the pointer names is the initial table with exactly the flipped commits applied, one
   after another, in the order the pointer advanced. *)
Theorem C01_serializable : forall c m0 kind mr evs, sound c ->
  let w := run c (init_world m0 kind mr) evs in
  m_ops (file w (w_ptr w)) = m_ops m0 ++ map snd (w_hist w).
Proof. intros. apply reach_serializable. assumption. Qed.
Print Assumptions C01_serializable.

(* Every commit that reported success is reflected, and no commit is reflected twice. *)
Theorem C01_acked_exactly_once : forall c m0 kind mr evs, sound c ->
  let w := run c (init_world m0 kind mr) evs in
  NoDup (map snd (w_hist w))
  /\ forall a, a_pc (w_actors w a) = PDone Success -> In a (map snd (w_hist w)).
Proof.
  intros c m0 kind mr evs S w. split; [apply reach_once; assumption|].
  intros a H. apply (reach_acked c m0 kind mr evs S a). fold w. rewrite H. reflexivity.
Qed.
Print Assumptions C01_acked_exactly_once.

(* A commit that raised -- a conflict after its retry budget, or an error / interrupt / process death
   before its pointer flip -- is not reflected at all; a reflected commit either reported success or
   was cut off AFTER its own pointer flip (asynchronous interrupt or crash, see C03/C04). *)
Theorem C01_raised_not_reflected : forall c m0 kind mr evs, sound c ->
  let w := run c (init_world m0 kind mr) evs in
  forall a, (a_pc (w_actors w a) = PDone Conflict \/ a_pc (w_actors w a) = PDone Aborted -> ~ In a (map snd (w_hist w)))
         /\ (In a (map snd (w_hist w)) ->
             a_pc (w_actors w a) = PFlipped \/ a_pc (w_actors w a) = PDone Success \/ a_pc (w_actors w a) = PDone AbortedPost).
Proof.
  intros c m0 kind mr evs S w a. pose proof (reach_acked c m0 kind mr evs S a) as F. fold w in F. split.
  - intros [H|H] In; apply F in In; rewrite H in In; discriminate.
  - intro In. apply F in In. destruct (a_pc (w_actors w a)) as [| | | | | | | |[]]; simpl in In; try discriminate; auto.
Qed.
Print Assumptions C01_raised_not_reflected.

(* The committed versions form one linear chain: each extends its predecessor by exactly its
   committer's operation and carries a strictly larger last-updated stamp. *)
Theorem C01_chain_linear : forall c m0 kind mr evs, sound c ->
  let w := run c (init_world m0 kind mr) evs in
  chain_ok (w_files w) 0%nat (w_hist w) /\ w_ptr w = lastv 0%nat (w_hist w).
Proof.
  intros c m0 kind mr evs S w. destruct (reach_inv c m0 kind mr evs S) as [I _]. split; apply I.
Qed.
Print Assumptions C01_chain_linear.

(* The machine the theorems above are about is the protocol the SOURCE performs: the success path of `step`
   (lock, validating read -- on conditional-write storage the read that also yields the ETag --, stamp + metadata
   write, fence, commit-point write, release in the `finally`) is, action for action, the skeleton the translator
   regenerates from MetadataManager.commit on every run, and that path is enabled and leads to an acknowledged
   commit from every state with an idle committer and a free lock.  The validation compares both stamp fields and
   the stamp strictly increases along the chain (the two facts C01_serializable's invariant rests on) -- as
   properties of the REGENERATED kernels gen_stamp_eqb / gen_new_lu. *)
Theorem C01_skeleton_regenerated :
  model_path true = gen_commit_path_cas /\ model_path false = gen_commit_path_plain
  /\ (forall cc cl bc bl, gen_stamp_eqb cc cl bc bl = true <-> (cc = bc /\ cl = bl))
  /\ (forall now cl, cl < gen_new_lu now cl)
  /\ (forall c w b (now : Z), a_pc (w_actors w b) = PIdle -> (lockkind c = GrantAll \/ w_lock w = None) ->
       exists evs w',
         flat_map (actions_of (cas c)) (map e_kind evs) = (if cas c then gen_commit_path_cas else gen_commit_path_plain)
         /\ Forall (fun e => e_actor e = b) evs
         /\ run_strict c w ({| e_actor := b; e_kind := EBegin (w_ptr w) |} :: evs) 0 = inl w'
         /\ a_pc (w_actors w' b) = PDone Success /\ w_ptr w' = length (w_files w)).
Proof.
  split; [exact model_path_cas_regenerated|]. split; [exact model_path_plain_regenerated|].
  split; [exact gen_stamp_eqb_spec|]. split; [exact gen_new_lu_gt|]. exact regenerated_skeleton_runs.
Qed.
Print Assumptions C01_skeleton_regenerated.

(* A conflict is retried against a freshly read base up to the regenerated attempt bound, then reported after a
   rollback; every exception class is handled (nothing leaves commit() with the transaction still active). *)
Theorem C01_conflict_retried :
  gen_tx_on XConflict false = TxRetry /\ gen_tx_on XConflict true = TxRollbackDelete /\ (0 < gen_max_retries)%nat
  /\ (forall e last, gen_tx_on e last <> TxPropagate).
Proof. destruct conflict_retries as [A [B C]]. repeat split; try assumption. exact every_class_finishes. Qed.
Print Assumptions C01_conflict_retried.

(* Non-vacuity: a concrete schedule on the exclusive-lock configuration with a FROZEN clock in which
   a metadata-only commit (actor 1) lands between actor 0's base read and its validation: actor 0
   detects the conflict, retries and both commits are reflected in pointer order 1, 0. *)
Definition ex_cfg := {| cas := false; lockkind := Excl |}.
Definition ex_m0 := {| m_ops := []; m_cur := 1; m_lu := 100 |}.
Definition ev a k := {| e_actor := a; e_kind := k |}.
Definition ex_sched : list event :=
  [ ev 0 (EBegin 0); ev 1 (EBegin 0); ev 1 (ELockTry true); ev 1 (EValidate 0 true); ev 1 (EMetaW 100);
    ev 1 (EFence true); ev 1 (EFlip true); ev 1 ERelease;
    ev 0 (ELockTry true); ev 0 (EValidate 1 false); ev 0 ERelease;
    ev 0 (EBegin 1); ev 0 (ELockTry true); ev 0 (EValidate 1 true); ev 0 (EMetaW 100); ev 0 (EFence true);
    ev 0 (EFlip true); ev 0 ERelease ]%nat.
Example C01_nonvacuous :
  sound ex_cfg /\
  let w := run ex_cfg (init_world ex_m0 (fun a => match a with O => KFresh | _ => KKeep end) (fun _ => 50%nat)) ex_sched in
  map snd (w_hist w) = [1; 0]%nat /\ m_ops (file w (w_ptr w)) = [1; 0]%nat
  /\ a_pc (w_actors w 0%nat) = PDone Success /\ a_pc (w_actors w 1%nat) = PDone Success
  /\ run_strict ex_cfg (init_world ex_m0 (fun a => match a with O => KFresh | _ => KKeep end) (fun _ => 50%nat)) ex_sched 0 = inl w.
Proof. split; [right; reflexivity | vm_compute; repeat split]. Qed.
