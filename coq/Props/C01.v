(* Props/C01.v -- Concurrent commits are serializable: no acknowledged write lost or duplicated.
   Statements only, each closed by `exact <lemma>`; the lemmas are assembled in Proofs/C01Statements.v from
   Proofs/CommitProofs.v (the invariant of the commit machine), CommitMetaProofs.v (composition with C15's Model/Meta.v),
   CommitRetryProofs.v, C01ResentProofs.v (over Proofs/FlipFaultProofs.v, TxSettleProofs.v) and, for the lock layer,
   Proofs/ProcLockProofs.v.

   WHAT IS ABSTRACTED.  Model/Commit.v holds a table's content as the list of operation ids applied to the initial
   table (`m_ops`): the protocol only looks at the OCC stamp.  What the operations MEAN is Model/Meta.v (C15, tied to
   the source by C15_step_regenerated); C01_serializable_tables and C01_snapshot_chain read the result through that
   meaning (Model/CommitMeta.v `table_of`: every committer a stands for the Meta operation `op_of a` its successful
   attempt applied; `op_of` is universally quantified). *)
From Coq Require Import ZArith List Bool Arith Sorted Lia FinFun.
Require Import DS.Model.CommitBase DS.Gen.GenCommit DS.Model.Commit DS.Proofs.CommitGenProofs DS.Proofs.CommitProofs.
Require Import DS.Model.CommitMeta DS.Proofs.C01Statements.
Require Import DS.Model.ProcLockBase DS.Gen.GenFileLock DS.Model.ProcLock DS.Model.ProcLockKeep.
Require DS.Proofs.ProcLockProofs.
Require DS.Model.Meta DS.Model.MetaSpec.
Require Import DS.Model.FlipFault DS.Model.TxSettle.
Require DS.Proofs.TxSettleProofs DS.Proofs.FlipFaultProofs DS.Proofs.C01ResentProofs.
Import ListNotations.
Open Scope Z_scope.

(* `sound c`: storage with real mutual exclusion -- an exclusive lock (local flock) or conditional
   pointer writes (CAS S3).  Quantified over: any number of committers (actor ids are arbitrary
   naturals), any operation kinds (data commits, metadata-only commits, deleting the current
   snapshot), any retry budgets, EVERY event list (= every interleaving at protocol-step granularity;
   events that are not enabled are skipped) and EVERY clock reading carried by the events (frozen,
   coarse or decreasing clocks included). *)

(* The version the pointer names holds the initial content with exactly the flipped commits applied, one
   after another, in the order the pointer advanced (content = list of applied operations). *)
Theorem C01_serializable : forall c m0 kind mr evs, sound c ->
  let w := run c (init_world m0 kind mr) evs in
  m_ops (file w (w_ptr w)) = m_ops m0 ++ map snd (w_hist w).
Proof. exact c01_serializable. Qed.
Print Assumptions C01_serializable.

(* ... read through Model/Meta.v: the TABLE the pointer names (snapshots, parents, sequence numbers, snapshot log,
   manifests) equals the initial table with the mutators of exactly the flipped commits applied by Meta.step, one after
   another, in the order the pointer advanced -- for every interpretation of the committers as Meta operations. *)
Theorem C01_serializable_tables : forall c m0 kind mr evs (T0 : Meta.state) (op_of : aid -> Meta.op), sound c ->
  let w := run c (init_world m0 kind mr) evs in
  table_of T0 op_of (file w (w_ptr w)) = Meta.run (table_of T0 op_of m0) (flip_ops op_of w).
Proof. exact c01_serializable_tables. Qed.
Print Assumptions C01_serializable_tables.

(* Every commit that reported success is reflected, and no commit is reflected twice. *)
Theorem C01_acked_exactly_once : forall c m0 kind mr evs, sound c ->
  let w := run c (init_world m0 kind mr) evs in
  NoDup (map snd (w_hist w))
  /\ forall a, a_pc (w_actors w a) = PDone Success -> In a (map snd (w_hist w)).
Proof. exact c01_acked_exactly_once. Qed.
Print Assumptions C01_acked_exactly_once.

(* A commit that raised -- a conflict after its retry budget, or an error / interrupt / process death
   before its pointer flip -- is not reflected at all; a reflected commit either reported success or
   was cut off AFTER its own pointer flip (asynchronous interrupt or crash, see C03/C04). *)
Theorem C01_raised_not_reflected : forall c m0 kind mr evs, sound c ->
  let w := run c (init_world m0 kind mr) evs in
  forall a, (a_pc (w_actors w a) = PDone Conflict \/ a_pc (w_actors w a) = PDone Aborted -> ~ In a (map snd (w_hist w)))
         /\ (In a (map snd (w_hist w)) ->
             a_pc (w_actors w a) = PFlipped \/ a_pc (w_actors w a) = PDone Success \/ a_pc (w_actors w a) = PDone AbortedPost).
Proof. exact c01_raised_not_reflected. Qed.
Print Assumptions C01_raised_not_reflected.

(* "A commit that reported a CONFLICT is not reflected" when the store's refusal (412) can be the answer to a write it APPLIED
   (an SDK that re-sends a conditional PUT whose first copy landed; Model/FlipFault.v XFlipResent).  The library reads the
   pointer back on a refusal before calling it a conflict (regenerated: gen_refused_reads_back = true, verdict
   gen_write_landed); FlipFault.v is the machine WITH that read-back (XReadBack, a step of its own), and the statement is
   made over it.  The full statement (every schedule: `forall prompt`) is a Definition and is FALSE (`_refuted`; witness by
   vm_compute, FlipFaultProofs.superseded_witness with committer 0's retry budget 1: committer 0's write is applied and
   refused, committer 1 commits on top of it BEFORE the read-back, the read-back sees committer 1's file name, committer 0
   reports the conflict -- and is in the version chain; C01ResentProofs.resent_witness_accepted).  It holds (`_partial`)
   under the exact extra hypothesis `prompt = true`: no pointer write lands between an applied-and-refused write and its
   read-back (FlipFault.may_land).  Schedules without refused-although-applied writes are not restricted by that
   hypothesis (FlipFaultProofs.prompt_irrelevant_without_pending), and for them this is C01_raised_not_reflected. *)
Definition C01_conflict_not_reflected_full : Prop := forall prompt, C01ResentProofs.conflict_not_reflected_for prompt.

Theorem C01_conflict_not_reflected_partial : forall c atomic m0 kind mr xs, cas c = true ->
  let X := xrun_p true c atomic (xinit (init_world m0 kind mr)) xs in
  forall a, a_pc (w_actors (xw X) a) = PDone Conflict -> ~ In a (map snd (w_hist (xw X))).
Proof. exact C01ResentProofs.conflict_not_reflected_prompt. Qed.
Print Assumptions C01_conflict_not_reflected_partial.

Theorem C01_conflict_not_reflected_refuted : ~ C01_conflict_not_reflected_full.
Proof. exact C01ResentProofs.conflict_not_reflected_full_refuted. Qed.
Print Assumptions C01_conflict_not_reflected_refuted.

(* non-vacuity of both: the witness schedule is a STRICT run of the unrestricted machine (every event enabled) ending with
   committer 0 at PDone Conflict and in the chain; on the prompt machine the same schedule is refused at committer 1's
   pointer write (index 18), which is what the hypothesis excludes -- and a refused-although-applied write whose read-back
   is prompt ends in PDone Success, reflected once *)
Example C01_conflict_not_reflected_nonvacuous :
  match xrun_strict_p false C01ResentProofs.resent_cfg false
          (xinit (init_world C01ResentProofs.resent_m0 (fun _ => KKeep) C01ResentProofs.resent_budget)) FlipFaultProofs.superseded_witness 0 with
  | inl X => a_pc (w_actors (xw X) 0%nat) = PDone Conflict /\ map snd (w_hist (xw X)) = [0%nat; 1%nat] /\ x_misreported X = [0%nat]
  | inr _ => False
  end
  /\ xrun_strict_p true C01ResentProofs.resent_cfg false
        (xinit (init_world C01ResentProofs.resent_m0 (fun _ => KKeep) C01ResentProofs.resent_budget)) FlipFaultProofs.superseded_witness 0 = inr 18%nat
  /\ match xrun_strict_p true C01ResentProofs.resent_cfg false
            (xinit (init_world C01ResentProofs.resent_m0 (fun _ => KKeep) C01ResentProofs.resent_budget))
            (firstn 13 FlipFaultProofs.superseded_witness ++ [XReadBack 0; XE {| e_actor := 0; e_kind := ERelease |}])%nat 0 with
     | inl X => a_pc (w_actors (xw X) 0%nat) = PDone Success /\ map snd (w_hist (xw X)) = [0%nat] /\ x_misreported X = []
     | inr _ => False
     end.
Proof. vm_compute. repeat split; reflexivity. Qed.

(* The committed metadata VERSIONS form one linear chain: each extends its predecessor by exactly its
   committer's operation and carries a strictly larger last-updated stamp. *)
Theorem C01_version_chain_linear : forall c m0 kind mr evs, sound c ->
  let w := run c (init_world m0 kind mr) evs in
  chain_ok (w_files w) 0%nat (w_hist w) /\ w_ptr w = lastv 0%nat (w_hist w).
Proof. exact c01_version_chain_linear. Qed.
Print Assumptions C01_version_chain_linear.

(* The surviving SNAPSHOT chain (property text: "linear with strictly increasing sequence numbers"), C01 composed
   with C15.  The initial version holds the table that the history ops0 built on a freshly created table; distinct
   committers draw distinct positive snapshot ids and distinct metadata-file names (what uuid4 provides -- a
   hypothesis on the interpretation alone, not on the run).  Then after EVERY schedule the table the pointer names is
   well-formed w.r.t. the ghost history H of everything committed in pointer order (MetaSpec.WF: current snapshot
   retained or none, every parent link nothing or a retained TRUE ancestor, retained snapshots unchanged but for the
   parent and unique, sequence numbers strictly increasing over H), and read in snapshot-log order -- which is the
   order the pointer advanced -- the retained snapshots' sequence numbers strictly increase. *)
Theorem C01_snapshot_chain : forall c m0 kind mr evs (t0 f0 : Z) (ops0 : list Meta.op) (op_of : aid -> Meta.op),
  sound c -> m_ops m0 = [] ->
  (forall l : list aid, NoDup l -> MetaSpec.fresh_ops f0 (ops0 ++ map op_of l)) ->
  let w := run c (init_world m0 kind mr) evs in
  let T := Meta.md (table_of (MetaSpec.replay t0 f0 ops0) op_of (file w (w_ptr w))) in
  let H := MetaSpec.hist_of t0 f0 (ops0 ++ flip_ops op_of w) in
  MetaSpec.WF H T
  /\ StronglySorted Z.lt (map Meta.seq (MetaSpec.retained_in_commit_order H T))
  /\ map snd (Meta.slog T) = map Meta.sid (MetaSpec.retained_in_commit_order H T)
  /\ (forall s, In s (Meta.snaps T) ->
        exists h, In h (MetaSpec.retained_in_commit_order H T) /\ Meta.sid h = Meta.sid s /\ Meta.seq h = Meta.seq s).
Proof. exact c01_snapshot_chain. Qed.
Print Assumptions C01_snapshot_chain.

(* The machine the theorems above are about is the protocol the SOURCE performs: the success path of `step`
   (lock, validating read -- on conditional-write storage the read that also yields the ETag --, stamp + metadata
   write, fence, commit-point write, release in the `finally`) is, action for action, the skeleton the translator
   regenerates from MetadataManager.commit on every run, and that path is enabled and leads to an acknowledged
   commit from every state with an idle committer and a free lock.  The validation compares both stamp fields and
   the stamp strictly increases along the chain (the two facts C01_serializable's invariant rests on) -- as
   properties of the REGENERATED kernels gen_stamp_eqb / gen_new_lu. *)
Theorem C01_skeleton_regenerated :
  model_path true = gen_commit_path_cas /\ model_path false = gen_commit_path_plain
  /\ (forall cc cl bc bl, gen_stamp_eqb cc cl bc bl = true <-> (cc = bc /\ cl = bl))
  /\ (forall now cl, cl < gen_new_lu now cl)
  /\ (forall c w b (now : Z), a_pc (w_actors w b) = PIdle -> (lockkind c = GrantAll \/ w_lock w = None) ->
       exists evs w',
         flat_map (actions_of (cas c)) (map e_kind evs) = (if cas c then gen_commit_path_cas else gen_commit_path_plain)
         /\ Forall (fun e => e_actor e = b) evs
         /\ run_strict c w ({| e_actor := b; e_kind := EBegin (w_ptr w) |} :: evs) 0 = inl w'
         /\ a_pc (w_actors w' b) = PDone Success /\ w_ptr w' = length (w_files w)).
Proof. exact c01_skeleton_regenerated. Qed.
Print Assumptions C01_skeleton_regenerated.

(* A conflict is retried against a freshly read base up to the regenerated attempt bound, then reported after a
   rollback; every exception class is handled (nothing leaves commit() with the transaction still active).  The
   machine's retry step IS that table (what `step` does on the release after a conflict is read off gen_tx_on with
   `last` = "this was the last attempt of the budget"), and in every run whose committers start with the REGENERATED
   budget gen_max_retries no attempt beyond the budget is started and a conflict is reported only after exactly
   gen_max_retries attempts. *)
Theorem C01_conflict_retried :
  gen_tx_on XConflict false = TxRetry /\ gen_tx_on XConflict true = TxRollbackDelete /\ (0 < gen_max_retries)%nat
  /\ (forall e last, gen_tx_on e last <> TxPropagate)
  /\ (forall c w e w', e_kind e = ERelease -> a_pc (w_actors w (e_actor e)) = PConflict -> step c w e = Some w' ->
        let s := w_actors w (e_actor e) in
        match gen_tx_on XConflict (negb (Nat.ltb (S (a_attempt s)) (a_maxr s))) with
        | TxRetry => a_pc (w_actors w' (e_actor e)) = PIdle /\ a_attempt (w_actors w' (e_actor e)) = S (a_attempt s)
        | TxRollbackDelete => a_pc (w_actors w' (e_actor e)) = PDone Conflict
        | _ => False
        end)
  /\ (forall c m0 kind evs a,
        let s := w_actors (run c (init_world m0 kind (fun _ => gen_max_retries)) evs) a in
        (a_attempt s < gen_max_retries)%nat /\ (a_pc s = PDone Conflict -> S (a_attempt s) = gen_max_retries)).
Proof. exact c01_conflict_retried. Qed.
Print Assumptions C01_conflict_retried.

(* ---- "storage with real mutual exclusion", local filesystem: the layer below `lockkind = Excl`.
   Writers are FileLock handles (one per Table handle) placed in OS processes by an ARBITRARY topology
   `proc : hid -> pid` -- threads of one process with separate handles, one process per handle, several handles in
   one process next to handles in other processes, and processes created by FORK: `LFork h h'` makes handle h' (in
   another process) the twin of h, copying the handle object and INHERITING its open descriptors (two handles sharing
   one open file description; Model/ProcLock.v).  Each handle runs FileLock's program on the lock file one kernel
   primitive per event (open; non-blocking attempt; close after a refusal; unlock; close), processes can be killed,
   and EVERY event list is a schedule.  The kernel's ownership discipline is `gen_lock_disc`, read off the primitive
   the source calls on every run (Gen/GenFileLock.v; flock = the lock belongs to the open file description).
   Hypothesis on the environment, spelled out: `forks_quiescent` -- every fork of the event list copies a handle that
   is idle at that moment (the application forks its workers between commits, not from inside one; why this cannot be
   dropped: C01_fork_while_holding_not_exclusive below -- that is fork(2), not FileLock).  Every theorem under that
   hypothesis carries `_partial` in its name; the statement WITHOUT it is the Definition C01_lock_exclusive_full, refuted
   (C01_lock_exclusive_refuted).  Not modelled: fork(2) copies EVERY handle of the forking process at once (LFork copies one
   handle per event; the harness emits one LFork per handle the parent has used), and FileLock.__del__ (release() on a
   garbage-collected handle; the translator refuses any primitive on the lock file there other than through release()). *)

(* At most one handle believes it holds the lock -- whatever the topology, forked workers included. *)
Theorem C01_lock_exclusive_any_topology_partial : forall (proc : hid -> pid) evs h1 h2,
  forks_quiescent gen_lock_disc proc linit evs ->
  let s := lrun gen_lock_disc proc linit evs in lholds s h1 -> lholds s h2 -> h1 = h2.
Proof. exact ProcLockProofs.gen_lock_exclusive. Qed.
Print Assumptions C01_lock_exclusive_any_topology_partial.

(* ... and without the hypothesis it is false: a fork while the copied handle holds (fork(2) itself) *)
Definition C01_lock_exclusive_full : Prop := C01ResentProofs.lock_exclusive_any_events.
Theorem C01_lock_exclusive_refuted : ~ C01_lock_exclusive_full.
Proof. exact C01ResentProofs.lock_exclusive_any_events_refuted. Qed.
Print Assumptions C01_lock_exclusive_refuted.

(* The lock layer refines Commit.v's exclusive lock (a PER-STEP statement about `lock_view`; it is not composed into a
   simulation of Commit.run under Excl here -- the composition is the harness's trace validation of both layers on the same runs): the handle whose flag is set is exactly the kernel's owner
   (so the fence of the commit point, which reads the flag, tells the truth), and every enabled event moves that
   view the way `step` moves `w_lock`: a granted attempt only from a free lock, a refused one only while another
   handle holds, the holder's unlock frees it, a process death frees it iff the holder lived there, and nothing else
   -- no open, no close of a refused or released descriptor, in the holder's process or any other, no fork of an idle
   handle -- touches it. *)
Theorem C01_lock_refines_excl_partial : forall (proc : hid -> pid) evs,
  forks_quiescent gen_lock_disc proc linit evs ->
  let s := lrun gen_lock_disc proc linit evs in
  (forall h, lholds s h <-> lock_view s = Some h)
  /\ (forall e s', fork_quiescent s e -> lstep gen_lock_disc proc s e = Some s' -> view_effect proc s e s').
Proof. exact ProcLockProofs.gen_lock_refinement. Qed.
Print Assumptions C01_lock_refines_excl_partial.

(* A holder cannot lose the lock to anything but its own unlock or the death of its own process: what the other
   handles do -- those sharing its process and its forked twins included -- leaves its flag set AND its description
   the kernel's owner. *)
Theorem C01_lock_not_dropped_by_others_partial : forall (proc : hid -> pid) evs e s' h,
  forks_quiescent gen_lock_disc proc linit evs ->
  let s := lrun gen_lock_disc proc linit evs in
  fork_quiescent s e -> lstep gen_lock_disc proc s e = Some s' -> lholds s h -> e <> LStep h KUnlock -> e <> LKill (proc h) ->
  lholds s' h /\ lock_view s' = Some h.
Proof. exact ProcLockProofs.gen_lock_keeps_holder. Qed.
Print Assumptions C01_lock_not_dropped_by_others_partial.

(* WHY a forked worker is just another writer: the regenerated program opens the lock file per attempt and closes it on
   refusal and in release(), so an idle handle holds NO descriptor of the lock file; a worker forked while its parent's
   handle is idle inherits nothing -- the fork changes no descriptor table, no owner, no handle state. *)
Theorem C01_fork_inherits_nothing_partial : forall (proc : hid -> pid) evs,
  forks_quiescent gen_lock_disc proc linit evs ->
  let s := lrun gen_lock_disc proc linit evs in
  (forall h d, l_h s h = HIdle -> ~ In (d, h) (l_open s))
  /\ (forall h h' s', l_h s h = HIdle -> lstep gen_lock_disc proc s (LFork h h') = Some s' ->
        l_open s' = l_open s /\ l_next s' = l_next s /\ l_owner s' = l_owner s /\ forall k, l_h s' k = l_h s k).
Proof. exact ProcLockProofs.gen_lock_fork_inherits_nothing. Qed.
Print Assumptions C01_fork_inherits_nothing_partial.

(* The handle program of the model is, primitive for primitive, the skeleton the translator regenerates from
   FileLock._try_acquire_once / FileLock.release; the discipline is the description-owned one; the fence is the
   flag; and the granted path is enabled, and ends holding, from every reachable state with a free lock. *)
Theorem C01_lock_skeleton_regenerated_partial :
  gen_lock_disc = ByDescription /\ gen_fence_is_flag = true
  /\ flat_map lactions_of attempt_granted_events = gen_attempt_granted
  /\ flat_map lactions_of attempt_refused_events = gen_attempt_refused
  /\ flat_map lactions_of release_events = gen_release
  /\ (forall (proc : hid -> pid) evs h, forks_quiescent gen_lock_disc proc linit evs ->
        let s := lrun gen_lock_disc proc linit evs in
        l_h s h = HIdle -> lock_view s = None ->
        exists s', lrun_strict gen_lock_disc proc s (map (LStep h) attempt_granted_events) 0 = inl s'
                   /\ lholds s' h /\ lock_view s' = Some h).
Proof. exact ProcLockProofs.gen_lock_skeleton. Qed.
Print Assumptions C01_lock_skeleton_regenerated_partial.

(* Non-vacuity of the fork hypotheses: a parent (handle 0, process 0) uses its lock once, then forks two workers
   (handles 1, 2 in processes 1, 2); worker 1 takes the lock, the parent and worker 2 are refused, worker 1 releases,
   the parent takes it.  Every fork is quiescent, the strict run accepts every event, exactly handle 0 holds. *)
Definition own_proc (h : hid) : pid := h.
Definition ex_fork_sched : list levent :=
  [LStep 0 KOpen; LStep 0 (KTry true); LStep 0 KUnlock; LStep 0 KClose; LFork 0 1; LFork 0 2;
   LStep 1 KOpen; LStep 1 (KTry true); LStep 0 KOpen; LStep 0 (KTry false); LStep 0 KCloseRefused;
   LStep 2 KOpen; LStep 2 (KTry false); LStep 2 KCloseRefused; LStep 1 KUnlock; LStep 1 KClose;
   LStep 0 KOpen; LStep 0 (KTry true)]%nat.
Example C01_fork_nonvacuous :
  forks_quiescent gen_lock_disc own_proc linit ex_fork_sched
  /\ (exists s, lrun_strict gen_lock_disc own_proc linit ex_fork_sched 0 = inl s
                 /\ s = lrun gen_lock_disc own_proc linit ex_fork_sched /\ lock_view s = Some 0%nat /\ lholds s 0%nat).
Proof.
  split; [vm_compute; repeat split|]. eexists. split; [vm_compute; reflexivity|]. split; [vm_compute; reflexivity|].
  split; [vm_compute; reflexivity|]. eexists. vm_compute. reflexivity.
Qed.

(* Why the discipline and the topology matter (refutation witnesses; the harness replays their shape on the real
   code: X holds, Y in X's process touches the lock file, Z in another process attempts).  With PROCESS-owned locks
   (POSIX record locks: fcntl F_SETLK, lockf) the same handle program is not exclusive as soon as one process has two
   handles: (1) the kernel grants the second handle of the process straight away; (2) even when the handles of a process
   take turns, the second handle's unlock / close of ITS descriptor drops the PROCESS's lock while the first still
   believes it holds, and a handle of another process is granted -- both strict (enabled) runs of the model. *)
Definition two_procs (h : hid) : pid := if Nat.ltb h 2 then 0%nat else 1%nat.
Example C01_process_owned_lock_not_exclusive :
  (exists s, lrun_strict ByProcess (fun _ => 0%nat) linit
               [LStep 0 KOpen; LStep 0 (KTry true); LStep 1 KOpen; LStep 1 (KTry true)]%nat 0 = inl s
             /\ lholds s 0%nat /\ lholds s 1%nat)
  /\ (exists s, lrun_strict ByProcess two_procs linit
               [LStep 0 KOpen; LStep 0 (KTry true);
                LStep 1 KOpen; LStep 1 (KTry true); LStep 1 KUnlock; LStep 1 KClose;
                LStep 2 KOpen; LStep 2 (KTry true)]%nat 0 = inl s
             /\ lholds s 0%nat /\ lholds s 2%nat /\ two_procs 0%nat <> two_procs 2%nat).
Proof.
  split; eexists; (split; [vm_compute; reflexivity|]); repeat split; try (eexists; vm_compute; reflexivity).
  vm_compute. discriminate.
Qed.

(* ... while under the regenerated discipline the same two event lists are refused by the kernel at the second grant *)
Example C01_description_owned_lock_refuses_them :
  lrun_strict gen_lock_disc (fun _ => 0%nat) linit
    [LStep 0 KOpen; LStep 0 (KTry true); LStep 1 KOpen; LStep 1 (KTry true)]%nat 0 = inr 3%nat
  /\ (exists s, lrun_strict gen_lock_disc two_procs linit
               [LStep 0 KOpen; LStep 0 (KTry true); LStep 1 KOpen; LStep 1 (KTry false); LStep 1 KCloseRefused;
                LStep 2 KOpen; LStep 2 (KTry false); LStep 2 KCloseRefused]%nat 0 = inl s
             /\ lock_view s = Some 0%nat /\ lholds s 0%nat).
Proof.
  split; [vm_compute; reflexivity|]. eexists. split; [vm_compute; reflexivity|]. split; [vm_compute; reflexivity|].
  eexists. vm_compute. reflexivity.
Qed.

(* Why the fork hypothesis cannot be dropped (fork(2), whatever the library does): a fork while the copied handle HOLDS
   gives the worker a twin whose flag says "held" and whose descriptor shares the parent's description -- two handles
   believe they hold; and the twin's release() unlocks the SHARED description: the parent's lock is gone while the
   parent still believes it holds, and an independent third handle is granted. *)
Example C01_fork_while_holding_not_exclusive :
  (exists s, lrun_strict gen_lock_disc own_proc linit [LStep 0 KOpen; LStep 0 (KTry true); LFork 0 1]%nat 0 = inl s
             /\ lholds s 0%nat /\ lholds s 1%nat)
  /\ (exists s, lrun_strict gen_lock_disc own_proc linit
               [LStep 0 KOpen; LStep 0 (KTry true); LFork 0 1; LStep 1 KUnlock; LStep 1 KClose;
                LStep 2 KOpen; LStep 2 (KTry true)]%nat 0 = inl s
             /\ lholds s 0%nat /\ lholds s 2%nat)
  /\ ~ forks_quiescent gen_lock_disc own_proc linit [LStep 0 KOpen; LStep 0 (KTry true); LFork 0 1]%nat.
Proof.
  split; [|split].
  - eexists. split; [vm_compute; reflexivity|]. split; eexists; vm_compute; reflexivity.
  - eexists. split; [vm_compute; reflexivity|]. split; eexists; vm_compute; reflexivity.
  - vm_compute. intros [_ [_ [H _]]]. discriminate.
Qed.

(* Why the per-attempt open / close of the regenerated program matters (Model/ProcLockKeep.v: the same kernel, a handle
   that KEEPS its descriptor across acquisitions): the parent uses its lock once, a worker is forked while the parent's
   handle is idle -- and inherits the kept descriptor --; then the parent takes the lock and the worker's attempt through
   the shared description is GRANTED as well (both hold, in two processes); the worker's unlock drops the parent's lock
   and an independent third handle is granted while the parent still believes it holds. *)
Example C01_kept_descriptor_not_exclusive_after_fork :
  (exists s, krun_strict gen_lock_disc own_proc linit
               [KEv (LStep 0 KOpen); KEv (LStep 0 (KTry true)); KUnlockKeep 0; KForkKeep 0 1;
                KEv (LStep 0 (KTry true)); KEv (LStep 1 (KTry true))]%nat 0 = inl s
             /\ lholds s 0%nat /\ lholds s 1%nat /\ own_proc 0%nat <> own_proc 1%nat)
  /\ (exists s, krun_strict gen_lock_disc own_proc linit
               [KEv (LStep 0 KOpen); KEv (LStep 0 (KTry true)); KUnlockKeep 0; KForkKeep 0 1;
                KEv (LStep 0 (KTry true)); KEv (LStep 1 (KTry true)); KUnlockKeep 1;
                KEv (LStep 2 KOpen); KEv (LStep 2 (KTry true))]%nat 0 = inl s
             /\ lholds s 0%nat /\ lholds s 2%nat).
Proof.
  split.
  - eexists. split; [vm_compute; reflexivity|]. split; [eexists; vm_compute; reflexivity|].
    split; [eexists; vm_compute; reflexivity | vm_compute; discriminate].
  - eexists. split; [vm_compute; reflexivity|]. split; eexists; vm_compute; reflexivity.
Qed.

(* Non-vacuity: a concrete schedule on the exclusive-lock configuration with a FROZEN clock in which
   a metadata-only commit (actor 1) lands between actor 0's base read and its validation: actor 0
   detects the conflict, retries and both commits are reflected in pointer order 1, 0. *)
Definition ex_cfg := {| cas := false; lockkind := Excl |}.
Definition ex_m0 := {| m_ops := []; m_cur := 1; m_lu := 100 |}.
Definition ev a k := {| e_actor := a; e_kind := k |}.
Definition ex_sched : list event :=
  [ ev 0 (EBegin 0); ev 1 (EBegin 0); ev 1 (ELockTry true); ev 1 (EValidate 0 true); ev 1 (EMetaW 100);
    ev 1 (EFence true); ev 1 (EFlip true); ev 1 ERelease;
    ev 0 (ELockTry true); ev 0 (EValidate 1 false); ev 0 ERelease;
    ev 0 (EBegin 1); ev 0 (ELockTry true); ev 0 (EValidate 1 true); ev 0 (EMetaW 100); ev 0 (EFence true);
    ev 0 (EFlip true); ev 0 ERelease ]%nat.
Example C01_nonvacuous :
  sound ex_cfg /\
  let w := run ex_cfg (init_world ex_m0 (fun a => match a with O => KFresh | _ => KKeep end) (fun _ => 50%nat)) ex_sched in
  map snd (w_hist w) = [1; 0]%nat /\ m_ops (file w (w_ptr w)) = [1; 0]%nat
  /\ a_pc (w_actors w 0%nat) = PDone Success /\ a_pc (w_actors w 1%nat) = PDone Success
  /\ run_strict ex_cfg (init_world ex_m0 (fun a => match a with O => KFresh | _ => KKeep end) (fun _ => 50%nat)) ex_sched 0 = inl w.
Proof. split; [right; reflexivity | vm_compute; repeat split]. Qed.

(* Non-vacuity of C01_serializable_tables / C01_snapshot_chain: the same schedule with both committers appending, read
   through Model/Meta.v with a concrete interpretation (committer a appends one file under snapshot id a+1 and writes
   metadata file a+1).  The interpretation satisfies the freshness hypothesis for EVERY duplicate-free list of
   committers, and the table the pointer names holds the two snapshots in pointer order 1, 0: ids 2 then 1, sequence
   numbers 1 then 2, the second's parent is the first. *)
Definition ex_op_of (a : aid) : Meta.op :=
  Meta.Txn [Meta.TAppend [(0, Z.of_nat a + 10)]] (Z.of_nat a + 1) 100 100 (Z.of_nat a + 1).
Example C01_snapshot_chain_hypothesis_satisfiable :
  forall l : list aid, NoDup l -> MetaSpec.fresh_ops 0 ([] ++ map ex_op_of l).
Proof.
  intros l ND. simpl.
  assert (E1 : flat_map MetaSpec.op_ids (map ex_op_of l) = map (fun a => Z.of_nat a + 1) l).
  { clear ND. induction l as [|a l IH]; simpl; [reflexivity|]. rewrite IH. reflexivity. }
  assert (E2 : map MetaSpec.op_file (map ex_op_of l) = map (fun a => Z.of_nat a + 1) l) by (rewrite map_map; reflexivity).
  assert (NDm : NoDup (map (fun a => Z.of_nat a + 1) l)) by (apply Injective_map_NoDup; [intros x y H; lia | exact ND]).
  unfold MetaSpec.fresh_ops. rewrite E1, E2. split; [exact NDm|]. split.
  - apply Forall_forall. intros x Hx. apply in_map_iff in Hx. destruct Hx as [a [<- _]]. lia.
  - constructor; [|exact NDm]. intro Hx. apply in_map_iff in Hx. destruct Hx as [a [E _]]. lia.
Qed.
Example C01_snapshot_chain_nonvacuous :
  let w := run ex_cfg (init_world ex_m0 (fun _ => KFresh) (fun _ => 50%nat)) ex_sched in
  let T := Meta.md (table_of (MetaSpec.replay 100 0 []) ex_op_of (file w (w_ptr w))) in
  map snd (w_hist w) = [1; 0]%nat
  /\ map (fun s => (Meta.sid s, Meta.seq s, Meta.parent s)) (Meta.snaps T) = [(2, 1, Some (-1)); (1, 2, Some 2)]
  /\ Meta.cur T = Some 1
  /\ table_of (MetaSpec.replay 100 0 []) ex_op_of (file w (w_ptr w)) = MetaSpec.replay 100 0 (map ex_op_of [1; 0]%nat).
Proof. vm_compute. repeat split. Qed.

(* Non-vacuity of C01_conflict_retried's budget statement: a committer with budget 1 (delete_snapshot) that loses one
   conflict reports it after exactly one attempt. *)
Example C01_budget_nonvacuous :
  let w := run ex_cfg (init_world ex_m0 (fun _ => KKeep) (fun _ => 1%nat))
             [ ev 0 (EBegin 0); ev 1 (EBegin 0); ev 1 (ELockTry true); ev 1 (EValidate 0 true); ev 1 (EMetaW 100);
               ev 1 (EFence true); ev 1 (EFlip true); ev 1 ERelease;
               ev 0 (ELockTry true); ev 0 (EValidate 1 false); ev 0 ERelease ]%nat in
  a_pc (w_actors w 0%nat) = PDone Conflict /\ a_attempt (w_actors w 0%nat) = 0%nat /\ map snd (w_hist w) = [1%nat].
Proof. vm_compute. repeat split. Qed.


(* ------------------------------------------------------------------------------------------------------------------------
   The commit-point write FAILS (storage fault: not applied, or applied with the response lost) and the transaction decides,
   OUTSIDE the metadata lock, what to tell its caller (Model/TxSettle.v over Model/FlipFault.v; conditional-write storage).
   Every schedule of that machine (its two restrictions are spelled out below): any number of committers, faults at anybody's pointer write, other committers running to completion between
   the fault, the lock release and the transaction's decision (TSettle is a step of its own).

   STABILITY of a settle verdict.  `sound_policy pol` says the verdict agrees with the ghost `in_history` AT THE SETTLE STEP
   (a policy that looks only at the tip and is sound answers VUnknown always; the oracle policy `fun _ inh => if inh then VLanded
   else VNotLanded` is sound).  What is proved is that such a verdict STAYS true for the rest of the run: a commit reported as
   a definite failure is not reflected later either, one reported committed is, no data file of a reflected commit is deleted.
   `_partial`: TWO restrictions of the machine are hypotheses of this statement, not facts about the store:
     (1) PROMPT machine (tstep runs FlipFault.xstep_p true): no pointer write lands between an applied-and-refused write and
         its read-back;
     (2) NO LANDING AFTER UNWIND: a request that lands after its client gave up is XFlipErr placed BEFORE the sender's XUnwind;
         a PUT that lands after the transaction settled is not an event of Model/TxSettle.v.  With such an event every policy
         that ever answers VNotLanded on conditional-write storage would be unsafe (it deletes the files, then the write
         lands): the reason the source's arm answers VUnknown (next theorem).  Those landings are run against the real code only
         (harness: fault mode "inflight"). *)
Theorem C01_settle_stable_prompt_no_late_landing_partial : forall pol c atomic m0 kind mr ts, cas c = true -> sound_policy pol ->
  let T := trun pol c atomic (tinit (init_world m0 kind mr)) ts in
  forall a, let h := map snd (w_hist (xw (t_x T))) in
    (t_rep T a = Some RepFailed -> ~ In a h)
    /\ (t_rep T a = Some RepSuccess -> In a h)
    /\ (In a (t_deleted T) -> ~ In a h).
Proof. exact TxSettleProofs.settle_sound. Qed.
Print Assumptions C01_settle_stable_prompt_no_late_landing_partial.

(* The policy of the SOURCE is read off the regenerated handler table (gen_tx_on over gen_flip_exn): on conditional-write
   storage (cas = true; the local DirectorySyncError and non-CAS S3 arms have no settle statement) the arm for a failed
   commit-point write ASSERTS NOTHING: whatever the schedule, no caller of a failed commit-point write is ever told "committed"
   or "definitely failed" -- only "ambiguous" (or nothing yet) -- and no data file is deleted on this path.  (So
   `settle_consistent` holds of it trivially -- its premises never fire; that is what this theorem says, no more.) *)
Theorem C01_regenerated_settle_never_definite : forall c atomic last m0 kind mr ts, cas c = true ->
  let T := trun (gen_policy (cas c) atomic last) c atomic (tinit (init_world m0 kind mr)) ts in
  (forall a, t_rep T a = None \/ t_rep T a = Some RepAmbiguous) /\ t_deleted T = [].
Proof. exact C01ResentProofs.regenerated_settle_never_definite. Qed.
Print Assumptions C01_regenerated_settle_never_definite.

(* "Is the CURRENT version ours?" is not such a policy: with it the statement is false.  Witness (a strict run, every event
   enabled): committer 0's conditional write is applied, the response lost, the lock released; committer 1 commits on top of the
   version committer 0 published; committer 0's read-back then sees committer 1's version, reports a definite failure and
   deletes its data files -- while its commit is in the chain (TxSettleProofs.tip_witness_accepted). *)
Theorem C01_tip_read_back_refuted :
  ~ (forall c atomic m0 kind mr ts, cas c = true -> settle_consistent (trun tip_policy c atomic (tinit (init_world m0 kind mr)) ts)).
Proof. exact TxSettleProofs.tip_policy_refuted. Qed.
Print Assumptions C01_tip_read_back_refuted.

(* non-vacuity: the same schedule under the regenerated policy -- accepted event by event, the settle step runs, the caller is
   told "ambiguous", nothing is deleted, the commit is in the chain *)
Example C01_settle_nonvacuous :
  match trun_strict (gen_policy true false false) TxSettleProofs.tip_cfg false
          (tinit (init_world TxSettleProofs.tip_m0 (fun _ => KFresh) (fun _ => 50%nat))) TxSettleProofs.tip_witness 0 with
  | inl T => t_rep T 0%nat = Some RepAmbiguous /\ t_deleted T = [] /\ map snd (w_hist (xw (t_x T))) = [0%nat; 1%nat]
  | inr _ => False
  end.
Proof. exact TxSettleProofs.gen_witness_accepted. Qed.
