(* Props/C04.v -- A failed, interrupted or ambiguous commit never damages committed data.
   Statements only; proofs are in Proofs/FaultProofs.v.

   Event lists range over: protocol steps of any number of transactions (Commit.v), FWrite (a
   transaction writes a fresh data file / manifest / manifest list), EAbort (an exception or an
   asynchronous KeyboardInterrupt / SystemExit escapes at ANY step boundary -- before the base read,
   while preparing, under the lock, between the metadata write and the flip, after the flip during
   lock release or marker cleanup), ECrash, and FRollback (the code's _rollback(delete_files=True)).
   Every fault SEQUENCE (not only single faults) is an event list. *)
From Coq Require Import ZArith List Bool Arith.
Require Import DS.Model.CommitBase DS.Gen.GenCommit DS.Model.Commit DS.Model.Fault DS.Proofs.CommitGenProofs DS.Proofs.CommitProofs DS.Proofs.FaultProofs.
Import ListNotations.

(* In every case each file referenced by any committed version (hence by any retained snapshot)
   is still present. *)
Theorem C04_no_damage : forall c m0 kind mr r0 next evs,
  sound c -> (forall f, In f r0 -> (f < next)%nat) ->
  let x := frun c (finit m0 kind mr r0 next) evs in
  forall v, In v (committed (fw x)) -> forall f, In f (refs x v) -> In f (f_present x).
Proof. exact no_damage. Qed.
Print Assumptions C04_no_damage.

(* The transaction's uncommitted files never become reachable. *)
Theorem C04_unreachable : forall c m0 kind mr r0 next evs,
  sound c -> (forall f, In f r0 -> (f < next)%nat) ->
  let x := frun c (finit m0 kind mr r0 next) evs in
  forall a, flipped (pcof x a) = false -> forall f, In f (f_written x a) ->
  forall v, In v (committed (fw x)) -> ~ In f (refs x v).
Proof. exact uncommitted_unreachable. Qed.
Print Assumptions C04_unreachable.

(* The table stays writable: the commit invariant holds after any faulty run, so the
   serializability theorems (C01) apply to every continuation. *)
Theorem C04_liveness : forall c m0 kind mr r0 next evs,
  sound c -> (forall f, In f r0 -> (f < next)%nat) -> Inv c (fw (frun c (finit m0 kind mr r0 next) evs)).
Proof. exact faults_keep_inv. Qed.
Print Assumptions C04_liveness.

(* Files are deleted only by a transaction that has ended without ever flipping the pointer
   (in particular never after an ambiguous or post-flip failure). *)
Theorem C04_delete_only_unflipped : forall c x a x',
  fstep c x (FRollback a) = Some x' -> flipped (pcof x a) = false /\ (exists o, pcof x a = PDone o).
Proof. exact rollback_only_unflipped. Qed.
Print Assumptions C04_delete_only_unflipped.

(* Pre- or post-state: a transaction's operation is part of the table iff its pointer flip
   happened, exactly once, whatever failed before or after. *)
Theorem C04_pre_or_post : forall c m0 kind mr r0 next evs,
  sound c -> (forall f, In f r0 -> (f < next)%nat) ->
  let w := fw (frun c (finit m0 kind mr r0 next) evs) in
  NoDup (map snd (w_hist w))
  /\ forall a, (In a (map snd (w_hist w)) <-> flipped (a_pc (w_actors w a)) = true).
Proof. exact pre_or_post. Qed.
Print Assumptions C04_pre_or_post.

(* The rollback guard of the model (`can_rollback`: files are deleted only by a transaction that never flipped) as a
   fact about the REGENERATED handler tables (Gen/GenCommit.v, read off Transaction.commit, MetadataManager.commit and
   _write_hint_at_commit_point on every run): (1) a failing commit-point write that may have taken effect -- any
   failure but the store's own refusal on conditional-write storage; any failure where failed writes are not
   guaranteed invisible -- is classified AMBIGUOUS; (2) the classes that can escape after the pointer may have moved
   (ambiguous, asynchronous interrupt) never make Transaction.commit delete the transaction's files nor the commit
   section discard the metadata file it wrote; (3) every class ends the transaction inside commit(), so a context
   manager's rollback afterwards is a no-op; (4) clean failures (conflict, other errors before the commit point)
   discard the unpublished metadata file. *)
Theorem C04_handlers_keep_after_possible_flip :
  (forall casb atomic, (casb = true \/ atomic = false) -> gen_flip_exn casb atomic FEError = XAmbiguous)
  /\ (forall e last, may_follow_flip e = true -> gen_tx_on e last <> TxRollbackDelete /\ gen_discard_on e = false)
  /\ (forall e last, gen_tx_on e last <> TxPropagate)
  /\ (gen_discard_on XConflict = true /\ gen_discard_on XOther = true).
Proof.
  split; [exact flip_error_possibly_applied_is_ambiguous|]. split; [exact handlers_keep_after_possible_flip|].
  split; [exact every_class_finishes | exact clean_failure_discards].
Qed.
Print Assumptions C04_handlers_keep_after_possible_flip.

(* Non-vacuity: (1) an interrupt AFTER the flip (during lock release): the commit is reflected,
   the transaction ends AbortedPost, its rollback is NOT enabled and its file stays; (2) an error
   before the flip: Aborted, rollback deletes its own file only, the base files stay. *)
Definition ev a k := {| e_actor := a; e_kind := k |}.
Definition ex_init := finit {| m_ops := []; m_cur := 1; m_lu := 100 |} (fun _ => KFresh) (fun _ => 50%nat) [0; 1]%nat 2%nat.
Definition ex_cfg := {| cas := false; lockkind := Excl |}.
Example C04_nonvacuous :
  (let x := frun ex_cfg ex_init
      [FWrite 0; FProto (ev 0 (EBegin 0)); FWrite 0; FProto (ev 0 (ELockTry true)); FProto (ev 0 (EValidate 0 true));
       FProto (ev 0 (EMetaW 100)); FProto (ev 0 (EFence true)); FProto (ev 0 (EFlip true)); FProto (ev 0 EAbort);
       FRollback 0]%nat in
   a_pc (w_actors (fw x) 0%nat) = PDone AbortedPost /\ map snd (w_hist (fw x)) = [0%nat]
   /\ refs x 1%nat = [0; 1; 3; 2]%nat /\ f_present x = [3; 2; 0; 1]%nat /\ all_present x = true)
  /\ (let y := frun ex_cfg ex_init
      [FWrite 0; FProto (ev 0 (EBegin 0)); FProto (ev 0 (ELockTry true)); FProto (ev 0 EAbort); FRollback 0]%nat in
   a_pc (w_actors (fw y) 0%nat) = PDone Aborted /\ w_hist (fw y) = [] /\ f_present y = [0; 1]%nat /\ all_present y = true).
Proof. vm_compute. repeat split. Qed.
