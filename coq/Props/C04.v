(* Props/C04.v -- A failed, interrupted or ambiguous commit never damages committed data.
   Statements only; proofs are in Proofs/FaultProofs.v.

   Event lists range over: protocol steps of any number of transactions (Commit.v), FWrite (a
   transaction writes a fresh data file / manifest / manifest list), EAbort (an exception or an
   asynchronous KeyboardInterrupt / SystemExit escapes at ANY step boundary -- before the base read,
   while preparing, under the lock, between the metadata write and the flip, after the flip during
   lock release or marker cleanup), ECrash, and FRollback (the code's _rollback(delete_files=True)).
   Every fault SEQUENCE (not only single faults) is an event list. *)
From Coq Require Import ZArith List Bool Arith.
Require Import DS.Model.CommitBase DS.Model.TailBase DS.Gen.GenCommit DS.Gen.GenTail DS.Model.Commit DS.Model.Fault DS.Model.Tail
               DS.Proofs.CommitGenProofs DS.Proofs.CommitProofs DS.Proofs.FaultProofs DS.Proofs.TailProofs.
Import ListNotations.

(* In every case each file referenced by any committed version (hence by any retained snapshot)
   is still present. *)
Theorem C04_no_damage : forall c m0 kind mr r0 next evs,
  sound c -> (forall f, In f r0 -> (f < next)%nat) ->
  let x := frun c (finit m0 kind mr r0 next) evs in
  forall v, In v (committed (fw x)) -> forall f, In f (refs x v) -> In f (f_present x).
Proof. exact no_damage. Qed.
Print Assumptions C04_no_damage.

(* The transaction's uncommitted files never become reachable. *)
Theorem C04_unreachable : forall c m0 kind mr r0 next evs,
  sound c -> (forall f, In f r0 -> (f < next)%nat) ->
  let x := frun c (finit m0 kind mr r0 next) evs in
  forall a, flipped (pcof x a) = false -> forall f, In f (f_written x a) ->
  forall v, In v (committed (fw x)) -> ~ In f (refs x v).
Proof. exact uncommitted_unreachable. Qed.
Print Assumptions C04_unreachable.

(* The table stays writable: the commit invariant holds after any faulty run, so the
   serializability theorems (C01) apply to every continuation. *)
Theorem C04_liveness : forall c m0 kind mr r0 next evs,
  sound c -> (forall f, In f r0 -> (f < next)%nat) -> Inv c (fw (frun c (finit m0 kind mr r0 next) evs)).
Proof. exact faults_keep_inv. Qed.
Print Assumptions C04_liveness.

(* Files are deleted only by a transaction that has ended without ever flipping the pointer
   (in particular never after an ambiguous or post-flip failure). *)
Theorem C04_delete_only_unflipped : forall c x a x',
  fstep c x (FRollback a) = Some x' -> flipped (pcof x a) = false /\ (exists o, pcof x a = PDone o).
Proof. exact rollback_only_unflipped. Qed.
Print Assumptions C04_delete_only_unflipped.

(* Pre- or post-state: a transaction's operation is part of the table iff its pointer flip
   happened, exactly once, whatever failed before or after. *)
Theorem C04_pre_or_post : forall c m0 kind mr r0 next evs,
  sound c -> (forall f, In f r0 -> (f < next)%nat) ->
  let w := fw (frun c (finit m0 kind mr r0 next) evs) in
  NoDup (map snd (w_hist w))
  /\ forall a, (In a (map snd (w_hist w)) <-> flipped (a_pc (w_actors w a)) = true).
Proof. exact pre_or_post. Qed.
Print Assumptions C04_pre_or_post.

(* The rollback guard of the model (`can_rollback`: files are deleted only by a transaction that never flipped) as a
   fact about the REGENERATED handler tables (Gen/GenCommit.v, read off Transaction.commit, MetadataManager.commit and
   _write_hint_at_commit_point on every run): (1) a failing commit-point write that may have taken effect -- any
   failure but the store's own refusal on conditional-write storage; any failure where failed writes are not
   guaranteed invisible -- is classified AMBIGUOUS; (2) the classes that can escape after the pointer may have moved
   (ambiguous, asynchronous interrupt) never make Transaction.commit delete the transaction's files nor the commit
   section discard the metadata file it wrote; (3) every class ends the transaction inside commit(), so a context
   manager's rollback afterwards is a no-op; (4) clean failures (conflict, other errors before the commit point)
   discard the unpublished metadata file. *)
Theorem C04_handlers_keep_after_possible_flip :
  (forall casb atomic, (casb = true \/ atomic = false) -> gen_flip_exn casb atomic FEError = XAmbiguous)
  /\ (forall e last, may_follow_flip e = true -> gen_tx_on e last <> TxRollbackDelete /\ gen_discard_on e = false)
  /\ (forall e last, gen_tx_on e last <> TxPropagate)
  /\ (gen_discard_on XConflict = true /\ gen_discard_on XOther = true).
Proof.
  split; [exact flip_error_possibly_applied_is_ambiguous|]. split; [exact handlers_keep_after_possible_flip|].
  split; [exact every_class_finishes | exact clean_failure_discards].
Qed.
Print Assumptions C04_handlers_keep_after_possible_flip.

(* ---------------------------------------------------------------------------------------------------------------
   Post-flip infallibility.  The theorems above are about Model/Fault.v, whose rollback is GUARDED by "never flipped".
   In the code nothing tests that: Transaction.commit's `except Exception` arm deletes the transaction's files whenever
   an Exception reaches it.  Model/Tail.v removes the guard: `TEscape a e last` lets an exception of class e leave the
   tail of a's commit call at any point after its flip and runs the arm the handler table names.  The tail of every
   commit path (what still executes inside Transaction.commit's `try` once the version-hint write has landed: the rest
   of MetadataManager.commit, create_snapshot, _commit_file_ops, _finish_committed, with every method they call inlined)
   is regenerated from the source by translator/gen_tail.py -- under every table configuration at once, since the
   regular expression keeps both sides of every `if`. *)

(* For every tail r and handler table txon such that every class that can leave r is handled by the keep-files arm:
   after ANY event list (failures before the flip, rollbacks, crashes, and exceptions of any class leaving the tail of
   any commit at any point after its flip) every file referenced by a committed version is present.
   WHAT THIS ADDS, HONESTLY: under the hypothesis tail_safe an enabled TEscape acts exactly as Fault.v's EAbort
   (C04_post_flip_escape_is_abort below), so the three C04_post_flip_* theorems are C04_no_damage / C04_unreachable /
   C04_liveness transported to the machine WITHOUT the rollback guard; everything they add is the hypothesis, which is
   a decidable fact about the regenerated tail and handler table (C04_tail_regenerated_safe: no call of the tail outside
   a swallowing `try` -- storage, lock, `raise`, or plain fallible computation) and whose necessity is
   C04_unguarded_tail_damages.  Like every theorem here they assume `sound c` (the lock / CAS assumptions of C01). *)
Theorem C04_post_flip_no_damage : forall r txon c m0 kind mr r0 next evs,
  sound c -> (forall f, In f r0 -> (f < next)%nat) -> tail_safe txon r = true ->
  let x := trun r txon c (finit m0 kind mr r0 next) evs in
  forall v, In v (committed (fw x)) -> forall f, In f (refs x v) -> In f (f_present x).
Proof. exact tail_no_damage. Qed.
Print Assumptions C04_post_flip_no_damage.

(* ... uncommitted files stay unreachable and the commit invariant (C01) survives *)
Theorem C04_post_flip_unreachable : forall r txon c m0 kind mr r0 next evs,
  sound c -> (forall f, In f r0 -> (f < next)%nat) -> tail_safe txon r = true ->
  let x := trun r txon c (finit m0 kind mr r0 next) evs in
  forall a, flipped (pcof x a) = false -> forall f, In f (f_written x a) ->
  forall v, In v (committed (fw x)) -> ~ In f (refs x v).
Proof. exact tail_unreachable. Qed.
Print Assumptions C04_post_flip_unreachable.

Theorem C04_post_flip_liveness : forall r txon c m0 kind mr r0 next evs,
  sound c -> (forall f, In f r0 -> (f < next)%nat) -> tail_safe txon r = true ->
  Inv c (fw (trun r txon c (finit m0 kind mr r0 next) evs)).
Proof. exact tail_keeps_inv. Qed.
Print Assumptions C04_post_flip_liveness.

(* The reduction the three theorems above rest on: with a safe tail, an exception leaving a commit call after its flip is
   Fault.v's EAbort -- the lock is released on the way out and nothing else happens. *)
Theorem C04_post_flip_escape_is_abort : forall r txon c x a e last x',
  tail_safe txon r = true -> tstep r txon c x (TEscape a e last) = Some x' ->
  x' = fstep_skip c x (FProto {| e_actor := a; e_kind := EAbort |}).
Proof. exact safe_escape_is_abort. Qed.
Print Assumptions C04_post_flip_escape_is_abort.

(* "A raise caused by a storage error leaves the pre-state."  Transaction.commit reports an exception as a plain storage
   error through its deleting arm (`except Exception: self._rollback(); raise`); f_dead x a is the ghost "a has run that
   arm".  In every run of the unguarded tail machine, a transaction that ran it never flipped and its operation is not
   part of the table.  Before the flip this is the rollback guard of Fault.v (the strict run of the correspondence refuses
   a real trace that deletes after a flip); after the flip it is tail_safe. *)
Theorem C04_clean_pre : forall r txon c m0 kind mr r0 next evs,
  sound c -> (forall f, In f r0 -> (f < next)%nat) -> tail_safe txon r = true ->
  let x := trun r txon c (finit m0 kind mr r0 next) evs in
  forall a, f_dead x a = true -> flipped (pcof x a) = false /\ ~ In a (map snd (w_hist (fw x))).
Proof. exact clean_raise_pre. Qed.
Print Assumptions C04_clean_pre.

(* ... on the REGENERATED tables: a failing commit-point write is reported as a plain storage error only where a write
   that raises is guaranteed not to have happened (no conditional write, atomic_write_failures), and no Exception can
   leave any regenerated tail -- so a storage error is never reported by a call whose pointer write has landed. *)
Theorem C04_clean_pre_regenerated :
  (forall casb atomic, gen_flip_exn casb atomic FEError = XOther -> casb = false /\ atomic = true)
  /\ unguarded gen_tail_file_ops = false /\ unguarded gen_tail_meta_only = false /\ unguarded gen_tail_delete_snapshot = false.
Proof. exact clean_raise_regenerated. Qed.
Print Assumptions C04_clean_pre_regenerated.

(* "When the outcome of the pointer write is unknowable the error is reported as ambiguous and no file written by the
   transaction is deleted": on the regenerated tables, every failure of the commit-point write other than the store's
   own refusal is AMBIGUOUS on a conditional-write store and on a store whose failed writes may have been applied; the arm
   that handles AMBIGUOUS keeps the transaction's files and the metadata file on every attempt (never a retry); and in
   the machine an ambiguous error leaving a commit call -- for ANY tail -- deletes nothing and marks nothing rolled back. *)
Theorem C04_ambiguous :
  (forall casb atomic, (casb = true \/ atomic = false) -> gen_flip_exn casb atomic FEError = XAmbiguous)
  /\ (forall last, gen_tx_on XAmbiguous last = TxRollbackKeep) /\ gen_discard_on XAmbiguous = false
  /\ (forall r c x a last x', tstep r gen_tx_on c x (TEscape a XAmbiguous last) = Some x' ->
       f_present x' = f_present x /\ f_written x' = f_written x /\ f_dead x' = f_dead x).
Proof. exact ambiguous_keeps. Qed.
Print Assumptions C04_ambiguous.

(* The REGENERATED tails (file-level commits, metadata-only commits) are safe for the REGENERATED handler table, and the
   tail of SnapshotManager.delete_snapshot (no Transaction around it) has no call whose Exception is not swallowed. *)
Theorem C04_tail_regenerated_safe :
  tail_safe gen_tx_on gen_tail_file_ops = true /\ tail_safe gen_tx_on gen_tail_meta_only = true
  /\ unguarded gen_tail_delete_snapshot = false.
Proof. exact gen_tails_safe. Qed.
Print Assumptions C04_tail_regenerated_safe.

(* Hence, for the code as it is now: *)
Theorem C04_commit_tail_no_damage : forall c m0 kind mr r0 next evs,
  sound c -> (forall f, In f r0 -> (f < next)%nat) ->
  (let x := trun gen_tail_file_ops gen_tx_on c (finit m0 kind mr r0 next) evs in
   forall v, In v (committed (fw x)) -> forall f, In f (refs x v) -> In f (f_present x))
  /\ (let x := trun gen_tail_meta_only gen_tx_on c (finit m0 kind mr r0 next) evs in
   forall v, In v (committed (fw x)) -> forall f, In f (refs x v) -> In f (f_present x)).
Proof. exact gen_tail_no_damage. Qed.
Print Assumptions C04_commit_tail_no_damage.

(* The proviso is necessary: if some class can leave the tail and its arm deletes (or nobody finishes the transaction),
   the run "write a file, commit it up to the flip, let that class escape" leaves version 1 committed, referencing file 2,
   and file 2 gone.  A fallible, unguarded storage call after the commit point -- under whatever configuration it
   executes -- is exactly this. *)
Theorem C04_unguarded_tail_damages : forall r txon e last,
  tail_escapes r e = true -> (txon e last = TxRollbackDelete \/ txon e last = TxPropagate) ->
  let x := trun r txon dm_cfg dm_init (map TF dm_prefix ++ [TEscape 0%nat e last]) in
  In 1%nat (committed (fw x)) /\ In 2%nat (refs x 1%nat) /\ ~ In 2%nat (f_present x).
Proof. exact unguarded_tail_damages. Qed.
Print Assumptions C04_unguarded_tail_damages.

(* Non-vacuity: (1) an interrupt AFTER the flip (during lock release): the commit is reflected,
   the transaction ends AbortedPost, its rollback is NOT enabled and its file stays; (2) an error
   before the flip: Aborted, rollback deletes its own file only, the base files stay. *)
Definition ev a k := {| e_actor := a; e_kind := k |}.
Definition ex_init := finit {| m_ops := []; m_cur := 1; m_lu := 100 |} (fun _ => KFresh) (fun _ => 50%nat) [0; 1]%nat 2%nat.
Definition ex_cfg := {| cas := false; lockkind := Excl |}.
Example C04_nonvacuous :
  (let x := frun ex_cfg ex_init
      [FWrite 0; FProto (ev 0 (EBegin 0)); FWrite 0; FProto (ev 0 (ELockTry true)); FProto (ev 0 (EValidate 0 true));
       FProto (ev 0 (EMetaW 100)); FProto (ev 0 (EFence true)); FProto (ev 0 (EFlip true)); FProto (ev 0 EAbort);
       FRollback 0]%nat in
   a_pc (w_actors (fw x) 0%nat) = PDone AbortedPost /\ map snd (w_hist (fw x)) = [0%nat]
   /\ refs x 1%nat = [0; 1; 3; 2]%nat /\ f_present x = [3; 2; 0; 1]%nat /\ all_present x = true)
  /\ (let y := frun ex_cfg ex_init
      [FWrite 0; FProto (ev 0 (EBegin 0)); FProto (ev 0 (ELockTry true)); FProto (ev 0 EAbort); FRollback 0]%nat in
   a_pc (w_actors (fw y) 0%nat) = PDone Aborted /\ w_hist (fw y) = [] /\ f_present y = [0; 1]%nat /\ all_present y = true).
Proof. vm_compute. repeat split. Qed.

(* Non-vacuity of the tail machine with the regenerated tables: (1) KeyboardInterrupt during marker cleanup (after the
   release): enabled, files kept; (2) a storage Exception cannot leave the regenerated tail: the event is not enabled;
   (3) the regenerated tail accepts "release, three marker deletes" and refuses an `exists` after the release. *)
Definition ex_commit := map TF
  [FWrite 0; FProto (ev 0 (EBegin 0)); FWrite 0; FProto (ev 0 (ELockTry true)); FProto (ev 0 (EValidate 0 true));
   FProto (ev 0 (EMetaW 100)); FProto (ev 0 (EFence true)); FProto (ev 0 (EFlip true)); FProto (ev 0 ERelease)]%nat.
Example C04_tail_nonvacuous :
  (match trun_strict gen_tail_file_ops gen_tx_on ex_cfg ex_init (ex_commit ++ [TEscape 0%nat XInterrupt false; TF (FRollback 0%nat)]) 0%nat with
   | inr i => i = 10%nat | inl _ => False end)
  /\ (let x := trun gen_tail_file_ops gen_tx_on ex_cfg ex_init (ex_commit ++ [TEscape 0%nat XInterrupt false]) in
      f_present x = [3; 2; 0; 1]%nat /\ all_present x = true)
  /\ (match trun_strict gen_tail_file_ops gen_tx_on ex_cfg ex_init (ex_commit ++ [TEscape 0%nat XOther false]) 0%nat with
      | inr i => i = 9%nat | inl _ => False end)
  /\ tail_accepts gen_tail_file_ops [TKRelease; TKDelete; TKDelete; TKDelete] = true
  /\ tail_accepts gen_tail_file_ops [TKRelease; TKExists; TKDelete] = false
  /\ tail_accepts_prefix gen_tail_file_ops [TKRelease; TKDelete] = true.
Proof. vm_compute. repeat split. Qed.

(* Non-vacuity of C04_clean_pre / C04_ambiguous: (1) a storage error before the flip, handled by the deleting arm: f_dead holds,
   the transaction is not in the history, its file is gone, the base files stay; (2) a tail with one unguarded fallible
   computation (TKCompute) is NOT safe for the regenerated table, an Exception leaves it, the deleting arm runs on a FLIPPED
   transaction: f_dead holds although the transaction is in the history -- the conclusion of C04_clean_pre fails without its
   hypothesis; (3) an ambiguous error on a tail that lets it escape is enabled and keeps everything; (4) TKCompute steps are
   invisible to the word check. *)
Definition ex_bad_tail := TSeq (TCall TKRelease true) (TSeq (TCall TKCompute false) (TStar (TCall TKDelete true))).
Example C04_clean_pre_nonvacuous :
  (let y := trun gen_tail_file_ops gen_tx_on ex_cfg ex_init
      (map TF [FWrite 0; FProto (ev 0 (EBegin 0)); FProto (ev 0 (ELockTry true)); FProto (ev 0 EAbort); FRollback 0]%nat) in
   f_dead y 0%nat = true /\ w_hist (fw y) = [] /\ f_present y = [0; 1]%nat)
  /\ tail_safe gen_tx_on ex_bad_tail = false
  /\ (let z := trun ex_bad_tail gen_tx_on ex_cfg ex_init (ex_commit ++ [TEscape 0%nat XOther false]) in
      f_dead z 0%nat = true /\ map snd (w_hist (fw z)) = [0%nat] /\ all_present z = false)
  /\ (match tstep ex_bad_tail gen_tx_on ex_cfg (trun ex_bad_tail gen_tx_on ex_cfg ex_init ex_commit) (TEscape 0%nat XAmbiguous false) with
      | Some z => f_present z = [3; 2; 0; 1]%nat /\ f_dead z 0%nat = false | None => False end)
  /\ tail_accepts (observable ex_bad_tail) [TKRelease; TKDelete] = true
  /\ tail_accepts ex_bad_tail [TKRelease; TKDelete] = false.
Proof. vm_compute. repeat split. Qed.
