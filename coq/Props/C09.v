(* Props/C09.v -- Retained snapshots are immutable and time travel is stable.
   Statements only; proofs are in Proofs/C09Proofs.v (file plane, Model/Fault.v) and Proofs/MetaProofs.v
   (metadata plane, Model/Meta.v; the three lookup theorems are stated in Props/C15.v and re-stated here).

   (a) file plane: once a metadata version is committed, ANY continuation -- protocol steps of any number of
       transactions (appends, deletes which write fresh manifests and a fresh list), failed / interrupted /
       crashed commits, rollbacks -- leaves the set of files that version references unchanged and every one of
       them present: files are write-once and nothing a later transaction does removes a committed version's file.
   (b) metadata plane: a retained snapshot is, after any history of committed operations, the snapshot that was
       committed (same timestamp, sequence number and manifest-list content; only the parent link may be
       repointed); lookup by id returns it; lookup by timestamp returns the most recently committed retained
       snapshot not newer than the requested time; deleting the current snapshot repoints to the most recently
       committed survivor.
   (c) collections: see C09_collect_keeps_retained below (proved over the collector model of C05). *)
From Coq Require Import ZArith List Bool Arith.
Require Import DS.Model.Commit DS.Model.Fault DS.Proofs.CommitProofs DS.Proofs.FaultProofs DS.Proofs.C09Proofs.
Import ListNotations.

Theorem C09_immutable : forall c m0 kind mr r0 next evs1 evs2,
  sound c -> (forall f, In f r0 -> (f < next)%nat) ->
  let x := frun c (finit m0 kind mr r0 next) evs1 in
  let y := frun c (finit m0 kind mr r0 next) (evs1 ++ evs2) in
  forall v, In v (committed (fw x)) ->
    refs y v = refs x v /\ (forall f, In f (refs x v) -> In f (f_present y)) /\ In v (committed (fw y)).
Proof. exact immutable_from_init. Qed.
Print Assumptions C09_immutable.

(* Non-vacuity: version 1 is committed by actor 0, then actor 1 commits on top of it (writing fresh files):
   version 1's file set is unchanged and present; both versions are committed. *)
Definition ev a k := {| e_actor := a; e_kind := k |}.
Definition ex_init := finit {| m_ops := []; m_cur := 1; m_lu := 100 |} (fun _ => KFresh) (fun _ => 50%nat) [0; 1]%nat 2%nat.
Definition ex_cfg := {| cas := false; lockkind := Excl |}.
Definition ex_evs1 := [FWrite 0; FProto (ev 0 (EBegin 0)); FWrite 0; FProto (ev 0 (ELockTry true)); FProto (ev 0 (EValidate 0 true));
       FProto (ev 0 (EMetaW 100)); FProto (ev 0 (EFence true)); FProto (ev 0 (EFlip true)); FProto (ev 0 ERelease)]%nat.
Definition ex_evs2 := [FProto (ev 1 (EBegin 1)); FWrite 1; FProto (ev 1 (ELockTry true)); FProto (ev 1 (EValidate 1 true));
       FProto (ev 1 (EMetaW 101)); FProto (ev 1 (EFence true)); FProto (ev 1 (EFlip true)); FProto (ev 1 ERelease)]%nat.
Example C09_nonvacuous :
  let x := frun ex_cfg ex_init ex_evs1 in
  let y := frun ex_cfg ex_init (ex_evs1 ++ ex_evs2) in
  committed (fw x) = committed (fw x) /\ In 1%nat (committed (fw x)) /\ refs x 1%nat = refs y 1%nat
  /\ refs x 1%nat = [0; 1; 3; 2]%nat /\ length (committed (fw y)) = S (length (committed (fw x))) /\ all_present y = true.
Proof. vm_compute. repeat split; auto. Qed.

(* ------------------------------------------------------------------ metadata plane (Model/Meta.v) *)
Require Import DS.Model.MetaBase DS.Model.Meta DS.Model.MetaSpec DS.Proofs.MetaProofs.
Open Scope Z_scope.

Theorem C09_by_timestamp : forall (t0 f0 : Z) (ops : list op) (t : Z),
  fresh_ops f0 ops -> nondecreasing_ts ops ->
  option_map sid (by_timestamp (md (replay t0 f0 ops)) t) =
  option_map sid (last_opt (filter (fun h => memZ (sid h) (sids (md (replay t0 f0 ops))) && (ts h <=? t))
                                   (hist_of t0 f0 ops))).
Proof. exact by_timestamp_most_recent. Qed.
Print Assumptions C09_by_timestamp.

Theorem C09_delete_current : forall (t0 f0 : Z) (ops : list op) (id : Z),
  fresh_ops f0 ops ->
  cur (md (replay t0 f0 ops)) = Some id -> In id (sids (md (replay t0 f0 ops))) ->
  exists m', delete_snapshot (md (replay t0 f0 ops)) id = Some m' /\
    cur m' = option_map sid (last_opt (filter (fun h => memZ (sid h) (sids (md (replay t0 f0 ops))) && negb (sid h =? id))
                                              (hist_of t0 f0 ops))).
Proof. exact delete_current_most_recent. Qed.
Print Assumptions C09_delete_current.

Theorem C09_by_id : forall (t0 f0 : Z) (ops : list op) (id : Z) (s : snap),
  fresh_ops f0 ops -> by_id (md (replay t0 f0 ops)) id = Some s ->
  In s (snaps (md (replay t0 f0 ops))) /\ sid s = id /\ exists h, In h (hist_of t0 f0 ops) /\ same_but_parent h s.
Proof. exact by_id_retained. Qed.
Print Assumptions C09_by_id.


(* ------------------------------------------------------------------ collections (Model/GC.v, Model/GCHist.v; C05) *)
(* After ANY sequential history of commits (append / multi-operation / delete_files), expiries, snapshot deletions,
   open transactions, planted orphans, arbitrary file ages and COLLECTIONS with any table location, grace period,
   clock, abandonment timeout and any fault oracle, every retained snapshot is fully present: its manifest list,
   every manifest in it and every data file they name (C05_history, restated for the retained-snapshot half). *)
Require DS.Model.GC DS.Model.GCHist DS.Proofs.GCHistProofs.
Theorem C09_collect_keeps_retained : forall ops : list DS.Model.GCHist.hop,
  let h := DS.Model.GCHist.run_hist ops in
  forall l, In l (DS.Model.GCHist.h_lists h) -> DS.Model.GCHist.snapshot_present (DS.Model.GCHist.h_store h) l.
Proof. intros ops h. exact (proj2 (DS.Proofs.GCHistProofs.history_invariant ops)). Qed.
Print Assumptions C09_collect_keeps_retained.
