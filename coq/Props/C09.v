(* Props/C09.v -- Retained snapshots are immutable and time travel is stable.
   Statements only; proofs are in Proofs/C09MetaProofs.v + Proofs/MetaProofs.v (metadata plane, Model/Meta.v),
   Proofs/GCViewProofs.v + Proofs/GCHistProofs.v (file contents and collections, Model/GCHist.v + Model/GCView.v),
   Proofs/C09Proofs.v (file plane of the commit protocol under failures, Model/Fault.v).

   (a) CONTENT (Model/GCView.v; section "content of a retained snapshot" below): what a reader gets from a retained
       snapshot -- the manifests of its list, the data files of each manifest, the body of each data file -- is left
       exactly as it was by every step of every sequential history: commits with any mix of appended, REWRITTEN and
       dropped manifests, expiries, snapshot deletions, open (never committed) transactions, orphans, collections under
       any fault oracle (C09_retained_content_step, C09_retained_content_stable; taking the history up to and including
       the commit of the snapshot as the prefix, "as it was" is "as committed").
   (b) METADATA (Model/Meta.v, whose step function is proved equal to the regenerated code by C15_step_regenerated):
       a snapshot that is retained before and after ANY continuation has the timestamp, sequence number and manifest
       list (every manifest, every entry) it had -- a delete_files builds a NEW snapshot with rewritten manifests and
       leaves the old one alone; only the parent link may be repointed (C09_retained_snapshot_frozen).
       Lookup by id is exact and complete (C09_by_id, C09_by_id_complete).
       Lookup by timestamp, for EVERY history (C09_by_timestamp_characterised): greatest timestamp not newer than t,
       and among the retained snapshots carrying that timestamp the most recently committed.  The property's reading
       "the most recently committed retained snapshot not newer than t" follows when commit timestamps never decrease
       (C09_by_timestamp_partial, hypothesis nondecreasing_ts spelled out) and is FALSE without it
       (C09_by_timestamp_full is a Definition; C09_by_timestamp_refuted: a clock that steps back).
       Deleting the current snapshot repoints to the most recently committed survivor, for every history
       (C09_delete_current).
   (c) COMMIT PROTOCOL UNDER FAILURES (Model/Fault.v): C09_version_refs_frozen -- see the note at the theorem for what it
       does and does not say.
   (d) COLLECTIONS: presence (C09_collect_keeps_retained), roots (C09_collect_roots_*, C09_collect_opens_roots). *)
From Coq Require Import ZArith List Bool Arith.
Require Import DS.Model.Commit DS.Model.Fault DS.Proofs.CommitProofs DS.Proofs.FaultProofs DS.Proofs.C09Proofs.
Import ListNotations.

(* ------------------------------------------------------------------ commit protocol under failures (Model/Fault.v) *)
(* Formerly "C09_immutable"; renamed because it is NOT the immutability of snapshot content (that is (a) and (b) above).
   What it says: in the file plane of the commit machine -- any number of transactions taking protocol steps, failing,
   being interrupted or crashing at any step boundary, and running their rollback -- the SET of file names a committed
   metadata version references never changes, every one of those files stays present, and the version stays committed.
   What carries it: file names are fresh; a version's reference set is written once (f_refs is append-only, by
   construction of the model); and the rollback guard of the model (can_rollback: only a transaction that never flipped
   the pointer deletes, and only its own files), which is tied to the code by C04_handlers_keep_after_possible_flip
   (regenerated handler tables) -- it is a consequence of that guard, not an independent fact about the code.
   It has no file contents and no manifest rewrite: it cannot fail for an in-place manifest mutation or an over-eager
   collection; those are C09_retained_content_* below. *)
Theorem C09_version_refs_frozen : forall c m0 kind mr r0 next evs1 evs2,
  sound c -> (forall f, In f r0 -> (f < next)%nat) ->
  let x := frun c (finit m0 kind mr r0 next) evs1 in
  let y := frun c (finit m0 kind mr r0 next) (evs1 ++ evs2) in
  forall v, In v (committed (fw x)) ->
    refs y v = refs x v /\ (forall f, In f (refs x v) -> In f (f_present y)) /\ In v (committed (fw y)).
Proof. exact immutable_from_init. Qed.
Print Assumptions C09_version_refs_frozen.

(* Non-vacuity: version 1 is committed by actor 0; then actor 1 commits version 2 on top of it (writing fresh files), and
   actor 2 writes file 5, fails before the flip and rolls back (file 5 is deleted): version 1's file set is unchanged
   and present, the rolled-back file is gone, both versions are committed. *)
Definition ev a k := {| e_actor := a; e_kind := k |}.
Definition ex_init := finit {| m_ops := []; m_cur := 1; m_lu := 100 |} (fun _ => KFresh) (fun _ => 50%nat) [0; 1]%nat 2%nat.
Definition ex_cfg := {| cas := false; lockkind := Excl |}.
Definition ex_evs1 := [FWrite 0; FProto (ev 0 (EBegin 0)); FWrite 0; FProto (ev 0 (ELockTry true)); FProto (ev 0 (EValidate 0 true));
       FProto (ev 0 (EMetaW 100)); FProto (ev 0 (EFence true)); FProto (ev 0 (EFlip true)); FProto (ev 0 ERelease)]%nat.
Definition ex_evs2 := [FProto (ev 1 (EBegin 1)); FWrite 1; FProto (ev 1 (ELockTry true)); FProto (ev 1 (EValidate 1 true));
       FProto (ev 1 (EMetaW 101)); FProto (ev 1 (EFence true)); FProto (ev 1 (EFlip true)); FProto (ev 1 ERelease);
       FProto (ev 2 (EBegin 2)); FWrite 2; FProto (ev 2 (ELockTry true)); FProto (ev 2 EAbort); FRollback 2]%nat.
Example C09_nonvacuous :
  let x := frun ex_cfg ex_init ex_evs1 in
  let y := frun ex_cfg ex_init (ex_evs1 ++ ex_evs2) in
  In 1%nat (committed (fw x)) /\ refs x 1%nat = refs y 1%nat
  /\ refs x 1%nat = [0; 1; 3; 2]%nat /\ length (committed (fw y)) = S (length (committed (fw x))) /\ all_present y = true
  /\ f_present x = [3; 2; 0; 1]%nat /\ f_present (frun ex_cfg ex_init (ex_evs1 ++ firstn 12 ex_evs2)) = [5; 4; 3; 2; 0; 1]%nat
  /\ f_present y = [4; 3; 2; 0; 1]%nat /\ f_next y = 6%nat.
Proof. vm_compute. repeat split; auto. Qed.

(* ------------------------------------------------------------------ metadata plane (Model/Meta.v) *)
From Coq Require Import Lia.
Require Import DS.Model.MetaBase DS.Model.Meta DS.Model.MetaSpec DS.Proofs.MetaProofs DS.Proofs.C09MetaProofs.
Open Scope Z_scope.

(* A retained snapshot is frozen.  For every history ops1 and every continuation ops2 (transactions appending, deleting
   files, expiring; snapshot deletions; retention pruning; steps that abort or commit nothing), a snapshot found in the
   metadata before and after -- same id -- has the same timestamp, sequence number and manifest list: every manifest and
   every entry (path, status, adding snapshot, sequence number) as committed.  Unbounded in both histories. *)
Theorem C09_retained_snapshot_frozen : forall (t0 f0 : Z) (ops1 ops2 : list op) (s s' : snap),
  fresh_ops f0 (ops1 ++ ops2) ->
  In s (snaps (md (replay t0 f0 ops1))) -> In s' (snaps (md (replay t0 f0 (ops1 ++ ops2)))) -> sid s' = sid s ->
  ts s' = ts s /\ seq s' = seq s /\ mlist s' = mlist s.
Proof. exact retained_frozen. Qed.
Print Assumptions C09_retained_snapshot_frozen.

Theorem C09_by_id : forall (t0 f0 : Z) (ops : list op) (id : Z) (s : snap),
  fresh_ops f0 ops -> by_id (md (replay t0 f0 ops)) id = Some s ->
  In s (snaps (md (replay t0 f0 ops))) /\ sid s = id /\ exists h, In h (hist_of t0 f0 ops) /\ same_but_parent h s.
Proof. exact by_id_retained. Qed.
Print Assumptions C09_by_id.

(* ... and it finds every retained snapshot (ids are unique), returning exactly the retained record *)
Theorem C09_by_id_complete : forall (t0 f0 : Z) (ops : list op) (s : snap),
  fresh_ops f0 ops -> In s (snaps (md (replay t0 f0 ops))) -> by_id (md (replay t0 f0 ops)) (sid s) = Some s.
Proof. exact by_id_complete. Qed.
Print Assumptions C09_by_id_complete.

(* Lookup by timestamp, for EVERY history (commit timestamps in any order, equal timestamps, retention pruning that
   re-sorts the snapshots list): the result is a retained snapshot not newer than t; no retained snapshot not newer than
   t has a greater timestamp; and among the retained snapshots carrying the result's timestamp it is the most recently
   committed one (last in the ghost commit history).  None exactly when every retained snapshot is newer than t. *)
Theorem C09_by_timestamp_characterised : forall (t0 f0 : Z) (ops : list op) (t : Z),
  fresh_ops f0 ops ->
  match by_timestamp (md (replay t0 f0 ops)) t with
  | Some s => In s (snaps (md (replay t0 f0 ops))) /\ ts s <= t
              /\ (forall x, In x (snaps (md (replay t0 f0 ops))) -> ts x <= t -> ts x <= ts s)
              /\ option_map sid (last_opt (filter (fun h => memZ (sid h) (sids (md (replay t0 f0 ops))) && (ts h =? ts s))
                                                  (hist_of t0 f0 ops))) = Some (sid s)
  | None => forall x, In x (snaps (md (replay t0 f0 ops))) -> t < ts x
  end.
Proof. exact by_timestamp_characterised. Qed.
Print Assumptions C09_by_timestamp_characterised.

(* The property's wording -- "the most recently committed retained snapshot not newer than the requested time" -- as a
   statement about every history: *)
Definition C09_by_timestamp_full : Prop := forall (t0 f0 : Z) (ops : list op) (t : Z),
  fresh_ops f0 ops ->
  option_map sid (by_timestamp (md (replay t0 f0 ops)) t) =
  option_map sid (last_opt (filter (fun h => memZ (sid h) (sids (md (replay t0 f0 ops))) && (ts h <=? t))
                                   (hist_of t0 f0 ops))).

(* It is FALSE: snapshot 1 is committed with timestamp 10, then snapshot 2 with timestamp 5 (the wall clock stepped back,
   or a second writer's clock lags); both are not newer than 10, snapshot 2 is the most recently committed, and the lookup
   at 10 returns snapshot 1 (regress_ops of Proofs/C09MetaProofs.v; the real code does the same: harness/props/c09.py
   runs such histories and counts the lookups on which the two readings differ). *)
Theorem C09_by_timestamp_refuted : ~ C09_by_timestamp_full.
Proof. exact by_timestamp_full_refuted. Qed.
Print Assumptions C09_by_timestamp_refuted.

(* It holds under exactly this extra hypothesis: the timestamps of the history's transactions never decrease
   (nondecreasing_ts; equal timestamps allowed -- the stable sort is what makes them come out right). *)
Theorem C09_by_timestamp_partial : forall (t0 f0 : Z) (ops : list op) (t : Z),
  fresh_ops f0 ops -> nondecreasing_ts ops ->
  option_map sid (by_timestamp (md (replay t0 f0 ops)) t) =
  option_map sid (last_opt (filter (fun h => memZ (sid h) (sids (md (replay t0 f0 ops))) && (ts h <=? t))
                                   (hist_of t0 f0 ops))).
Proof. exact by_timestamp_most_recent. Qed.
Print Assumptions C09_by_timestamp_partial.

(* no hypothesis on the clock here: the repointing walks the snapshot log, which is in commit order *)
Theorem C09_delete_current : forall (t0 f0 : Z) (ops : list op) (id : Z),
  fresh_ops f0 ops ->
  cur (md (replay t0 f0 ops)) = Some id -> In id (sids (md (replay t0 f0 ops))) ->
  exists m', delete_snapshot (md (replay t0 f0 ops)) id = Some m' /\
    cur m' = option_map sid (last_opt (filter (fun h => memZ (sid h) (sids (md (replay t0 f0 ops))) && negb (sid h =? id))
                                              (hist_of t0 f0 ops))).
Proof. exact delete_current_most_recent. Qed.
Print Assumptions C09_delete_current.

(* Non-vacuity (metadata plane).  Snapshot 1 appends /data/1 and /data/2 in one manifest; snapshot 2 is committed in the
   same millisecond; snapshot 3 is a delete_files of data/1: it carries a REWRITTEN manifest (one EXISTING entry) while
   snapshot 1 keeps its two ADDED entries; then the intermediate snapshot 2 is deleted and 3's parent is repointed to 1
   (the one field that may change).  Lookups: at 10 the most recently committed of the two snapshots stamped 10; nothing
   before 10; by id every retained snapshot and only those; deleting the current snapshot 3 repoints to 1. *)
Definition c09_meta_ops : list op :=
  [Txn [TAppend [(1, 1); (1, 2)]] 1 10 100 1; Txn [TAppend [(0, 3)]] 2 10 101 2; Txn [TDelete [(0, 1)]] 3 11 102 3; DeleteSnap 2 103 4].
Definition c09_md (n : nat) : meta := md (replay 0 0 (firstn n c09_meta_ops)).
Definition c09_ent (p : path) (st ad sq : Z) : entry := {| epath := p; estatus := st; eadded := ad; eseq := sq |}.
Example C09_meta_nonvacuous :
  fresh_ops 0 c09_meta_ops /\ nondecreasing_ts c09_meta_ops
  /\ map sid (snaps (c09_md 4)) = [1; 3]
  /\ option_map mlist (by_id (c09_md 1) 1) = Some [[c09_ent (1, 1) 1 1 1; c09_ent (1, 2) 1 1 1]]
  /\ option_map mlist (by_id (c09_md 4) 1) = Some [[c09_ent (1, 1) 1 1 1; c09_ent (1, 2) 1 1 1]]
  /\ option_map mlist (by_id (c09_md 4) 3) = Some [[c09_ent (1, 2) 0 1 1]; [c09_ent (0, 3) 1 2 2]]
  /\ option_map parent (by_id (c09_md 3) 3) = Some (Some 2) /\ option_map parent (by_id (c09_md 4) 3) = Some (Some 1)
  /\ by_id (c09_md 4) 2 = None
  /\ option_map sid (by_timestamp (c09_md 3) 10) = Some 2 /\ by_timestamp (c09_md 3) 9 = None
  /\ option_map sid (by_timestamp (c09_md 3) 11) = Some 3 /\ option_map sid (by_timestamp (c09_md 4) 10) = Some 1
  /\ cur (c09_md 4) = Some 3 /\ option_map cur (delete_snapshot (c09_md 4) 3) = Some (Some 1).
Proof.
  split; [|split].
  - unfold fresh_ops, c09_meta_ops. simpl. repeat split; repeat constructor; simpl; intuition lia.
  - unfold nondecreasing_ts, c09_meta_ops. simpl. repeat constructor; lia.
  - vm_compute. repeat split; reflexivity.
Qed.

(* Non-vacuity (a clock that steps back; retention pruning re-sorts the snapshots list).  retention-count = 2; snapshots
   1, 2, 3 are committed with timestamps 10, 5, 7: the third commit prunes snapshot 2 and leaves the snapshots list as
   [3; 1] -- NOT commit order -- while the snapshot log stays [1; 3].  The hypothesis of C09_by_timestamp_partial fails;
   the lookup at 10 returns snapshot 1 (greatest timestamp), not the most recently committed snapshot 3: exactly what
   C09_by_timestamp_characterised says and C09_by_timestamp_full does not. *)
Definition c09_regress_ops : list op :=
  [SetRetention (PInt 2) 1 1; Txn [TAppend [(0, 1)]] 1 10 2 2; Txn [TAppend [(0, 2)]] 2 5 3 3; Txn [TAppend [(0, 3)]] 3 7 4 4].
Example C09_regress_nonvacuous :
  let m := md (replay 0 0 c09_regress_ops) in
  fresh_ops 0 c09_regress_ops /\ ~ nondecreasing_ts c09_regress_ops /\ ~ nondecreasing_ts regress_ops
  /\ map sid (snaps m) = [3; 1] /\ slog m = [(10, 1); (7, 3)] /\ map sid (hist_of 0 0 c09_regress_ops) = [1; 2; 3]
  /\ option_map sid (by_timestamp m 10) = Some 1 /\ option_map sid (by_timestamp m 8) = Some 3 /\ by_timestamp m 6 = None
  /\ option_map sid (last_opt (filter (fun h => memZ (sid h) (sids m) && (ts h <=? 10)) (hist_of 0 0 c09_regress_ops))) = Some 3.
Proof.
  split; [|split; [|split]].
  - unfold fresh_ops, c09_regress_ops. simpl. repeat split; repeat constructor; simpl; intuition lia.
  - unfold nondecreasing_ts, c09_regress_ops. simpl. intro H. inversion H as [|? ? _ Hall]; subst.
    inversion Hall as [|? ? Hle _]; subst. lia.
  - exact regress_not_nondecreasing.
  - vm_compute. repeat split; reflexivity.
Qed.


(* ------------------------------------------------------------------ collections (Model/GC.v, Model/GCHist.v; C05) *)
(* After ANY sequential history of commits (append / multi-operation / delete_files), expiries, snapshot deletions,
   open transactions, planted orphans, arbitrary file ages and COLLECTIONS with any table location, grace period,
   clock, abandonment timeout and any fault oracle, every retained snapshot is fully present: its manifest list,
   every manifest in it and every data file they name (C05_history, restated for the retained-snapshot half).
   PRESENCE only: that the content is identical is C09_retained_content_step / C09_retained_content_stable below. *)
Require DS.Model.GC DS.Model.GCHist DS.Proofs.GCHistProofs.
Theorem C09_collect_keeps_retained : forall ops : list DS.Model.GCHist.hop,
  let h := DS.Model.GCHist.run_hist ops in
  forall l, In l (DS.Model.GCHist.h_lists h) -> DS.Model.GCHist.snapshot_present (DS.Model.GCHist.h_store h) l.
Proof. exact hist_keeps_retained_present. Qed.
Print Assumptions C09_collect_keeps_retained.

(* ------------------------------------------------------------------ content of a retained snapshot (Model/GCView.v) *)
(* `snap_view st l` is what a reader gets from the snapshot whose manifest list is l: the manifests its list names, the
   data files each of them names, and the body of every such file.  After ANY sequential history, every retained snapshot
   has such a content, and ANY further step -- a commit with any mix of appended, rewritten and dropped manifests (append,
   delete_files, a transaction doing both, with or without an expiry), an expiry, the deletion of any snapshot (oldest,
   intermediate, current), an open transaction, a planted orphan, file ageing, a collection with any location / grace /
   clock / abandonment timeout / fault oracle -- leaves it exactly as it was.  No bound on the length of the history. *)
Require Import DS.Model.GCHist DS.Model.GCView DS.Proofs.GCViewProofs.
Theorem C09_retained_content_step : forall (ops : list hop) (op : hop) (l : String.string),
  In l (h_lists (run_hist ops)) ->
  exists v, snap_view (h_store (run_hist ops)) l = Some v /\ snap_view (h_store (run_hist (ops ++ [op]))) l = Some v.
Proof. exact retained_view_step. Qed.
Print Assumptions C09_retained_content_step.

(* ... and so does any continuation along which the snapshot stays in the metadata ("for as long as it is retained") *)
Theorem C09_retained_content_stable : forall (ops1 ops2 : list hop) (l : String.string),
  In l (h_lists (run_hist ops1)) -> retained_along (run_hist ops1) ops2 l ->
  exists v, snap_view (h_store (run_hist ops1)) l = Some v /\ snap_view (h_store (run_hist (ops1 ++ ops2))) l = Some v.
Proof. exact retained_view_stable. Qed.
Print Assumptions C09_retained_content_stable.

(* ------------------------------------------------------------------ which manifest lists a collection opens
   (Gen/GenGCRoots.v: the loop of GarbageCollector.collect over metadata.snapshots, REGENERATED from the source) *)
(* The lists a collection opens are the (normalised) lists of EVERY retained snapshot that names one.  The parent link and
   the operation label of a snapshot play no part: a snapshot labelled "append" may have dropped manifests of its parent
   (one transaction deleting and appending), and a parent link may skip removed snapshots (delete_snapshot repoints). *)
Require Import DS.Model.SnapRec DS.Gen.GenNorm DS.Gen.GenGCRoots DS.Proofs.GCRootsProofs.
Theorem C09_collect_roots_every_snapshot : forall (tp : String.string) (snaps : list snaprec) (k : String.string),
  In k (gc_list_roots tp snaps) <->
  exists s, In s snaps /\ DS.Model.PyStr.nonempty (sr_manifest_list s) = true /\ k = normalize_path tp (sr_manifest_list s).
Proof. exact roots_every_snapshot. Qed.
Print Assumptions C09_collect_roots_every_snapshot.

Theorem C09_collect_roots_ignore_lineage : forall (tp : String.string) (a b : list snaprec),
  map sr_manifest_list a = map sr_manifest_list b -> forall k, In k (gc_list_roots tp a) <-> In k (gc_list_roots tp b).
Proof. exact roots_only_lists. Qed.
Print Assumptions C09_collect_roots_ignore_lineage.

(* The collector model of C05 (over which C09_collect_keeps_retained and the two content theorems are proved) opens
   exactly the regenerated roots, under every fault oracle (unless it stopped at the marker listing, before the metadata). *)
Theorem C09_collect_opens_roots : forall (tp : String.string) (grace now timeout : Z) (o : DS.Model.GC.oracle) (snaps : list snaprec) (st : DS.Model.GC.store),
  let r := DS.Model.GC.gc_run tp grace now timeout o (map sr_manifest_list snaps) st in
  DS.Model.GC.r_out r <> DS.Model.GC.Aborted DS.Model.GC.PhMarkers ->
  forall k, In k (DS.Model.GC.r_reach_lists r) <-> In k (gc_list_roots tp snaps).
Proof. exact collect_opens_roots. Qed.
Print Assumptions C09_collect_opens_roots.

(* Non-vacuity: append a; append b; ONE commit that drops a's manifest and appends c (a transaction deleting a and appending
   c: recorded as an append); a pure delete of b; append d; deletion of the intermediate delete snapshot 4; a grace-0
   collection.  Snapshots 1, 2, 3, 5 are retained; snapshot 1 still reads data/a through m1 although neither of its
   successors lists m1; only the removed snapshot's list is gone. *)
From Coq Require Import String.
Open Scope string_scope.
Definition c09_ops : list hop := [
  HCommit 1 [("a", 1000)] [("m1", ["/data/a"], 1000)] [] "l1" 1000 None;
  HCommit 2 [("b", 1000)] [("m2", ["data/b"], 1000)] ["metadata/manifests/m1"] "l2" 1000 None;
  HCommit 3 [("c", 1000)] [("m3", ["data/c"], 1000)] ["metadata/manifests/m2"] "l3" 1000 None;
  HCommit 4 [] [] ["metadata/manifests/m3"] "l4" 1000 None;
  HCommit 5 [("d", 1000)] [("m5", ["data/d"], 1000)] ["metadata/manifests/m3"] "l5" 1000 None;
  HDeleteSnapshot 4;
  HCollect "tbl" 0 1000000 86400000 DS.Model.GC.no_faults ].
Example C09_content_nonvacuous :
  map fst (h_snaps (run_hist c09_ops)) = [1; 2; 3; 5]
  /\ snap_files (h_store (run_hist (firstn 1 c09_ops))) "metadata/manifests/l1" = Some [("metadata/manifests/m1", ["data/a"])]
  /\ snap_files (h_store (run_hist c09_ops)) "metadata/manifests/l1" = Some [("metadata/manifests/m1", ["data/a"])]
  /\ snap_files (h_store (run_hist c09_ops)) "metadata/manifests/l3" = Some [("metadata/manifests/m2", ["data/b"]); ("metadata/manifests/m3", ["data/c"])]
  /\ snap_files (h_store (run_hist c09_ops)) "metadata/manifests/l5" = Some [("metadata/manifests/m3", ["data/c"]); ("metadata/manifests/m5", ["data/d"])]
  /\ has_key "metadata/manifests/l4" (h_store (run_hist c09_ops)) = false
  /\ has_key "metadata/manifests/l4" (h_store (run_hist (firstn 6 c09_ops))) = true
  /\ retained_along (run_hist (firstn 1 c09_ops)) (skipn 1 c09_ops) "metadata/manifests/l1".
Proof. vm_compute. repeat split; auto 10. Qed.

(* ... and the regenerated roots contain the list of a snapshot that is the parent of an "append" *)
Example C09_roots_nonvacuous :
  gc_list_roots "tbl" [mkSnap 1 None "append" "/metadata/manifests/l1"; mkSnap 3 (Some 1) "append" "metadata/manifests/l3";
                       mkSnap 5 (Some 3) "append" ""; mkSnap 6 (Some 5) "delete" "metadata/manifests/l3"]
  = ["metadata/manifests/l1"; "metadata/manifests/l3"].
Proof. vm_compute. reflexivity. Qed.

(* The lookups and the snapshot deletion the three theorems above are about are the functions of the SOURCE:
   Model/Meta.v's by_timestamp, delete_snapshot and most_recent (the "most recently committed survivor" rule) are equal,
   for all inputs, to the definitions regenerated on every run from SnapshotManager.get_snapshot_by_timestamp,
   delete_snapshot and _most_recent_snapshot_id (Gen/GenMeta.v, Proofs/MetaGenProofs.v). *)
Require Import DS.Model.MetaPy DS.Gen.GenMeta DS.Proofs.MetaGenProofs.
Theorem C09_lookups_regenerated :
  (forall m t, gen_by_timestamp (snaps m) t = by_timestamp m t)
  /\ (forall m id, gen_delete_snapshot m id = PyOk (delete_snapshot m id))
  /\ (forall m, gen_most_recent m = PyOk (most_recent m)).
Proof. exact lookups_regenerated. Qed.
Print Assumptions C09_lookups_regenerated.
