(* Props/C09.v -- Retained snapshots are immutable and time travel is stable.
   Statements only; proofs are in Proofs/C09Proofs.v (file plane, Model/Fault.v) and Proofs/MetaProofs.v
   (metadata plane, Model/Meta.v; the three lookup theorems are stated in Props/C15.v and re-stated here).

   (a) file plane: once a metadata version is committed, ANY continuation -- protocol steps of any number of
       transactions (appends, deletes which write fresh manifests and a fresh list), failed / interrupted /
       crashed commits, rollbacks -- leaves the set of files that version references unchanged and every one of
       them present: files are write-once and nothing a later transaction does removes a committed version's file.
   (b) metadata plane: a retained snapshot is, after any history of committed operations, the snapshot that was
       committed (same timestamp, sequence number and manifest-list content; only the parent link may be
       repointed); lookup by id returns it; lookup by timestamp returns the most recently committed retained
       snapshot not newer than the requested time; deleting the current snapshot repoints to the most recently
       committed survivor.
   (c) collections: see C09_collect_keeps_retained below (proved over the collector model of C05). *)
From Coq Require Import ZArith List Bool Arith.
Require Import DS.Model.Commit DS.Model.Fault DS.Proofs.CommitProofs DS.Proofs.FaultProofs DS.Proofs.C09Proofs.
Import ListNotations.

Theorem C09_immutable : forall c m0 kind mr r0 next evs1 evs2,
  sound c -> (forall f, In f r0 -> (f < next)%nat) ->
  let x := frun c (finit m0 kind mr r0 next) evs1 in
  let y := frun c (finit m0 kind mr r0 next) (evs1 ++ evs2) in
  forall v, In v (committed (fw x)) ->
    refs y v = refs x v /\ (forall f, In f (refs x v) -> In f (f_present y)) /\ In v (committed (fw y)).
Proof. exact immutable_from_init. Qed.
Print Assumptions C09_immutable.

(* Non-vacuity: version 1 is committed by actor 0, then actor 1 commits on top of it (writing fresh files):
   version 1's file set is unchanged and present; both versions are committed. *)
Definition ev a k := {| e_actor := a; e_kind := k |}.
Definition ex_init := finit {| m_ops := []; m_cur := 1; m_lu := 100 |} (fun _ => KFresh) (fun _ => 50%nat) [0; 1]%nat 2%nat.
Definition ex_cfg := {| cas := false; lockkind := Excl |}.
Definition ex_evs1 := [FWrite 0; FProto (ev 0 (EBegin 0)); FWrite 0; FProto (ev 0 (ELockTry true)); FProto (ev 0 (EValidate 0 true));
       FProto (ev 0 (EMetaW 100)); FProto (ev 0 (EFence true)); FProto (ev 0 (EFlip true)); FProto (ev 0 ERelease)]%nat.
Definition ex_evs2 := [FProto (ev 1 (EBegin 1)); FWrite 1; FProto (ev 1 (ELockTry true)); FProto (ev 1 (EValidate 1 true));
       FProto (ev 1 (EMetaW 101)); FProto (ev 1 (EFence true)); FProto (ev 1 (EFlip true)); FProto (ev 1 ERelease)]%nat.
Example C09_nonvacuous :
  let x := frun ex_cfg ex_init ex_evs1 in
  let y := frun ex_cfg ex_init (ex_evs1 ++ ex_evs2) in
  committed (fw x) = committed (fw x) /\ In 1%nat (committed (fw x)) /\ refs x 1%nat = refs y 1%nat
  /\ refs x 1%nat = [0; 1; 3; 2]%nat /\ length (committed (fw y)) = S (length (committed (fw x))) /\ all_present y = true.
Proof. vm_compute. repeat split; auto. Qed.

(* ------------------------------------------------------------------ metadata plane (Model/Meta.v) *)
Require Import DS.Model.MetaBase DS.Model.Meta DS.Model.MetaSpec DS.Proofs.MetaProofs.
Open Scope Z_scope.

Theorem C09_by_timestamp : forall (t0 f0 : Z) (ops : list op) (t : Z),
  fresh_ops f0 ops -> nondecreasing_ts ops ->
  option_map sid (by_timestamp (md (replay t0 f0 ops)) t) =
  option_map sid (last_opt (filter (fun h => memZ (sid h) (sids (md (replay t0 f0 ops))) && (ts h <=? t))
                                   (hist_of t0 f0 ops))).
Proof. exact by_timestamp_most_recent. Qed.
Print Assumptions C09_by_timestamp.

Theorem C09_delete_current : forall (t0 f0 : Z) (ops : list op) (id : Z),
  fresh_ops f0 ops ->
  cur (md (replay t0 f0 ops)) = Some id -> In id (sids (md (replay t0 f0 ops))) ->
  exists m', delete_snapshot (md (replay t0 f0 ops)) id = Some m' /\
    cur m' = option_map sid (last_opt (filter (fun h => memZ (sid h) (sids (md (replay t0 f0 ops))) && negb (sid h =? id))
                                              (hist_of t0 f0 ops))).
Proof. exact delete_current_most_recent. Qed.
Print Assumptions C09_delete_current.

Theorem C09_by_id : forall (t0 f0 : Z) (ops : list op) (id : Z) (s : snap),
  fresh_ops f0 ops -> by_id (md (replay t0 f0 ops)) id = Some s ->
  In s (snaps (md (replay t0 f0 ops))) /\ sid s = id /\ exists h, In h (hist_of t0 f0 ops) /\ same_but_parent h s.
Proof. exact by_id_retained. Qed.
Print Assumptions C09_by_id.


(* ------------------------------------------------------------------ collections (Model/GC.v, Model/GCHist.v; C05) *)
(* After ANY sequential history of commits (append / multi-operation / delete_files), expiries, snapshot deletions,
   open transactions, planted orphans, arbitrary file ages and COLLECTIONS with any table location, grace period,
   clock, abandonment timeout and any fault oracle, every retained snapshot is fully present: its manifest list,
   every manifest in it and every data file they name (C05_history, restated for the retained-snapshot half). *)
Require DS.Model.GC DS.Model.GCHist DS.Proofs.GCHistProofs.
Theorem C09_collect_keeps_retained : forall ops : list DS.Model.GCHist.hop,
  let h := DS.Model.GCHist.run_hist ops in
  forall l, In l (DS.Model.GCHist.h_lists h) -> DS.Model.GCHist.snapshot_present (DS.Model.GCHist.h_store h) l.
Proof. intros ops h. exact (proj2 (DS.Proofs.GCHistProofs.history_invariant ops)). Qed.
Print Assumptions C09_collect_keeps_retained.

(* ------------------------------------------------------------------ content of a retained snapshot (Model/GCView.v) *)
(* `snap_view st l` is what a reader gets from the snapshot whose manifest list is l: the manifests its list names, the
   data files each of them names, and the body of every such file.  After ANY sequential history, every retained snapshot
   has such a content, and ANY further step -- a commit with any mix of appended, rewritten and dropped manifests (append,
   delete_files, a transaction doing both, with or without an expiry), an expiry, the deletion of any snapshot (oldest,
   intermediate, current), an open transaction, a planted orphan, file ageing, a collection with any location / grace /
   clock / abandonment timeout / fault oracle -- leaves it exactly as it was.  No bound on the length of the history. *)
Require Import DS.Model.GCHist DS.Model.GCView DS.Proofs.GCViewProofs.
Theorem C09_retained_content_step : forall (ops : list hop) (op : hop) (l : String.string),
  In l (h_lists (run_hist ops)) ->
  exists v, snap_view (h_store (run_hist ops)) l = Some v /\ snap_view (h_store (run_hist (ops ++ [op]))) l = Some v.
Proof. exact retained_view_step. Qed.
Print Assumptions C09_retained_content_step.

(* ... and so does any continuation along which the snapshot stays in the metadata ("for as long as it is retained") *)
Theorem C09_retained_content_stable : forall (ops1 ops2 : list hop) (l : String.string),
  In l (h_lists (run_hist ops1)) -> retained_along (run_hist ops1) ops2 l ->
  exists v, snap_view (h_store (run_hist ops1)) l = Some v /\ snap_view (h_store (run_hist (ops1 ++ ops2))) l = Some v.
Proof. exact retained_view_stable. Qed.
Print Assumptions C09_retained_content_stable.

(* ------------------------------------------------------------------ which manifest lists a collection opens
   (Gen/GenGCRoots.v: the loop of GarbageCollector.collect over metadata.snapshots, REGENERATED from the source) *)
(* The lists a collection opens are the (normalised) lists of EVERY retained snapshot that names one.  The parent link and
   the operation label of a snapshot play no part: a snapshot labelled "append" may have dropped manifests of its parent
   (one transaction deleting and appending), and a parent link may skip removed snapshots (delete_snapshot repoints). *)
Require Import DS.Model.SnapRec DS.Gen.GenNorm DS.Gen.GenGCRoots DS.Proofs.GCRootsProofs.
Theorem C09_collect_roots_every_snapshot : forall (tp : String.string) (snaps : list snaprec) (k : String.string),
  In k (gc_list_roots tp snaps) <->
  exists s, In s snaps /\ DS.Model.PyStr.nonempty (sr_manifest_list s) = true /\ k = normalize_path tp (sr_manifest_list s).
Proof. exact roots_every_snapshot. Qed.
Print Assumptions C09_collect_roots_every_snapshot.

Theorem C09_collect_roots_ignore_lineage : forall (tp : String.string) (a b : list snaprec),
  map sr_manifest_list a = map sr_manifest_list b -> forall k, In k (gc_list_roots tp a) <-> In k (gc_list_roots tp b).
Proof. exact roots_only_lists. Qed.
Print Assumptions C09_collect_roots_ignore_lineage.

(* The collector model of C05 (over which C09_collect_keeps_retained and the two content theorems are proved) opens
   exactly the regenerated roots, under every fault oracle (unless it stopped at the marker listing, before the metadata). *)
Theorem C09_collect_opens_roots : forall (tp : String.string) (grace now timeout : Z) (o : DS.Model.GC.oracle) (snaps : list snaprec) (st : DS.Model.GC.store),
  let r := DS.Model.GC.gc_run tp grace now timeout o (map sr_manifest_list snaps) st in
  DS.Model.GC.r_out r <> DS.Model.GC.Aborted DS.Model.GC.PhMarkers ->
  forall k, In k (DS.Model.GC.r_reach_lists r) <-> In k (gc_list_roots tp snaps).
Proof. exact collect_opens_roots. Qed.
Print Assumptions C09_collect_opens_roots.

(* Non-vacuity: append a; append b; ONE commit that drops a's manifest and appends c (a transaction deleting a and appending
   c: recorded as an append); a pure delete of b; append d; deletion of the intermediate delete snapshot 4; a grace-0
   collection.  Snapshots 1, 2, 3, 5 are retained; snapshot 1 still reads data/a through m1 although neither of its
   successors lists m1; only the removed snapshot's list is gone. *)
From Coq Require Import String.
Open Scope string_scope.
Definition c09_ops : list hop := [
  HCommit 1 [("a", 1000)] [("m1", ["/data/a"], 1000)] [] "l1" 1000 None;
  HCommit 2 [("b", 1000)] [("m2", ["data/b"], 1000)] ["metadata/manifests/m1"] "l2" 1000 None;
  HCommit 3 [("c", 1000)] [("m3", ["data/c"], 1000)] ["metadata/manifests/m2"] "l3" 1000 None;
  HCommit 4 [] [] ["metadata/manifests/m3"] "l4" 1000 None;
  HCommit 5 [("d", 1000)] [("m5", ["data/d"], 1000)] ["metadata/manifests/m3"] "l5" 1000 None;
  HDeleteSnapshot 4;
  HCollect "tbl" 0 1000000 86400000 DS.Model.GC.no_faults ].
Example C09_content_nonvacuous :
  map fst (h_snaps (run_hist c09_ops)) = [1; 2; 3; 5]
  /\ snap_files (h_store (run_hist (firstn 1 c09_ops))) "metadata/manifests/l1" = Some [("metadata/manifests/m1", ["data/a"])]
  /\ snap_files (h_store (run_hist c09_ops)) "metadata/manifests/l1" = Some [("metadata/manifests/m1", ["data/a"])]
  /\ snap_files (h_store (run_hist c09_ops)) "metadata/manifests/l3" = Some [("metadata/manifests/m2", ["data/b"]); ("metadata/manifests/m3", ["data/c"])]
  /\ snap_files (h_store (run_hist c09_ops)) "metadata/manifests/l5" = Some [("metadata/manifests/m3", ["data/c"]); ("metadata/manifests/m5", ["data/d"])]
  /\ has_key "metadata/manifests/l4" (h_store (run_hist c09_ops)) = false
  /\ has_key "metadata/manifests/l4" (h_store (run_hist (firstn 6 c09_ops))) = true
  /\ retained_along (run_hist (firstn 1 c09_ops)) (skipn 1 c09_ops) "metadata/manifests/l1".
Proof. vm_compute. repeat split; auto 10. Qed.

(* ... and the regenerated roots contain the list of a snapshot that is the parent of an "append" *)
Example C09_roots_nonvacuous :
  gc_list_roots "tbl" [mkSnap 1 None "append" "/metadata/manifests/l1"; mkSnap 3 (Some 1) "append" "metadata/manifests/l3";
                       mkSnap 5 (Some 3) "append" ""; mkSnap 6 (Some 5) "delete" "metadata/manifests/l3"]
  = ["metadata/manifests/l1"; "metadata/manifests/l3"].
Proof. vm_compute. reflexivity. Qed.

(* The lookups and the snapshot deletion the three theorems above are about are the functions of the SOURCE:
   Model/Meta.v's by_timestamp, delete_snapshot and most_recent (the "most recently committed survivor" rule) are equal,
   for all inputs, to the definitions regenerated on every run from SnapshotManager.get_snapshot_by_timestamp,
   delete_snapshot and _most_recent_snapshot_id (Gen/GenMeta.v, Proofs/MetaGenProofs.v). *)
Require Import DS.Model.MetaPy DS.Gen.GenMeta DS.Proofs.MetaGenProofs.
Theorem C09_lookups_regenerated :
  (forall m t, gen_by_timestamp (snaps m) t = by_timestamp m t)
  /\ (forall m id, gen_delete_snapshot m id = PyOk (delete_snapshot m id))
  /\ (forall m, gen_most_recent m = PyOk (most_recent m)).
Proof. split; [exact gen_by_timestamp_agrees|]. split; [exact gen_delete_snapshot_agrees | exact gen_most_recent_agrees]. Qed.
Print Assumptions C09_lookups_regenerated.
