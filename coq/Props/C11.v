(* Props/C11.v -- Accepted appends are exact; rejected ones leave no trace; scans keep working.
   Only theorem statements, each closed by `exact <lemma>`, with Print Assumptions beneath.

   Model: Model/Schema.v (hand-written, tied to the code by the correspondence harness) over
   Gen/GenSchema.v (REGENERATED from the source on every run: the signature's container kind and tuple
   shape, the primitive types, type_mapping, the no-bounds types).

   Quantification: every table schema (columns of primitive types and list<...> types of any depth; integer
   field ids -- Schema.__post_init__ refuses every other id, pinned by the translator), every schema argument,
   every history of append attempts of any length through any handles (each with its Arrow-schema cache keyed
   by schema_id), every record batch (any keys -- strs or other objects --, any values incl. lists), every
   commit outcome, every behaviour `conv` of pyarrow's conversion; for explicit transactions every pre-built
   file with every caller-supplied lower / upper bounds.

   Handle provenance (Model/SchemaOpen.v over Gen/GenOpen.v, the actions of create_table / load_table /
   Table.__init__ REGENERATED from the source): every way of obtaining each handle, with every schema argument,
   re-bound or alive side by side, interleaved with the appends in any order.

   C11_exact_partial / C11_tx_exact_partial / C11_handles_exact_partial are PARTIAL: they assume conv_sound
   (pyarrow stores a value the library lets through as `canon`, or raises) -- a statement about pyarrow, validated by
   the harness on every run.  The filter theorems assume conv_kinds (a converted cell has the kind of its Arrow
   type), C11_tx_history_filter also pf_typed of every pre-built file (a parquet column holds values of its
   footer type) -- statements about pyarrow / parquet, spelled out as hypotheses.
   C11_tx_fault_fails_closed is DERIVED from flags regenerated from the source (Gen/GenSchema.v:
   resolve_refresh_propagates, marker_failure_propagates, queue_failure_propagates, files_exists_failure_propagates
   and, for the GC-protection step of a pre-built-file call, adopt_marker_failure_propagates,
   adopt_listing_failure_propagates, adopt_refused_while_collecting, adopt_recheck_failure_propagates,
   adopt_cleanup_on_failure): its proof computes with their current values. *)
From Coq Require Import ZArith QArith List Bool Lia.
Require Import DS.Model.Value DS.Gen.GenPrune DS.Model.Prune DS.Gen.GenSchema DS.Model.Schema DS.Model.SchemaTx.
Require Import DS.Model.OpenBase DS.Gen.GenOpen DS.Model.SchemaOpen.
Require Import DS.Proofs.PruneProofs DS.Proofs.SchemaProofs DS.Proofs.SchemaTxProofs DS.Proofs.SchemaOpenProofs.
Import ListNotations.
Open Scope Z_scope.

(* An accepted schema argument produces parquet files with exactly the table's Arrow schema
   (names, ORDER, types, nullability) -- what pa.concat_tables demands. *)
Theorem C11_accept_scans : forall t a : list field,
  accept_schema t a = true -> arrow_of a = arrow_of t.
Proof. exact accept_arrow. Qed.
Print Assumptions C11_accept_scans.

(* Hence after ANY history of append attempts -- accepted or rejected, any schema arguments and
   schema ids, fresh or reused handles with their caches, failed commits -- every file of the current
   snapshot has the same Arrow schema and the full scan does not raise. *)
Theorem C11_history_scans : forall (conv : catype -> pyval -> option pyval) (ts : ischema) (es : list event),
  scan_ok (current (run conv (init (Some ts)) es)) = true
  /\ full_scan (run conv (init (Some ts)) es) <> None.
Proof. exact history_scans. Qed.
Print Assumptions C11_history_scans.

(* An accepted argument maps every column to the field id the table schema maps it to, so the bounds
   it stores are found by pruning under the right column; and it validates records identically. *)
Theorem C11_accept_bounds : forall t a : list field,
  accept_schema t a = true ->
  (forall col, fid_in a col = fid_in t col)
  /\ (forall ar rows, bounds_for a ar rows = bounds_for t ar rows)
  /\ (forall r, validate_record a r = validate_record t r).
Proof. exact accept_bounds. Qed.
Print Assumptions C11_accept_bounds.

(* Filtered scans after any history: pruning by the stored bounds (looked up through the TABLE
   schema's name -> id map) never changes the answer -- composition with C13 (prune_sound). *)
Theorem C11_history_filter : forall (conv : catype -> pyval -> option pyval) (X : value -> value -> bool) (ts : ischema) (es : list event) (fs : list fexpr),
  NoDup (map fname (sfields ts)) -> NoDup (map fid (sfields ts)) -> conv_kinds conv ->
  let w := run conv (init (Some ts)) es in
  filtered_scan X fs w = Some (filter (row_selected X fs) (map vrow (flat_map df_rows (current w)))).
Proof. exact history_filter. Qed.
Print Assumptions C11_history_filter.

(* Every bound an accepted append stores is EXACTLY the minimum / maximum of the stored column (NULLs and
   NaNs apart), filed under the field id the table schema gives the column -- not a shortened, rounded or
   otherwise altered value; a column without ordinary values stores no bound. *)
Theorem C11_history_bounds_exact : forall (conv : catype -> pyval -> option pyval) (ts : ischema) (es : list event) (f : dfile) (g : field),
  NoDup (map fname (sfields ts)) -> NoDup (map fid (sfields ts)) ->
  In f (current (run conv (init (Some ts)) es)) -> In g (sfields ts) -> bounds_skipped_c (ftype g) = false ->
  match bounds_of (column (map vrow (df_rows f)) (fname g)) with
  | Some (mn, mx) => lookup (fid g) (df_lo f) = Some mn /\ lookup (fid g) (df_hi f) = Some mx
  | None => lookup (fid g) (df_lo f) = None /\ lookup (fid g) (df_hi f) = None
  end.
Proof. exact history_bounds_exact. Qed.
Print Assumptions C11_history_bounds_exact.

(* Hence the stored bounds enclose every ordinary value of their column in their file. *)
Theorem C11_history_bounds_true : forall (conv : catype -> pyval -> option pyval) (ts : ischema) (es : list event) (f : dfile) (g : field) (lo hi : value),
  NoDup (map fname (sfields ts)) -> NoDup (map fid (sfields ts)) -> conv_kinds conv ->
  In f (current (run conv (init (Some ts)) es)) -> In g (sfields ts) ->
  lookup (fid g) (df_lo f) = Some lo -> lookup (fid g) (df_hi f) = Some hi -> bounds_skipped_c (ftype g) = false ->
  forall r, In r (df_rows f) -> ordinary (cell (vrow r) (fname g)) = true ->
  vle lo (cell (vrow r) (fname g)) /\ vle (cell (vrow r) (fname g)) hi.
Proof. exact history_bounds_true. Qed.
Print Assumptions C11_history_bounds_true.

(* What an append does depends on the schema ARGUMENT only through what it declares -- its schema_id and its
   fields.  Two argument objects that agree on those but differ in any derived attribute (a schema_string that is
   stale after dataclasses.replace, an in-place edit of .fields, an explicit schema_string=) are treated
   identically: same outcome, same world.  In particular a stale attribute cannot get a divergent schema accepted
   (the second step of the Example below carries a stale sstring and is rejected). *)
Theorem C11_arg_object_irrelevant : forall (conv : catype -> pyval -> option pyval) (w : world) (e e' : event),
  e_handle e = e_handle e' -> e_recs e = e_recs e' -> e_commit_ok e = e_commit_ok e' ->
  same_decl (e_arg e) (e_arg e') ->
  step conv w e = step conv w e'.
Proof. exact step_same_decl. Qed.
Print Assumptions C11_arg_object_irrelevant.

(* A rejected append (no schema, divergent schema, invalid records, conversion error, failed commit)
   leaves the schema, the snapshot list with every snapshot's reachable data files, the data files
   present on storage, and the results of all scans unchanged.  Any table, with or without schema. *)
Theorem C11_reject_no_trace : forall (conv : catype -> pyval -> option pyval) (s0 : option ischema) (es : list event) (e : event),
  let w := run conv (init s0) es in
  snd (step conv w e) <> Accepted ->
  let w' := fst (step conv w e) in
  w_schema w' = w_schema w /\ w_snaps w' = w_snaps w /\ w_store w' = w_store w
  /\ full_scan w' = full_scan w
  /\ (forall X fs, filtered_scan X fs w' = filtered_scan X fs w).
Proof. exact reject_no_trace. Qed.
Print Assumptions C11_reject_no_trace.

(* Under conv_sound: after any history the full scan returns exactly `canon_c` of every accepted
   record (all columns, table order, append order), and every accepted record has only str keys that
   name fields, non-None required fields and representable values (lists: element by element). *)
Theorem C11_exact_partial : forall (rnd32 : Q -> num) (conv : catype -> pyval -> option pyval),
  conv_sound rnd32 conv ->
  forall (ts : ischema) (es : list event),
  full_scan (run conv (init (Some ts)) es) = Some (expected rnd32 conv ts (init (Some ts)) es)
  /\ (forall es1 e es2, es = es1 ++ e :: es2 ->
        snd (step conv (run conv (init (Some ts)) es1) e) = Accepted ->
        forall r, In r (e_recs e) -> record_ok ts r).
Proof. exact exact_history. Qed.
Print Assumptions C11_exact_partial.

(* The library's admission test only lets through values the declared type can represent -- for list<...>
   columns of any depth: None, or a list each of whose elements the element type can represent. *)
Theorem C11_fits_representable : forall (c : ctype) (v : pyval), value_fits_c c v = true -> representable_c c v.
Proof. exact fits_representable_c. Qed.
Print Assumptions C11_fits_representable.

(* ================= explicit transactions (Model/SchemaTx.v): begin / calls, some of which raise and are
   caught by the caller / commit, rollback or nothing ================= *)

(* A call that raises (tag <> 0) -- append_data refused for any reason, append_files refused at ANY of its
   files or in its GC-protection step (marker write, announced collection run, existence re-check) -- adds NOTHING
   to the transaction's queue, and no call touches the schema or the snapshot list.  m: the files the transaction
   holds in-flight markers for when the call starts (any). *)
Theorem C11_tx_rejected_call_no_trace : forall (conv : catype -> pyval -> option pyval) (w : world) (m : list Z) (h : Z) (c : call)
    (w' : world) (wr : list Z) (t : Z) (added : list dfile),
  call_step conv w m h c = (w', wr, t, added) ->
  w_schema w' = w_schema w /\ w_snaps w' = w_snaps w /\ (t <> 0 -> added = []).
Proof. exact call_rejected. Qed.
Print Assumptions C11_tx_rejected_call_no_trace.

(* Storage faults during a call fail CLOSED.  While the table metadata cannot be read, append_data and
   append_files raise at once and change nothing -- an unreadable schema is never taken for "no persisted schema,
   nothing to enforce"; under any window an append_data call can meet (metadata unreadable from the start, marker
   writes failing, metadata unreadable / existence checks failing once the call has written its data file) it
   never succeeds and queues nothing, whatever its schema argument; the other windows (they belong to the adoption
   of pre-built files) leave it as it is without them.
   The GC-protection step of append_files: a call with at least one pre-built file the transaction holds no marker
   for yet (unprotected m fs <> []) that meets failing marker writes, a failing listing of the announced collection
   runs, an announced run, or a failing existence re-check NEVER succeeds: it raises, queues nothing, writes no data
   file, leaves schema, snapshot list and stored files as they were -- and leaves none of the markers it wrote.
   A window that is none of these, or a call with nothing left to protect, behaves as without the window.
   Derived, not defined: Model/SchemaTx.v call_step decides what a failing refresh() / marker write / queueing /
   listing / re-check leads to by the flags Gen/GenSchema.v regenerates from the source on every run (is the failing
   operation outside every `try`, or only inside `try` blocks whose handlers re-raise?); with a handler around
   refresh() the model takes the "no persisted schema" path, with a handler that swallows a failure of the protection
   step the model queues the unprotected file, and this proof (by computation on the flags) breaks. *)
Theorem C11_tx_fault_fails_closed : forall (conv : catype -> pyval -> option pyval) (w : world) (m : list Z) (h : Z),
  (forall arg recs, call_step conv w m h (CRecordsF FBefore arg recs) = (w, [], tag_storage_fault, []))
  /\ (forall fs, call_step conv w m h (CFilesF FBefore fs) = (w, [], tag_storage_fault, []))
  /\ (forall ft arg recs w' wr t added, hits_records ft = true ->
        call_step conv w m h (CRecordsF ft arg recs) = (w', wr, t, added) -> t <> 0 /\ added = [])
  /\ (forall ft arg recs, hits_records ft = false -> call_step conv w m h (CRecordsF ft arg recs) = call_step conv w m h (CRecords arg recs))
  /\ (forall ft fs w' wr t added, hits_protection ft = true -> unprotected m fs <> [] ->
        call_step conv w m h (CFilesF ft fs) = (w', wr, t, added) ->
        t <> 0 /\ added = [] /\ wr = [] /\ w_schema w' = w_schema w /\ w_snaps w' = w_snaps w /\ w_store w' = w_store w
        /\ call_marks w m h (CFilesF ft fs) = [])
  /\ (forall ft fs, hits_protection ft = false -> ft <> FBefore -> call_step conv w m h (CFilesF ft fs) = call_step conv w m h (CFiles fs))
  /\ (forall ft fs, unprotected m fs = [] -> ft <> FBefore -> call_step conv w m h (CFilesF ft fs) = call_step conv w m h (CFiles fs)).
Proof. exact fault_fails_closed. Qed.
Print Assumptions C11_tx_fault_fails_closed.

(* A successful commit of ANY transaction (any calls, any of them rejected, any world): for THE trace tr of its
   calls -- run_calls: per call, in order, the tag call_step gave it and the files call_step let it queue -- it
   publishes exactly one snapshot holding the base files followed by the files of tr, in call order; when tr holds
   no file it publishes nothing.  `honest tr`: a call that raised (non-zero tag) is in tr with no files. *)
Theorem C11_tx_publishes_accepted_only : forall (conv : catype -> pyval -> option pyval) (w : world) (t : txn)
    (w' : world) (q : txstate) (tr : list (Z * list dfile)),
  run_calls conv w tx_empty (t_handle t) (t_calls t) = (w', q, tr) ->
  t_end t = EndCommit true ->
  honest tr /\ length tr = length (t_calls t) /\ q_files q = flat_map snd tr
  /\ w_schema (run_tx conv w t) = w_schema w
  /\ w_snaps (run_tx conv w t) = match flat_map snd tr with
                                 | [] => w_snaps w
                                 | fs => (current w ++ fs) :: w_snaps w
                                 end.
Proof. exact tx_commit_publishes. Qed.
Print Assumptions C11_tx_publishes_accepted_only.

(* A transaction that ends in a failed commit, a rollback, or is abandoned leaves schema, snapshot list
   (with every snapshot's files) and the full scan unchanged. *)
Theorem C11_tx_unpublished_no_trace : forall (conv : catype -> pyval -> option pyval) (w : world) (t : txn),
  t_end t <> EndCommit true ->
  w_schema (run_tx conv w t) = w_schema w /\ w_snaps (run_tx conv w t) = w_snaps w
  /\ full_scan (run_tx conv w t) = full_scan w.
Proof. exact tx_not_committed. Qed.
Print Assumptions C11_tx_unpublished_no_trace.

(* After any history of transactions (records and pre-built files, any handles) every file of the current
   snapshot carries the table's Arrow schema: full scans do not raise. *)
Theorem C11_tx_history_scans : forall (conv : catype -> pyval -> option pyval) (ts : ischema) (txs : list txn),
  scan_ok (current (run_txs conv (init (Some ts)) txs)) = true
  /\ full_scan (run_txs conv (init (Some ts)) txs) <> None.
Proof. exact tx_history_scans. Qed.
Print Assumptions C11_tx_history_scans.

(* After any history of transactions -- records and pre-built files, WHATEVER lower / upper bounds the caller
   supplied with them -- pruning by the stored bounds never changes a filtered scan: it returns exactly the
   selected rows of the current snapshot.  (The bounds stored for a pre-built file are none, or recomputed from
   its content: Model/SchemaTx.v verified_bounds.)  pf_typed: every cell of a pre-built file's column has the
   kind of the column's footer type.  NoDup (adopted_ids txs): no pre-built file is handed to append_files twice in the
   history -- the code lists a path once (seen_paths) while this model scans a file adopted twice twice: for such histories
   the model does not speak for the code, and they are excluded here, in the statement.
   The bounds are the caller's "WHATEVER" only because nothing a caller can pass makes append_files skip the verification:
   the flag _statistics_computed_here is honoured for a module-private token alone (pinned by translator/gen_schema.py; the
   harness passes _statistics_computed_here=True with bounds of other content). *)
Theorem C11_tx_history_filter : forall (conv : catype -> pyval -> option pyval) (X : value -> value -> bool) (ts : ischema)
    (txs : list txn) (fs : list fexpr),
  conv_kinds conv -> NoDup (map fname (sfields ts)) -> NoDup (map fid (sfields ts)) ->
  Forall (txn_Q pf_typed) txs -> NoDup (adopted_ids txs) ->
  let w := run_txs conv (init (Some ts)) txs in
  filtered_scan X fs w = Some (filter (row_selected X fs) (map vrow (flat_map df_rows (current w)))).
Proof. exact tx_filter_history_once. Qed.
Print Assumptions C11_tx_history_filter.

(* Under conv_sound: after any history of transactions the full scan returns exactly, in order, what the calls
   of the committed transactions supplied: `canon_c` of every record of an accepted append_data call, the rows of
   every file of an accepted append_files call, nothing for a call that raised or a transaction that did not
   commit (txs_expected).  NoDup (adopted_ids txs): as for C11_tx_history_filter -- histories that adopt the same pre-built
   file twice are outside what this model says about the code. *)
Theorem C11_tx_exact_partial : forall (rnd32 : Q -> num) (conv : catype -> pyval -> option pyval),
  conv_sound rnd32 conv ->
  forall (ts : ischema) (txs : list txn), NoDup (adopted_ids txs) ->
  full_scan (run_txs conv (init (Some ts)) txs) = Some (txs_expected conv ts rnd32 (init (Some ts)) txs).
Proof. exact tx_exact_once. Qed.
Print Assumptions C11_tx_exact_partial.

(* The OTHER caller-supplied fields of a pre-built DataFile that a manifest stores (Model/SchemaTx.v pclaims: the keys of the
   column_sizes / value_counts / null_value_counts maps, the checksum, the record_count).  An append_files call that is
   ACCEPTED -- in any world, for any files with ANY such claims -- stores for every one of its files an entry every read can
   decode (every statistics key reads back as an int: the stored maps are recomputed under the table's field ids), a checksum
   that is the file's own or none (a file whose supplied checksum is not its own is refused: the call is not accepted), and
   the file's number of rows as its record count.  Scope, honestly: this is a statement about WHAT IS STORED per file
   (stored_claims, tied to the code by the translator's pins on _with_verified_bounds and by the `transactions` /
   `stored_claims` correspondences); full_scan of Model/Schema.v models the layout cause of a failing scan only, so "an
   undecodable entry / a failing checksum makes the scan raise" is the code's behaviour (reproduced by the harness), not a
   derivation in the model. *)
Theorem C11_tx_accepted_claims_sound : forall (conv : catype -> pyval -> option pyval) (w : world) (m : list Z) (h : Z) (fs : list pfile)
    (w' : world) (wr : list Z) (added : list dfile),
  call_step conv w m h (CFiles fs) = (w', wr, 0, added) ->
  forall p, In p fs -> claims_sound (stored_claims (w_schema w) p) p = true.
Proof. exact accepted_files_claims_sound. Qed.
Print Assumptions C11_tx_accepted_claims_sound.

(* Storing the claims AS GIVEN -- what the unchanged library did -- is refuted: a well-formed file with a column_sizes key
   "abc" (ex_bad_key) gets an entry no read can decode. *)
Theorem C11_tx_claims_as_given_refuted : ~ claims_as_given_sound_full.
Proof. exact claims_as_given_refuted. Qed.
Print Assumptions C11_tx_claims_as_given_refuted.

(* ================= handle provenance (Model/SchemaOpen.v): handles obtained by load_table, by create_table
   with ANY schema argument on the existing table, by Table(...); re-bound, or several alive at once ================= *)

(* What the source does when a handle is obtained (regenerated on every run): for every opener, no action derives
   an Arrow layout from the caller's unvalidated schema argument into the new handle's cache. *)
Theorem C11_open_derives_only_persisted : forall o : opener, forallb safe_action (actions_of o) = true.
Proof. exact open_actions_safe. Qed.
Print Assumptions C11_open_derives_only_persisted.

(* MODEL SANITY (not a fact about the code): in Model/SchemaOpen.v an opening can only set the handle's cache, so it
   leaves the schema, the snapshot list, the stored files and every scan unchanged BY CONSTRUCTION -- for any action list,
   the unsafe ones included.  That create_table's schema argument is not applied to a table that exists is the reading
   given to OAInitIfAbsent; the content is carried by C11_open_derives_only_persisted (regenerated actions), by
   C11_handle_provenance_irrelevant, and for create_table on an existing table by C18's theorems. *)
Theorem C11_open_no_trace_model_sanity : forall (acts : list oaction) (w : world) (h : Z) (arg : option ischema),
  let w' := open_with acts w h arg in
  w_schema w' = w_schema w /\ w_snaps w' = w_snaps w /\ w_store w' = w_store w
  /\ full_scan w' = full_scan w /\ (forall X fs, filtered_scan X fs w' = filtered_scan X fs w).
Proof. exact open_no_trace. Qed.
Print Assumptions C11_open_no_trace_model_sanity.

(* Handle provenance is irrelevant: in ANY history of openings (any opener, any schema argument, any handle name,
   new or re-bound) and append attempts, every append has the outcome, and the table reaches the state -- schema,
   snapshots with their files, stored files, full and filtered scans --, of the same history with the openings
   erased.  So C11_history_scans, C11_history_filter, C11_history_bounds_*, C11_reject_no_trace and
   C11_exact_partial hold verbatim of histories with openings. *)
Theorem C11_handle_provenance_irrelevant : forall (conv : catype -> pyval -> option pyval) (ts : ischema) (xs : list hevent),
  let w := hrun conv (init (Some ts)) xs in
  let w0 := run conv (init (Some ts)) (appends xs) in
  houtcomes conv (init (Some ts)) xs = run_outcomes conv (init (Some ts)) (appends xs)
  /\ w_schema w = w_schema w0 /\ w_snaps w = w_snaps w0 /\ w_store w = w_store w0
  /\ full_scan w = full_scan w0
  /\ (forall X fs, filtered_scan X fs w = filtered_scan X fs w0).
Proof. exact handles_irrelevant. Qed.
Print Assumptions C11_handle_provenance_irrelevant.

(* Spelled out: after any such history full scans do not raise, ... *)
Theorem C11_handles_history_scans : forall (conv : catype -> pyval -> option pyval) (ts : ischema) (xs : list hevent),
  scan_ok (current (hrun conv (init (Some ts)) xs)) = true /\ full_scan (hrun conv (init (Some ts)) xs) <> None.
Proof. exact handles_history_scans. Qed.
Print Assumptions C11_handles_history_scans.

(* ... pruned filtered scans equal unpruned ones, ... *)
Theorem C11_handles_history_filter : forall (conv : catype -> pyval -> option pyval) (X : value -> value -> bool) (ts : ischema) (xs : list hevent) (fs : list fexpr),
  NoDup (map fname (sfields ts)) -> NoDup (map fid (sfields ts)) -> conv_kinds conv ->
  let w := hrun conv (init (Some ts)) xs in
  filtered_scan X fs w = Some (filter (row_selected X fs) (map vrow (flat_map df_rows (current w)))).
Proof. exact handles_filter. Qed.
Print Assumptions C11_handles_history_filter.

(* ... and (under conv_sound, as C11_exact_partial) the full scan returns exactly canon of every accepted record. *)
Theorem C11_handles_exact_partial : forall (rnd32 : Q -> num) (conv : catype -> pyval -> option pyval),
  conv_sound rnd32 conv ->
  forall (ts : ischema) (xs : list hevent),
  full_scan (hrun conv (init (Some ts)) xs) = Some (expected rnd32 conv ts (init (Some ts)) (appends xs)).
Proof. exact handles_exact. Qed.
Print Assumptions C11_handles_exact_partial.

(* Explicit transactions through handles of any provenance: scans keep working. *)
Theorem C11_handles_tx_history_scans : forall (conv : catype -> pyval -> option pyval) (ts : ischema) (xs : list thevent),
  scan_ok (current (thrun conv (init (Some ts)) xs)) = true /\ full_scan (thrun conv (init (Some ts)) xs) <> None.
Proof. exact handles_tx_history_scans. Qed.
Print Assumptions C11_handles_tx_history_scans.

(* ---- Non-vacuity: a concrete table {a: long required (id 1); b: float optional (id 2)}, a concrete
   conversion oracle satisfying conv_sound and conv_kinds, and a history in which an identical
   argument under another schema id is accepted through a reused handle, a reordered one, a renumbered
   one and a value 1.5 for the long column are rejected, a commit fails, and the scans see exactly the
   two accepted rows. *)
Definition ex_fields : list field :=
  [ {| fid := 1; fname := 0; ftype := CPrim T_long; fspell := 0; freq := true |};
    {| fid := 2; fname := 1; ftype := CPrim T_float; fspell := 0; freq := false |} ].
Definition ex_ts : ischema := {| sid := 1; sfields := ex_fields; sstring := 0 |}.
Definition ex_rnd (q : Q) : num := Fin q.
Definition ex_conv_prim (a : atype) (v : pyval) : option pyval :=
  match a with
  | A_int32 => if value_fits T_int v then Some (canon ex_rnd T_int v) else None
  | A_int64 => if value_fits T_long v then Some (canon ex_rnd T_long v) else None
  | A_float32 => if value_fits T_float v then Some (canon ex_rnd T_float v) else None
  | A_float64 => if value_fits T_double v then Some (canon ex_rnd T_double v) else None
  | A_string => if value_fits T_string v then Some v else None
  | A_binary => if value_fits T_binary v then Some v else None
  | A_bool_ => if value_fits T_boolean v then Some v else None
  | A_date32 => if value_fits T_date v then Some v else None
  | A_time64_us => if value_fits T_time v then Some v else None
  | A_timestamp_us => if value_fits T_timestamp v then Some v else None
  end.
Fixpoint ex_conv_all (f : pyval -> option pyval) (l : list pyval) : option (list pyval) :=
  match l with
  | [] => Some []
  | x :: l' => match f x, ex_conv_all f l' with Some y, Some ys => Some (y :: ys) | _, _ => None end
  end.
Fixpoint ex_conv (a : catype) (v : pyval) : option pyval :=
  match a with
  | APrim p => ex_conv_prim p v
  | AList e => match v with
               | PV VNull => Some v
               | PList l => match ex_conv_all (ex_conv e) l with Some l' => Some (PList l') | None => None end
               | _ => None
               end
  end.

Lemma ex_conv_prim_sound t v c : value_fits t v = true -> ex_conv_prim (arrow_of_type t) v = Some c -> c = canon ex_rnd t v.
Proof.
  intros F H. destruct t; destruct v as [[|b|z|[q| | |]|s|u|d|u]|bs| |l]; simpl in *; try discriminate;
    try rewrite F in H; inversion H; reflexivity.
Qed.

Lemma ex_conv_sound : conv_sound ex_rnd ex_conv.
Proof.
  intro t. induction t as [t|e IH]; intros v c F H; simpl in *.
  - exact (ex_conv_prim_sound t v c F H).
  - destruct v as [[| | | | | | |]| | |l]; try discriminate; [inversion H; reflexivity|].
    destruct (ex_conv_all (ex_conv (arrow_of_ctype e)) l) as [l'|] eqn:E; [|discriminate]. inversion H; subst c. clear H. f_equal.
    revert l' E. induction l as [|x l IHl]; simpl; intros l' E.
    + inversion E; reflexivity.
    + simpl in F. apply andb_true_iff in F. destruct F as [F1 F2].
      destruct (ex_conv (arrow_of_ctype e) x) as [y|] eqn:Y; [|discriminate].
      destruct (ex_conv_all (ex_conv (arrow_of_ctype e)) l) as [ys|] eqn:YS; [|discriminate].
      inversion E; subst. rewrite (IH x y F1 Y), (IHl F2 ys eq_refl). reflexivity.
Qed.

Lemma ex_conv_kinds : conv_kinds ex_conv.
Proof.
  intros a v c. destruct a as [a|e]; simpl.
  - destruct a; simpl;
      destruct v as [[|b|z|[q| | |]|s|u|d|u]| | |l]; simpl; try discriminate; intro H; inversion H; subst; simpl; try reflexivity;
      repeat match goal with H : (if ?b then _ else _) = _ |- _ => destruct b; inversion H; subst; simpl; try reflexivity end.
  - destruct v as [[| | | | | | |]| | |l]; try discriminate; [intro H; inversion H; reflexivity|].
    destruct (ex_conv_all (ex_conv e) l); intro H; inversion H; reflexivity.
Qed.

Definition ex_rec (a b : pyval) : record := [(0, a); (1, b)].
Definition ex_history : list event :=
  [ {| e_handle := 0; e_arg := None; e_recs := [ex_rec (PV (VInt 7)) (PV (VFlt (Fin (1 # 2))))]; e_commit_ok := true |};
    {| e_handle := 0; e_arg := Some {| sid := 1; sfields := rev ex_fields; sstring := 1 |}; e_recs := [ex_rec (PV (VInt 8)) (PV VNull)]; e_commit_ok := true |};
    {| e_handle := 1; e_arg := Some {| sid := 7; sfields :=
         [ {| fid := 2; fname := 0; ftype := CPrim T_long; fspell := 0; freq := true |}; {| fid := 1; fname := 1; ftype := CPrim T_float; fspell := 0; freq := false |} ];
         sstring := 1 |};
       e_recs := [ex_rec (PV (VInt 9)) (PV VNull)]; e_commit_ok := true |};
    {| e_handle := 0; e_arg := None; e_recs := [ex_rec (PV (VFlt (Fin (3 # 2)))) (PV VNull)]; e_commit_ok := true |};
    {| e_handle := 0; e_arg := None; e_recs := [ex_rec (PV (VInt 10)) (PV VNull)]; e_commit_ok := false |};
    {| e_handle := 0; e_arg := Some {| sid := 7; sfields := ex_fields; sstring := 0 |}; e_recs := [[(0, PV (VInt 11))]]; e_commit_ok := true |} ].

Fixpoint outcomes (conv : catype -> pyval -> option pyval) (w : world) (es : list event) : list outcome :=
  match es with [] => [] | e :: es' => snd (step conv w e) :: outcomes conv (fst (step conv w e)) es' end.

Example C11_nonvacuous :
  conv_sound ex_rnd ex_conv
  /\ conv_kinds ex_conv
  /\ NoDup (map fname (sfields ex_ts)) /\ NoDup (map fid (sfields ex_ts))
  /\ outcomes ex_conv (init (Some ex_ts)) ex_history = [Accepted; RejSchema; RejSchema; RejRecords; RejCommit; Accepted]
  /\ full_scan (run ex_conv (init (Some ex_ts)) ex_history)
     = Some [ [(0, PV (VInt 7)); (1, PV (VFlt (Fin (1 # 2))))]; [(0, PV (VInt 11)); (1, PV VNull)] ]
  /\ map (fun f => (df_lo f, df_hi f)) (current (run ex_conv (init (Some ex_ts)) ex_history))
     = [ ([(1, VInt 7); (2, VFlt (Fin (1 # 2)))], [(1, VInt 7); (2, VFlt (Fin (1 # 2)))]); ([(1, VInt 11)], [(1, VInt 11)]) ]
  /\ w_store (run ex_conv (init (Some ex_ts)) ex_history) = [2; 0]
  /\ length (w_snaps (run ex_conv (init (Some ex_ts)) ex_history)) = 2%nat.
Proof.
  split; [exact ex_conv_sound|].
  split; [exact ex_conv_kinds|].
  split; [repeat constructor; simpl; intuition discriminate|].
  split; [repeat constructor; simpl; intuition discriminate|].
  vm_compute. repeat split.
Qed.

(* Non-vacuity for transactions: on the same table, append_files([good; MISSING]) raises and the commit of that
   transaction publishes nothing; a transaction with an accepted two-file call, a refused three-file call
   whose LAST file has a divergent footer, and an accepted records call commits one snapshot of 3 files. *)
Definition ex_good (i : Z) : pfile :=
  {| pf_id := i; pf_canonical := true; pf_exists := true; pf_parquet := true; pf_footer := Some (arrow_of ex_fields);
     pf_rows := [[(0, PV (VInt i)); (1, PV VNull)]]; pf_lo := None; pf_hi := None; pf_claims := no_claims |}.
Definition ex_missing : pfile :=
  {| pf_id := 99; pf_canonical := true; pf_exists := false; pf_parquet := true; pf_footer := None; pf_rows := [];
     pf_lo := None; pf_hi := None; pf_claims := no_claims |}.
Definition ex_divergent : pfile :=
  {| pf_id := 98; pf_canonical := true; pf_exists := true; pf_parquet := true; pf_footer := Some (rev (arrow_of ex_fields)); pf_rows := [];
     pf_lo := None; pf_hi := None; pf_claims := no_claims |}.
(* a well-formed file holding a = 5 whose caller CLAIMS the bounds 100 .. 200 for column a (field id 1) *)
Definition ex_lying : pfile :=
  {| pf_id := 60; pf_canonical := true; pf_exists := true; pf_parquet := true; pf_footer := Some (arrow_of ex_fields);
     pf_rows := [[(0, PV (VInt 5)); (1, PV VNull)]]; pf_lo := Some [(1, VInt 100)]; pf_hi := Some [(1, VInt 200)];
     (* ... and a column_sizes map keyed "abc", the file's own checksum, and record_count = 100 *)
     pf_claims := {| pc_stat_keys := [None; Some 1]; pc_sum := Some true; pc_count := 100 |} |}.
(* the same file with a checksum that is not its own *)
Definition ex_wrong_sum : pfile :=
  {| pf_id := 61; pf_canonical := true; pf_exists := true; pf_parquet := true; pf_footer := Some (arrow_of ex_fields);
     pf_rows := [[(0, PV (VInt 5)); (1, PV VNull)]]; pf_lo := None; pf_hi := None;
     pf_claims := {| pc_stat_keys := []; pc_sum := Some false; pc_count := 1 |} |}.
Definition ex_tx3 : txn := {| t_handle := 0; t_calls := [CFiles [ex_lying]]; t_end := EndCommit true |}.
Definition ex_a_is_5 : fexpr := {| fcol := 0; fop_ := EQ; fsval := VInt 5; flval := [] |}.
Definition ex_tx1 : txn := {| t_handle := 0; t_calls := [CFiles [ex_good 50; ex_missing]]; t_end := EndCommit true |}.
Definition ex_tx2 : txn :=
  {| t_handle := 0;
     t_calls := [CFiles [ex_good 51; ex_good 52]; CFiles [ex_good 53; ex_good 54; ex_divergent];
                 CRecords None [ex_rec (PV (VInt 7)) (PV VNull)]];
     t_end := EndCommit true |}.

Example C11_tx_nonvacuous :
  w_snaps (run_tx ex_conv (init (Some ex_ts)) ex_tx1) = []
  /\ map (map df_id) (w_snaps (run_txs ex_conv (init (Some ex_ts)) [ex_tx1; ex_tx2])) = [[51; 52; 0]]
  /\ full_scan (run_txs ex_conv (init (Some ex_ts)) [ex_tx1; ex_tx2])
     = Some [ [(0, PV (VInt 51)); (1, PV VNull)]; [(0, PV (VInt 52)); (1, PV VNull)]; [(0, PV (VInt 7)); (1, PV VNull)] ]
  /\ txs_expected ex_conv ex_ts ex_rnd (init (Some ex_ts)) [ex_tx1; ex_tx2]
     = [ [(0, PV (VInt 51)); (1, PV VNull)]; [(0, PV (VInt 52)); (1, PV VNull)]; [(0, PV (VInt 7)); (1, PV VNull)] ]
  (* the trace of ex_tx2's calls: accepted (2 files), refused (tag 6, no file), accepted (1 file) *)
  /\ (match run_calls ex_conv (init (Some ex_ts)) tx_empty 0 (t_calls ex_tx2) with
      | (_, _, tr) => map (fun x => (fst x, map df_id (snd x))) tr end) = [(0, [51; 52]); (6, []); (0, [0])]
  (* caller-supplied bounds: the file claiming 100 .. 200 for a column that holds 5 is stored with the bounds of
     its CONTENT, the filtered scan a == 5 finds the row -- and pruning by the claimed bounds would have skipped it *)
  /\ map (fun f => (df_lo f, df_hi f)) (current (run_txs ex_conv (init (Some ex_ts)) [ex_tx3])) = [([(1, VInt 5)], [(1, VInt 5)])]
  /\ filtered_scan (fun _ _ => false) [ex_a_is_5] (run_txs ex_conv (init (Some ex_ts)) [ex_tx3]) = Some [ [(0, VInt 5); (1, VNull)] ]
  /\ file_may_match [(1, VInt 100)] [(1, VInt 200)] (ids_of ex_fields) [ex_a_is_5] = false
  /\ Forall (txn_Q pf_typed) [ex_tx1; ex_tx2; ex_tx3]
  /\ NoDup (adopted_ids [ex_tx1; ex_tx2; ex_tx3])
  (* the other claims: ex_lying (a statistics key "abc", record_count 100 for one row) is ACCEPTED and stored with the table's
     field ids as keys and the count 1; stored as given, its entry would be unsound; ex_wrong_sum is refused (tag 6) *)
  /\ (match call_step ex_conv (init (Some ex_ts)) [] 0 (CFiles [ex_lying]) with (_, _, t, added) => (t, map df_id added) end) = (0, [60])
  /\ stored_claims (Some ex_ts) ex_lying = {| sc_stat_keys := [Some 1; Some 2]; sc_sum_ok := Some true; sc_count := 1 |}
  /\ claims_sound (stored_claims_as_given ex_lying) ex_lying = false
  /\ (match call_step ex_conv (init (Some ex_ts)) [] 0 (CFiles [ex_good 50; ex_wrong_sum]) with (_, _, t, added) => (t, map df_id added) end) = (6, [])
  (* storage faults: the regenerated flags say that a failing refresh() / marker write reaches the caller *)
  /\ (resolve_refresh_propagates, marker_failure_propagates, queue_failure_propagates, files_exists_failure_propagates) = (true, true, true, true)
  /\ call_step ex_conv (init (Some ex_ts)) [] 0 (CRecordsF FAfterWrite None [ex_rec (PV (VInt 7)) (PV VNull)])
     = (fst (fst (fst (call_step ex_conv (init (Some ex_ts)) [] 0 (CRecordsF FAfterWrite None [ex_rec (PV (VInt 7)) (PV VNull)])))),
        [0], tag_storage_fault, [])
  (* the GC-protection step of append_files, as regenerated: every failure in it reaches the caller, the markers the
     call wrote are removed.  Two well-formed files: without a window they are queued and leave two markers; failing
     marker writes / a failing listing / a failing re-check raise as storage faults (7), an announced collection run
     refuses the adoption (6) -- nothing queued, no marker left; the hypothesis `unprotected m fs <> []` is needed: a
     call whose files this transaction has already adopted (m = [51; 52]) has nothing to protect and is accepted
     under the same windows; a transaction whose first adoption was refused under a window commits the second only *)
  /\ (adopt_marker_failure_propagates, adopt_listing_failure_propagates, adopt_refused_while_collecting,
      adopt_recheck_failure_propagates, adopt_cleanup_on_failure) = (true, true, true, true, true)
  /\ map (fun ft => let c := match ft with Some f => CFilesF f [ex_good 51; ex_good 52] | None => CFiles [ex_good 51; ex_good 52] end in
                    match call_step ex_conv (init (Some ex_ts)) [] 0 c with
                    | (_, wr, t, added) => (wr, t, map df_id added, call_marks (init (Some ex_ts)) [] 0 c) end)
         [None; Some FMarker; Some FAnnounce; Some FCollecting; Some FRecheck; Some FAfterWrite]
     = [([], 0, [51; 52], [51; 52]); ([], 7, [], []); ([], 7, [], []); ([], 6, [], []); ([], 7, [], []); ([], 0, [51; 52], [51; 52])]
  /\ map (fun f => match call_step ex_conv (init (Some ex_ts)) [51; 52] 0 (CFilesF f [ex_good 51; ex_good 52]) with
                   | (_, _, t, added) => (t, map df_id added) end) [FMarker; FAnnounce; FCollecting; FRecheck]
     = [(0, [51; 52]); (0, [51; 52]); (0, [51; 52]); (0, [51; 52])]
  /\ map (map df_id) (w_snaps (run_tx ex_conv (init (Some ex_ts))
        {| t_handle := 0; t_calls := [CFilesF FAnnounce [ex_good 51; ex_good 52]; CFiles [ex_good 53]; CFilesF FMarker [ex_good 53]];
           t_end := EndCommit true |})) = [[53; 53]].
Proof.
  split; [vm_compute; reflexivity|]. split; [vm_compute; reflexivity|]. split; [vm_compute; reflexivity|].
  split; [vm_compute; reflexivity|]. split; [vm_compute; reflexivity|]. split; [vm_compute; reflexivity|].
  split; [vm_compute; reflexivity|]. split; [vm_compute; reflexivity|].
  split.
  { repeat constructor; simpl; auto; intros row Hrow c;
      repeat (destruct Hrow as [<-|Hrow]; [unfold cell; simpl; repeat (destruct (Z.eqb c _); [reflexivity|]); reflexivity|]); contradiction. }
  split; [repeat constructor; simpl; intuition discriminate|].
  split; [vm_compute; reflexivity|]. split; [vm_compute; reflexivity|]. split; [vm_compute; reflexivity|]. split; [vm_compute; reflexivity|].
  split; [reflexivity|]. split; [vm_compute; reflexivity|]. split; [reflexivity|].
  split; [vm_compute; reflexivity|]. split; [vm_compute; reflexivity|]. vm_compute. reflexivity.
Qed.

(* Non-vacuity for list columns and record keys: the table {a: long (id 1); l: list<long> (id 2)}.  [1, 2.0] is
   accepted and stored as [1, 2]; [1.5] (an element the element type cannot hold), the scalar 5 in the list
   column, and a record with a key that is not a str (-2: an object whose str() is the name of column l) are
   refused and leave no trace. *)
Definition ex_lfields : list field :=
  [ {| fid := 1; fname := 0; ftype := CPrim T_long; fspell := 0; freq := true |};
    {| fid := 2; fname := 1; ftype := CList (CPrim T_long); fspell := 1; freq := false |} ].
Definition ex_lts : ischema := {| sid := 1; sfields := ex_lfields; sstring := 0 |}.
Definition ex_lapp (r : record) : event := {| e_handle := 0; e_arg := None; e_recs := [r]; e_commit_ok := true |}.
Definition ex_lhistory : list event :=
  [ ex_lapp [(0, PV (VInt 1)); (1, PList [PV (VInt 1); PV (VFlt (Fin (2 # 1)))])];
    ex_lapp [(0, PV (VInt 2)); (1, PList [PV (VFlt (Fin (3 # 2)))])];
    ex_lapp [(0, PV (VInt 3)); (1, PV (VInt 5))];
    ex_lapp [(0, PV (VInt 4)); (-2, PV (VStr []))] ].

Example C11_lists_keys_nonvacuous :
  outcomes ex_conv (init (Some ex_lts)) ex_lhistory = [Accepted; RejRecords; RejRecords; RejRecords]
  /\ full_scan (run ex_conv (init (Some ex_lts)) ex_lhistory) = Some [ [(0, PV (VInt 1)); (1, PList [PV (VInt 1); PV (VInt 2)])] ]
  /\ value_fits_c (CList (CPrim T_long)) (PList [PV (VInt 1); PV (VFlt (Fin (2 # 1)))]) = true
  /\ ~ representable_c (CList (CPrim T_long)) (PList [PV (VFlt (Fin (3 # 2)))])
  /\ map (fun f => (df_lo f, df_hi f)) (current (run ex_conv (init (Some ex_lts)) ex_lhistory)) = [([(1, VInt 1)], [(1, VInt 1)])].
Proof.
  split; [vm_compute; reflexivity|]. split; [vm_compute; reflexivity|]. split; [vm_compute; reflexivity|].
  split; [|vm_compute; reflexivity].
  simpl. intro H. inversion H as [|x l H1 H2]; subst. destruct H1 as [z [_ [E|[q [E Q]]]]]; [discriminate|].
  inversion E; subst. unfold Qeq in Q. simpl in Q. lia.
Qed.

(* Non-vacuity for handle provenance.  ex_narrow is the table's schema with b narrowed-by-name only: the SAME
   schema_id, b retyped float -> double and the columns reordered.  (1) Handle 0 is re-obtained by
   create_table(path, schema=ex_narrow) after one append; the schema-less append that follows is accepted, writes
   the table's layout, and the scan returns both rows.  (2) The hypothesis is needed: were the opening code to
   derive a layout from its argument (`open_with [OADerive SrcArg]`, an UNSAFE action list), the same history would
   write a file with the foreign layout and the full scan would raise. *)
Definition ex_narrow : ischema :=
  {| sid := 1; sstring := 0; sfields :=
     [ {| fid := 2; fname := 1; ftype := CPrim T_double; fspell := 0; freq := false |};
       {| fid := 1; fname := 0; ftype := CPrim T_long; fspell := 0; freq := true |} ] |}.
Definition ex_app (z : Z) : event :=
  {| e_handle := 0; e_arg := None; e_recs := [ex_rec (PV (VInt z)) (PV (VFlt (Fin (1 # 2))))]; e_commit_ok := true |}.
Definition ex_hhistory : list hevent :=
  [HOpen 0 OLoad; HAppend (ex_app 7); HOpen 0 (OCreate (Some ex_narrow)); HOpen 5 (OCtor (Some ex_narrow)); HAppend (ex_app 8)].

Example C11_handles_nonvacuous :
  houtcomes ex_conv (init (Some ex_ts)) ex_hhistory = [Accepted; Accepted]
  /\ full_scan (hrun ex_conv (init (Some ex_ts)) ex_hhistory)
     = Some [ [(0, PV (VInt 7)); (1, PV (VFlt (Fin (1 # 2))))]; [(0, PV (VInt 8)); (1, PV (VFlt (Fin (1 # 2))))] ]
  /\ safe_action (OADerive SrcArg) = false
  /\ (let w1 := fst (step ex_conv (init (Some ex_ts)) (ex_app 7)) in
      let w2 := fst (step ex_conv (open_with [OADerive SrcArg] w1 0 (Some ex_narrow)) (ex_app 8)) in
      snd (step ex_conv (open_with [OADerive SrcArg] w1 0 (Some ex_narrow)) (ex_app 8)) = Accepted
      /\ scan_ok (current w2) = false /\ full_scan w2 = None).
Proof. vm_compute. repeat split. Qed.
