(* Props/C12.v -- Filters mean what SQL says, identically in every scan API.
   Only theorem statements, each closed by `exact <lemma>`, with Print Assumptions beneath.

   Quantified throughout: X (pyarrow's lossy is_in casts), E (which leaves pyarrow refuses on which
   row), B (which expressions pyarrow refuses to BIND to the files' schema -- before any row, hence also on a
   data file without rows), PA (which value sets pa.array accepts) -- the theorems hold for EVERY behaviour of
   these; every table content, file layout (files WITHOUT rows included), batch layout (`split`), projection, filter.

   Reading of "in/not_in never match NULL": the sentence is about the CELL (a NULL cell is never selected by in /
   not_in); a NULL inside the VALUE SET "matches nothing and is dropped" (documented in Table.scan, pinned by the
   library's tests).  For NOT IN this is deliberately NOT the SQL standard, under which 4 NOT IN (3, NULL) is UNKNOWN:
   C12_not_in_null_differs_from_sql states the difference exactly. *)
From Coq Require Import String Ascii.
From Coq Require Import ZArith QArith List Bool.
Require Import DS.Model.Value DS.Model.FilterExpr DS.Gen.GenPrune DS.Model.Prune DS.Proofs.PruneProofs.
Require Import DS.Gen.GenFilterConst DS.Gen.GenFilter DS.Model.Filter DS.Proofs.FilterProofs DS.Proofs.TextBounds.
Require Import DS.Model.BoundPrim DS.Gen.GenBound DS.Model.Bound DS.Model.ManifestBase DS.Gen.GenManifest DS.Model.Manifest.
Require Import DS.Proofs.ManifestProofs.
Import ListNotations.
Open Scope Z_scope.

(* The expression _build_condition builds (REGENERATED from the source) selects exactly the rows on
   which the SQL predicate is TRUE: whenever pyarrow evaluates it on a row, the mask is TRUE iff
   `selected` (comparisons and in/not_in never match NULL; NULLs in a value set are ignored; IN ()
   matches nothing; NOT IN () matches every non-NULL row; is_null / is_not_null are total). *)
Theorem C12_compile_correct :
  forall (X : value -> value -> bool) (E : cexpr -> row -> bool) (PA : parg -> bool) (e : fexpr) (ce : cexpr),
    compile PA e = Ok ce ->
    forall (r : row) (t : tv), eval3 X E ce r = Some t ->
      (t = TT <-> selected X (fop_ e) (cell r (fcol e)) (fsval e) (flval e) = true).
Proof. exact compile_sound. Qed.
Print Assumptions C12_compile_correct.

(* ... and building it fails only when pyarrow refuses the literal itself (pa.scalar of the comparison
   value, pa.array of a non-empty in / not_in value set). *)
Theorem C12_compile_total :
  forall (PA : parg -> bool) (e : fexpr) (k : errk),
    compile PA e = Err k -> k = EBuild /\ exists a, literal_of e = Some a /\ PA a = false.
Proof. exact compile_err. Qed.
Print Assumptions C12_compile_total.

(* Conjunctions: the `&`-fold of to_pyarrow_compute_expression (REGENERATED) is TRUE on a row iff every
   conjunct's SQL predicate is TRUE. *)
Theorem C12_conj :
  forall (X : value -> value -> bool) (E : cexpr -> row -> bool) (PA : parg -> bool)
         (es : list fexpr) (cs : list cexpr) (ce : cexpr),
    mapM (compile PA) es = Ok cs -> gen_fold cs = Some ce ->
    forall (r : row) (t : tv), eval3 X E ce r = Some t -> (t = TT <-> row_selected X es r = true).
Proof. exact conj_sound. Qed.
Print Assumptions C12_conj.

(* All APIs and options return the same thing -- rows in the same order, or the same error --
   for every table, file layout, batch layout, stored bounds, valid projection and filter (well
   formed or not): scan with checksum verification on/off (parallel = the same map), scan_batches
   with any batching, iter_records. *)
Theorem C12_api_agree :
  forall (X : value -> value -> bool) (E : cexpr -> row -> bool) (B : cexpr -> bool) (PA : parg -> bool)
         (sch : list Z) (ids : list (Z * Z)) (bounds : file -> list (Z * value) * list (Z * value))
         (split : list row -> list (list row)) (v : bool) (cols : option (list Z)) (flt : pyfilter) (files : list file),
    valid_cols sch cols -> (forall l, concat (split l) = l) ->
    let reference := scan_table X E B PA sch ids bounds true cols flt files in
    scan_table X E B PA sch ids bounds v cols flt files = reference
    /\ flat (scan_batches X E B PA sch ids bounds split cols flt files) = reference
    /\ iter_records X E B PA sch ids bounds cols flt files = reference.
Proof. exact api_agree. Qed.
Print Assumptions C12_api_agree.

(* `valid_cols` demands a NON-EMPTY projection of existing columns.  For the empty projection the
   statement is false of the code as it is (and of its faithful model): pa.concat_tables drops the row
   count of column-less tables, so scan(columns=[]) returns no rows while scan_batches / iter_records
   yield one {} per selected row.  Open finding, reported; not repaired (no small safe repair). *)
Definition C12_api_agree_any_projection : Prop :=
  forall (X : value -> value -> bool) (E : cexpr -> row -> bool) (B : cexpr -> bool) (PA : parg -> bool)
         (sch : list Z) (ids : list (Z * Z)) (bounds : file -> list (Z * value) * list (Z * value))
         (split : list row -> list (list row)) (v : bool) (cs : list Z) (flt : pyfilter) (files : list file),
    (forall c, In c cs -> In c sch) -> (forall l, concat (split l) = l) ->
    flat (scan_batches X E B PA sch ids bounds split (Some cs) flt files) = scan_table X E B PA sch ids bounds v (Some cs) flt files.

Theorem C12_api_agree_empty_projection_refuted : ~ C12_api_agree_any_projection.
Proof. exact api_agree_empty_projection_refuted. Qed.
Print Assumptions C12_api_agree_empty_projection_refuted.

(* ... and that common answer is the SQL one: project cols (filter sql (concat files)), whenever the
   filter is accepted, well shaped, and pyarrow refuses neither to bind the expression nor a row (pruning by
   the stored bounds included: C13). *)
Theorem C12_api_sql :
  forall (X : value -> value -> bool) (E : cexpr -> row -> bool) (B : cexpr -> bool) (PA : parg -> bool)
         (sch : list Z) (ids : list (Z * Z)) (split : list row -> list (list row)) (v : bool)
         (cols : option (list Z)) (flt : pyfilter) (files : list file)
         (ps : list pexpr) (ce : option cexpr) (es : list fexpr),
    prepare PA flt = Ok (ps, ce) ->
    map to_fexpr ps = map Some es ->
    valid_cols sch cols -> (forall l, concat (split l) = l) ->
    NoDup (map snd ids) -> (forall f, In f files -> wf_file ids (frows f)) ->
    refused B ce = false ->
    (forall e f r, ce = Some e -> In f files -> In r (frows f) -> eval3 X E e r <> None) ->
    let answer := Ok (sel cols (filter (row_selected X es) (concat (map frows files)))) in
    scan_table X E B PA sch ids (stored_bounds ids) v cols flt files = answer
    /\ flat (scan_batches X E B PA sch ids (stored_bounds ids) split cols flt files) = answer
    /\ iter_records X E B PA sch ids (stored_bounds ids) cols flt files = answer.
Proof. exact api_sql. Qed.
Print Assumptions C12_api_sql.

(* The stored statistics need not be the exact minimum / maximum: the same answer for ANY stored bounds that are
   SOUND for the filter (`bounds_sound`: no expression prunes a file in which it selects a row). *)
Theorem C12_api_sql_sound_bounds :
  forall (X : value -> value -> bool) (E : cexpr -> row -> bool) (B : cexpr -> bool) (PA : parg -> bool)
         (sch : list Z) (ids : list (Z * Z)) (bounds : file -> list (Z * value) * list (Z * value))
         (split : list row -> list (list row)) (v : bool)
         (cols : option (list Z)) (flt : pyfilter) (files : list file)
         (ps : list pexpr) (ce : option cexpr) (es : list fexpr),
    prepare PA flt = Ok (ps, ce) ->
    map to_fexpr ps = map Some es ->
    valid_cols sch cols -> (forall l, concat (split l) = l) ->
    bounds_sound X ids bounds es files ->
    refused B ce = false ->
    (forall e f r, ce = Some e -> In f files -> In r (frows f) -> eval3 X E e r <> None) ->
    let answer := Ok (sel cols (filter (row_selected X es) (concat (map frows files)))) in
    scan_table X E B PA sch ids bounds v cols flt files = answer
    /\ flat (scan_batches X E B PA sch ids bounds split cols flt files) = answer
    /\ iter_records X E B PA sch ids bounds cols flt files = answer.
Proof. exact api_sql_gen. Qed.
Print Assumptions C12_api_sql_sound_bounds.

(* Text columns: CONSERVATIVE bounds (any string below every value as lower bound, any string above every value as
   upper bound -- of any length) are sound for every operator and literal ... *)
Theorem C12_text_bounds_conservative :
  forall (X : value -> value -> bool) (lo hi : list (Z * value)) (ids : list (Z * Z)) (rows : list row) (e : fexpr)
         (cid : Z) (l h : list Z),
    lookup (fcol e) ids = Some cid -> lookup cid lo = Some (VStr l) -> lookup cid hi = Some (VStr h) ->
    (forall r, In r rows -> text_or_null (cell r (fcol e))) ->
    (forall r, In r rows -> is_null (cell r (fcol e)) = false ->
               vle (VStr l) (cell r (fcol e)) /\ vle (cell r (fcol e)) (VStr h)) ->
    expr_bounds_ok X lo hi ids rows e.
Proof. exact text_bounds_ok. Qed.
Print Assumptions C12_text_bounds_conservative.

(* ... a prefix of a string is below it (a truncated minimum is a sound lower bound) ... *)
Theorem C12_prefix_lower_bound : forall (n : nat) (s : list Z), vle (VStr (firstn n s)) (VStr s).
Proof. exact prefix_is_lower_bound. Qed.
Print Assumptions C12_prefix_lower_bound.

(* ... but a prefix of the maximum is NOT a sound upper bound: the file is pruned although a row is selected. *)
Theorem C12_prefix_upper_bound_refuted :
  exists (X : value -> value -> bool) lo hi ids rows e,
    (forall r, In r rows -> vle (VStr [97]) (cell r (fcol e)))
    /\ ~ expr_bounds_ok X lo hi ids rows e
    /\ file_may_match lo hi ids [e] = false
    /\ exists r, In r rows /\ row_selected X [e] r = true.
Proof. exact prefix_upper_bound_refuted. Qed.
Print Assumptions C12_prefix_upper_bound_refuted.

(* ------------------------------------------------------------------ tables with a HISTORY
   The table a filter is applied to is the result of a history of committed transactions: several files appended at once
   (one manifest, many entries), files deleted (each manifest of the base snapshot kept, REWRITTEN from its survivors, or
   dropped -- Transaction._commit_file_ops, decision and survivor test REGENERATED), both in one transaction; expiry,
   rolled-back transactions, collections and re-opening do not touch the current manifests.  The bounds of every entry go
   through create_manifest_file / read_manifest_file (REGENERATED: Gen/GenManifest.v over the bound codec Gen/GenBound.v).

   What is written for an entry and read back is the entry: for the bounds a writer computes (never NULL) on the first
   trip, and for ANY stored entry from the second trip on -- a rewrite carries over exactly what readers saw before. *)
Theorem C12_manifest_roundtrip :
  (forall d : dfile, clean d -> load (store d) = d) /\ (forall e : sentry, load (store (load e)) = load e).
Proof. exact (conj load_store load_store_load). Qed.
Print Assumptions C12_manifest_roundtrip.

(* A manifest is referenced again unchanged only if no entry of it is deleted, and left out only if none survives. *)
Theorem C12_rewrite_decision :
  forall (del : list Z) (m : manifest),
    let surviving := filter (fun d => gen_survives del (dpath d)) (map load m) in
    (gen_rewrite_decision (length surviving) (length m) = RKeep -> surviving = map load m)
    /\ (gen_rewrite_decision (length surviving) (length m) = RDrop -> surviving = []).
Proof. exact rewrite_decision_sound. Qed.
Print Assumptions C12_rewrite_decision.

(* Manifest rewrites are invisible.  From ANY manifest state (bounds written by any earlier version included) and for
   ANY sequence of transactions whose appended files carry writer-made bounds, the data files in the manifests -- with the
   bounds pruning will read -- are those of the flat list semantics: deleted files removed, appended files added, every
   survivor's bounds as they were. *)
Theorem C12_history_view :
  forall (txs : list tx) (st : tstate),
    (forall t, In t txs -> Forall clean (tx_app t)) ->
    map load (concat (run txs st)) = spec_run txs (map load (concat st)).
Proof. exact view_run. Qed.
Print Assumptions C12_history_view.

(* ... and Table._get_all_data_files returns exactly them, each path ONCE (its first entry) -- for every history,
   those that register a path a second time included (Props/C15.v calls them reachable) ... *)
Theorem C12_history_files :
  forall (txs : list tx),
    (forall t, In t txs -> Forall clean (tx_app t)) ->
    table_files (run txs []) = dedup [] (spec_run txs []).
Proof. exact history_files. Qed.
Print Assumptions C12_history_files.

(* ... which is the list itself when every appended file has its own path. *)
Theorem C12_history_files_distinct_paths :
  forall (txs : list tx),
    (forall t, In t txs -> Forall clean (tx_app t)) ->
    NoDup (paths (concat (map tx_app txs))) ->
    table_files (run txs []) = spec_run txs [].
Proof. exact history_files_distinct. Qed.
Print Assumptions C12_history_files_distinct_paths.

(* C12 on a table with a history: whatever transactions built the table (files appended as the writer produces them:
   exact bounds, one kind per column), for ANY bounds function that gives pruning what the manifests hold, every API
   returns project cols (filter sql rows-of-the-live-files) -- the live files being those of the list semantics, each
   path once (no hypothesis that paths are distinct: a path registered twice is read once). *)
Theorem C12_history_sql :
  forall (X : value -> value -> bool) (E : cexpr -> row -> bool) (B : cexpr -> bool) (PA : parg -> bool)
         (sch : list Z) (ids : list (Z * Z)) (bounds : file -> list (Z * value) * list (Z * value))
         (split : list row -> list (list row)) (v : bool)
         (cols : option (list Z)) (flt : pyfilter) (txs : list tx)
         (ps : list pexpr) (ce : option cexpr) (es : list fexpr),
    prepare PA flt = Ok (ps, ce) ->
    map to_fexpr ps = map Some es ->
    valid_cols sch cols -> (forall l, concat (split l) = l) ->
    NoDup (map snd ids) ->
    appends_written ids txs ->
    (forall d, In d (table_files (run txs [])) -> bounds (dfile_ d) = manifest_bounds d) ->
    let files := map dfile_ (table_files (run txs [])) in
    refused B ce = false ->
    (forall e f r, ce = Some e -> In f files -> In r (frows f) -> eval3 X E e r <> None) ->
    let answer := Ok (sel cols (filter (row_selected X es) (concat (map frows (map dfile_ (dedup [] (spec_run txs []))))))) in
    scan_table X E B PA sch ids bounds v cols flt files = answer
    /\ flat (scan_batches X E B PA sch ids bounds split cols flt files) = answer
    /\ iter_records X E B PA sch ids bounds cols flt files = answer.
Proof. exact history_sql. Qed.
Print Assumptions C12_history_sql.

(* The "pyarrow does not refuse" hypothesis is satisfiable in general: it holds on every row that has
   the columns the expression reads and whose cells are comparable with the scalar literals (or NULL),
   when pyarrow refuses nothing beyond the Python-incomparable pairs. *)
Theorem C12_typed_evaluates :
  forall (X : value -> value -> bool) (e : cexpr) (r : row), typed e r -> eval3 X (fun _ _ => false) e r <> None.
Proof. exact typed_defined. Qed.
Print Assumptions C12_typed_evaluates.

(* When pyarrow refuses the expression on a file that is read -- when BINDING it to the file's schema (unknown
   column, literal of a type the column cannot be compared with: then the file need not have a single row), or on
   one of the file's rows -- EVERY API raises. *)
Theorem C12_refused_raises :
  forall (X : value -> value -> bool) (E : cexpr -> row -> bool) (B : cexpr -> bool) (PA : parg -> bool)
         (sch : list Z) (ids : list (Z * Z)) (bounds : file -> list (Z * value) * list (Z * value))
         (split : list row -> list (list row)) (v : bool) (cols : option (list Z)) (flt : pyfilter) (files : list file)
         (ps : list pexpr) (e : cexpr) (f : file),
    prepare PA flt = Ok (ps, Some e) -> valid_cols sch cols -> (forall l, concat (split l) = l) ->
    In f (prune_p ids bounds ps files) ->
    (B e = true \/ exists r, In r (frows f) /\ eval3 X E e r = None) ->
    scan_table X E B PA sch ids bounds v cols flt files = Err EEval
    /\ flat (scan_batches X E B PA sch ids bounds split cols flt files) = Err EEval
    /\ iter_records X E B PA sch ids bounds cols flt files = Err EEval.
Proof. exact refused_raises_everywhere. Qed.
Print Assumptions C12_refused_raises.

(* Why _iter_file_batches has to show the EMPTY table of a data file without rows to pyarrow (the repair): a batch
   reader that evaluates only the batches it is handed (`scan_batches_unchecked`, the code before the repair) returns
   no rows where scan() raises -- the APIs disagree on a table whose only file has no rows. *)
Theorem C12_zero_row_file_check_needed :
  exists (X : value -> value -> bool) (E : cexpr -> row -> bool) (B : cexpr -> bool) (PA : parg -> bool)
         (sch : list Z) (ids : list (Z * Z)) (bounds : file -> list (Z * value) * list (Z * value))
         (cols : option (list Z)) (flt : pyfilter) (files : list file),
    valid_cols sch cols
    /\ scan_table X E B PA sch ids bounds true cols flt files = Err EEval
    /\ flat (scan_batches_unchecked X E B PA sch ids bounds (chunk 1000) cols flt files) = Ok []
    /\ flat (scan_batches X E B PA sch ids bounds (chunk 1000) cols flt files) = Err EEval.
Proof. exact unchecked_batches_disagree. Qed.
Print Assumptions C12_zero_row_file_check_needed.

(* Malformed filters raise instead of being reinterpreted.  `well_formed` and `meaning` (Proofs/FilterProofs.v) spell
   the documented filter language out INDEPENDENTLY of the parser and of the regenerated tables: a known spelling
   (`spelled`: between, is_null / isnull, is_not_null / notnull / isnotnull, or an operator of `sql_meaning`) with an
   argument of the shape it takes -- between a PAIR (a str is not unpacked into two characters), is_null / is_not_null the
   flag True (False is not answered with the opposite test), in / not_in no str (its characters are not iterated) --
   and {"c": None} is not a filter.  The parser fails EXACTLY when some condition is not well-formed, and otherwise
   returns exactly the meanings of the conditions, in order: nothing is reinterpreted, nothing well-formed is refused. *)
Theorem C12_strict :
  forall (f : pyfilter),
    (forall c cd, In (c, cd) f -> well_formed cd = true) /\ parse f = Ok (flat_map (fun ccd => meaning (fst ccd) (snd ccd)) f)
    \/ (exists c cd, In (c, cd) f /\ well_formed cd = false) /\ parse f = Err EParse.
Proof. exact parse_strict. Qed.
Print Assumptions C12_strict.

(* ... a SCALAR where in / not_in take a list is never read as "a set" (a str would be the set of its characters), and a
   MAPPING is not the set of its keys: the parser refuses the filter ... *)
Theorem C12_strict_value_set :
  forall (PA : parg -> bool) (f : pyfilter) (c : Z) (s : string) (v : value),
    In (c, CPair (OpStr s) (AVal v)) f -> (sql_meaning (lower s) = Some IN \/ sql_meaning (lower s) = Some NOT_IN) ->
    prepare PA f = Err EParse.
Proof. exact value_set_scalar_raises. Qed.
Print Assumptions C12_strict_value_set.

Theorem C12_strict_value_set_mapping :
  forall (PA : parg -> bool) (f : pyfilter) (c : Z) (s : string) (vs : list value),
    In (c, CPairIter (OpStr s) IMap vs) f -> (sql_meaning (lower s) = Some IN \/ sql_meaning (lower s) = Some NOT_IN) ->
    prepare PA f = Err EParse.
Proof. exact value_set_mapping_raises. Qed.
Print Assumptions C12_strict_value_set_mapping.

(* ... and WHAT HOLDS a value set is immaterial: a filter whose in / not_in value sets are held by any other iterable --
   a set, a frozenset, a dict view, a range, or an iterator / generator that yields its elements only ONCE (`same_filter`,
   Proofs/FilterProofs.v) -- is, for every API, on every table, with pruning, the filter with the LISTS of the same values
   (to which C12_api_sql / C12_history_sql apply).  The parser reads the value set once (Model/Filter.v `value_set_iter`;
   before the repair the expression builder and file pruning each iterated it: C12_one_shot_second_reading_empty is what the
   second reader saw). *)
Theorem C12_value_set_kind_irrelevant :
  forall (X : value -> value -> bool) (E : cexpr -> row -> bool) (B : cexpr -> bool) (PA : parg -> bool)
         (sch : list Z) (ids : list (Z * Z)) (bounds : file -> list (Z * value) * list (Z * value))
         (f f' : pyfilter),
    same_filter f f' ->
    forall v split cols files,
      scan_table X E B PA sch ids bounds v cols f files = scan_table X E B PA sch ids bounds v cols f' files
      /\ scan_batches X E B PA sch ids bounds split cols f files = scan_batches X E B PA sch ids bounds split cols f' files
      /\ iter_records X E B PA sch ids bounds cols f files = iter_records X E B PA sch ids bounds cols f' files.
Proof. exact value_set_kind_irrelevant. Qed.
Print Assumptions C12_value_set_kind_irrelevant.

Theorem C12_one_shot_second_reading_empty :
  forall (vs : list value), iterate IOnce vs 0 = vs /\ iterate IOnce vs 1 = [] /\ iterate IAgain vs 1 = vs.
Proof. exact one_shot_second_reading_empty. Qed.
Print Assumptions C12_one_shot_second_reading_empty.

(* ... a filter rejected by the front end is rejected by every API on every table (the empty one and
   the all-pruned one included) ... *)
Theorem C12_strict_everywhere :
  forall (X : value -> value -> bool) (E : cexpr -> row -> bool) (B : cexpr -> bool) (PA : parg -> bool)
         (sch : list Z) (ids : list (Z * Z)) (bounds : file -> list (Z * value) * list (Z * value))
         (flt : pyfilter) (k : errk),
    prepare PA flt = Err k ->
    forall v split cols files,
      scan_table X E B PA sch ids bounds v cols flt files = Err k
      /\ scan_batches X E B PA sch ids bounds split cols flt files = Err k
      /\ iter_records X E B PA sch ids bounds cols flt files = Err k.
Proof. exact malformed_raises_everywhere. Qed.
Print Assumptions C12_strict_everywhere.

(* ... an accepted operator is used with the meaning the table gives it, and the table's meanings are
   the SQL ones (independent reading `sql_meaning` of the spellings). *)
Theorem C12_operator_faithful :
  forall (c : Z) (s : string) (a : parg) (ps : list pexpr),
    parse_one c (CPair (OpStr s) a) = Ok ps ->
    (lower s = between_key /\ exists lo hi, unpack2 a = Ok (lo, hi) /\
        ps = [ {| pcol := c; pop := GE; pval := AVal lo |}; {| pcol := c; pop := LE; pval := AVal hi |} ])
    \/ (In (lower s) is_null_aliases /\ flag_true a = true /\ ps = [ {| pcol := c; pop := IS_NULL; pval := AVal VNull |} ])
    \/ (In (lower s) is_not_null_aliases /\ flag_true a = true /\ ps = [ {| pcol := c; pop := IS_NOT_NULL; pval := AVal VNull |} ])
    \/ (exists op, assoc_str (lower s) op_table = Some op /\ text_value_set op a = false /\ ps = [ {| pcol := c; pop := op; pval := a |} ]).
Proof. exact parse_one_faithful. Qed.
Print Assumptions C12_operator_faithful.

(* the REGENERATED operator table is the independent reading of the spellings -- nothing more, nothing less -- and
   the parser's classification of a key (between / is_null aliases / is_not_null aliases / table, in the order
   parse_filter_dict tests them, all REGENERATED) is the independent one *)
Theorem C12_operator_table :
  forall (s : string), assoc_str s op_table = sql_meaning s /\ key_class s = spelled s.
Proof. exact (fun s => conj (op_table_is_sql s) (key_class_spelled s)). Qed.
Print Assumptions C12_operator_table.

Theorem C12_special_keys :
  between_key = "between"%string
  /\ (forall s, In s is_null_aliases -> s = "is_null"%string \/ s = "isnull"%string)
  /\ (forall s, In s is_not_null_aliases -> s = "is_not_null"%string \/ s = "notnull"%string \/ s = "isnotnull"%string)
  /\ In "is_null"%string is_null_aliases /\ In "is_not_null"%string is_not_null_aliases
  /\ (forall s, In s (between_key :: is_null_aliases ++ is_not_null_aliases) -> assoc_str s op_table = None).
Proof. exact special_keys_meaning. Qed.
Print Assumptions C12_special_keys.

(* Why _read_datafile_table / _iter_file_batches must filter BEFORE they project: projecting first
   makes pyarrow refuse every filter that reads a column outside the projection. *)
Theorem C12_project_after :
  forall (X : value -> value -> bool) (E : cexpr -> row -> bool) (B : cexpr -> bool) (sch cs : list Z) (e : cexpr) (rows : list row) (c : Z),
    valid_cols sch (Some cs) -> In c (fields e) -> ~ In c cs -> rows <> [] ->
    read_project_first X E B sch (Some cs) (Some e) rows = Err EEval.
Proof. exact project_first_fails. Qed.
Print Assumptions C12_project_after.

(* NOT IN with NULLs in the value set (see the header): the rows selected are those on which the SQL standard's
   three-valued NOT IN (`sql3_not_in`) is TRUE, plus those on which it is UNKNOWN only because of NULLs in the value set
   (the cell is not NULL and matches no element) ... *)
Theorem C12_not_in_nulls_dropped :
  forall (X : value -> value -> bool) (v : value) (vals : list value),
    selected X NOT_IN v VNull vals = true
    <-> sql3_not_in X v vals = TT \/ (sql3_not_in X v vals = TN /\ is_null v = false /\ existsb is_null vals = true).
Proof. exact not_in_vs_sql3. Qed.
Print Assumptions C12_not_in_nulls_dropped.

(* ... so 4 NOT IN (3, NULL) is selected here and UNKNOWN (not selected) under the SQL standard. *)
Theorem C12_not_in_null_differs_from_sql :
  forall X, selected X NOT_IN (VInt 4) VNull [VInt 3; VNull] = true /\ sql3_not_in X (VInt 4) [VInt 3; VNull] = TN.
Proof. exact not_in_null_differs_from_sql. Qed.
Print Assumptions C12_not_in_null_differs_from_sql.

(* ------------------------------------------------------------------ non-vacuity
   Table {x double, k long} in three files: [{5.0,1}; {NaN,2}], [{NULL,3}; {7.0,4}; {8.0,NULL}] and one WITHOUT rows.
   Filter {"x": ("!=", 5.0), "k": ("Not_In", [3, None])} with projection ["k"]:
   the hypotheses of C12_api_sql hold and the answer is the two rows k=2 (the NaN row) and k=4;
   the rows with x NULL or k NULL are not selected -- non-empty, NULL- and NaN-sensitive; batches of
   one row give the same; unknown operator, {"c": None}, a str as value set or as between argument and the flag False
   are not well-formed: parse errors. *)
Definition ex_X (a b : value) : bool := py_eqb a b.
Definition ex_E (_ : cexpr) (_ : row) : bool := false.
Definition ex_B (_ : cexpr) : bool := false.
Definition ex_PA (_ : parg) : bool := true.
Definition ex_sch : list Z := [0; 1].
Definition ex_ids : list (Z * Z) := [(0, 1); (1, 2)].
Definition ex_files : list file :=
  [ {| frows := [ [(0, VFlt (Fin (5 # 1))); (1, VInt 1)]; [(0, VFlt NaN); (1, VInt 2)] ]; fcs := true |};
    {| frows := [ [(0, VNull); (1, VInt 3)]; [(0, VFlt (Fin (7 # 1))); (1, VInt 4)]; [(0, VFlt (Fin (8 # 1))); (1, VNull)] ]; fcs := false |};
    {| frows := []; fcs := true |} ].
Definition ex_flt : pyfilter :=
  [ (0, CPair (OpStr "!=") (AVal (VFlt (Fin (5 # 1))))); (1, CPair (OpStr "Not_In") (AList [VInt 3; VNull])) ].
Definition ex_es : list fexpr :=
  [ {| fcol := 0; fop_ := NE; fsval := VFlt (Fin (5 # 1)); flval := [] |};
    {| fcol := 1; fop_ := NOT_IN; fsval := VNull; flval := [VInt 3; VNull] |} ].

Example C12_nonvacuous :
  exists ps ce,
    prepare ex_PA ex_flt = Ok (ps, Some ce)
    /\ map to_fexpr ps = map Some ex_es
    /\ valid_cols ex_sch (Some [1])
    /\ NoDup (map snd ex_ids)
    /\ refused ex_B (Some ce) = false
    /\ (forall f r, In f ex_files -> In r (frows f) -> eval3 ex_X ex_E ce r <> None)
    /\ scan_table ex_X ex_E ex_B ex_PA ex_sch ex_ids (stored_bounds ex_ids) false (Some [1]) ex_flt ex_files
       = Ok [ [(1, VInt 2)]; [(1, VInt 4)] ]
    /\ flat (scan_batches ex_X ex_E ex_B ex_PA ex_sch ex_ids (stored_bounds ex_ids) (chunk 1) (Some [1]) ex_flt ex_files)
       = Ok [ [(1, VInt 2)]; [(1, VInt 4)] ]
    /\ sel (Some [1]) (filter (row_selected ex_X ex_es) (concat (map frows ex_files))) = [ [(1, VInt 2)]; [(1, VInt 4)] ]
    /\ (forall c cd, In (c, cd) ex_flt -> well_formed cd = true)
    /\ parse ex_flt = Ok (flat_map (fun ccd => meaning (fst ccd) (snd ccd)) ex_flt)
    /\ map well_formed [ CPair (OpStr "gte") (AVal (VInt 1)); CPlain (AVal VNull); CPair (OpStr "IN") (AVal (VStr [97; 98]));
                         CPair (OpStr "between") (AVal (VStr [97; 98])); CPair (OpStr "is_null") (AVal (VBool false));
                         CPair OpOther (AVal (VInt 1)) ]
       = [false; false; false; false; false; false]
    /\ parse [ (0, CPair (OpStr "gte") (AVal (VInt 1))) ] = Err EParse
    /\ parse [ (0, CPlain (AVal VNull)) ] = Err EParse
    /\ parse [ (0, CPair (OpStr "in") (AVal (VStr [97; 98]))) ] = Err EParse
    /\ parse [ (0, CPair (OpStr "Between") (AVal (VStr [97; 98]))) ] = Err EParse
    /\ parse [ (0, CPair (OpStr "is_null") (AVal (VBool false))) ] = Err EParse.
Proof.
  eexists. eexists. split; [vm_compute; reflexivity|].
  split; [vm_compute; reflexivity|].
  split; [simpl; split; [discriminate|intuition]|].
  split; [repeat constructor; simpl; intuition discriminate|].
  split; [reflexivity|].
  split.
  - intros f r Hf Hr. simpl in Hf.
    destruct Hf as [<-|[<-|[<-|[]]]]; simpl in Hr; repeat (destruct Hr as [<-|Hr]; [vm_compute; discriminate|]); contradiction.
  - split; [vm_compute; reflexivity|]. split; [vm_compute; reflexivity|]. split; [vm_compute; reflexivity|].
    split; [intros c cd Hi; simpl in Hi; destruct Hi as [[= <- <-]|[[= <- <-]|[]]]; vm_compute; reflexivity|].
    vm_compute. repeat split.
Qed.

(* non-vacuity of C12_refused_raises at BINDING: table {x long} whose only data file has no rows; pyarrow cannot compare
   the long column with a string literal (B refuses `x == "x"`); the hypotheses hold -- the file is not pruned (a file
   without rows has no bounds) -- and every API raises; with the comparable literal 1 every API returns no rows. *)
Definition zx_B (e : cexpr) : bool := match e with Cmp _ 0 (AVal (VStr _)) => true | _ => false end.
Definition zx_files : list file := [ {| frows := []; fcs := true |} ].
Definition zx_flt : pyfilter := [ (0, CPlain (AVal (VStr [120]))) ].

Example C12_zero_row_file_nonvacuous :
  exists ps e f,
    prepare ex_PA zx_flt = Ok (ps, Some e) /\ valid_cols [0] None
    /\ In f (prune_p [(0, 1)] (stored_bounds [(0, 1)]) ps zx_files) /\ frows f = [] /\ zx_B e = true
    /\ scan_table ex_X ex_E zx_B ex_PA [0] [(0, 1)] (stored_bounds [(0, 1)]) false None zx_flt zx_files = Err EEval
    /\ flat (scan_batches ex_X ex_E zx_B ex_PA [0] [(0, 1)] (stored_bounds [(0, 1)]) (chunk 3) None zx_flt zx_files) = Err EEval
    /\ iter_records ex_X ex_E zx_B ex_PA [0] [(0, 1)] (stored_bounds [(0, 1)]) None zx_flt zx_files = Err EEval
    /\ iter_records ex_X ex_E zx_B ex_PA [0] [(0, 1)] (stored_bounds [(0, 1)]) None [ (0, CPlain (AVal (VInt 1))) ] zx_files = Ok [].
Proof.
  eexists. eexists. exists {| frows := []; fcs := true |}.
  split; [vm_compute; reflexivity|]. split; [exact I|]. split; [vm_compute; auto|]. vm_compute. repeat split.
Qed.

(* ------------------------------------------------------------------ non-vacuity, tables with a history
   Table {s string, k long}.  One transaction appends three files ("a"/NULL, "m", "z") -- one manifest of three entries;
   the next deletes the "z" file: the manifest is REWRITTEN with two survivors; the third deletes the "a" file and appends a
   "b" file: rewritten again, plus a new manifest.  The hypotheses of C12_history_sql hold; the manifests hold files 11
   and 13; the string bounds read back after two rewrites are still "m".."m"; {"s": ("<=", "m")} selects k = 3 and k = 5. *)
Definition hx_ids : list (Z * Z) := [(0, 1); (1, 2)].
Definition hx_file (rows : list row) : file := {| frows := rows; fcs := true |}.
Definition hx_f0 := hx_file [ [(0, VStr [97]); (1, VInt 1)]; [(0, VNull); (1, VInt 2)] ].
Definition hx_f1 := hx_file [ [(0, VStr [109]); (1, VInt 3)] ].
Definition hx_f2 := hx_file [ [(0, VStr [122]); (1, VInt 4)] ].
Definition hx_f3 := hx_file [ [(0, VStr [98]); (1, VInt 5)] ].
Definition hx_txs : list tx :=
  [ {| tx_app := [written hx_ids 10 hx_f0; written hx_ids 11 hx_f1; written hx_ids 12 hx_f2]; tx_del := [] |};
    {| tx_app := []; tx_del := [12] |};
    {| tx_app := [written hx_ids 13 hx_f3]; tx_del := [10] |} ].
Definition hx_flt : pyfilter := [ (0, CPair (OpStr "<=") (AVal (VStr [109]))) ].

Lemma hx_wf : forall f, In f [hx_f0; hx_f1; hx_f2; hx_f3] -> wf_file hx_ids (frows f).
Proof.
  intros f I c.
  destruct (Z.eqb_spec c 0) as [->|N0]; [exists KStr | destruct (Z.eqb_spec c 1) as [->|N1]; [exists KInt | exists KInt]];
    simpl in I; repeat (destruct I as [<-|I]; [|]); try contradiction;
    intros v Hv; unfold column, cell in Hv; simpl in Hv;
    try rewrite (proj2 (Z.eqb_neq c 0) N0) in Hv; try rewrite (proj2 (Z.eqb_neq c 1) N1) in Hv;
    repeat (destruct Hv as [<-|Hv]; [reflexivity|]); contradiction.
Qed.

(* non-vacuity of C12_value_set_kind_irrelevant: table {a long} of two files holding 7 and 9 (the audit's reproduction);
   {"a": ("in", iter([7]))} is the filter {"a": ("in", [7])}: the file holding 9 is pruned, the row 7 is returned (not: every
   file pruned, as when pruning reads the iterator a second time); a dict as value set is refused. *)
Definition it_files : list file := [ {| frows := [ [(0, VInt 7)] ]; fcs := true |}; {| frows := [ [(0, VInt 9)] ]; fcs := true |} ].
Definition it_flt : pyfilter := [ (0, CPairIter (OpStr "in") IOnce [VInt 7]) ].
Definition it_flt_list : pyfilter := [ (0, CPair (OpStr "in") (AList [VInt 7])) ].

Example C12_value_set_nonvacuous :
  same_filter it_flt it_flt_list
  /\ scan_table ex_X ex_E ex_B ex_PA [0] [(0, 1)] (stored_bounds [(0, 1)]) true None it_flt it_files = Ok [ [(0, VInt 7)] ]
  /\ iter_records ex_X ex_E ex_B ex_PA [0] [(0, 1)] (stored_bounds [(0, 1)]) None it_flt it_files = Ok [ [(0, VInt 7)] ]
  /\ (exists ps, parse it_flt = Ok ps /\ prune_p [(0, 1)] (stored_bounds [(0, 1)]) ps it_files = [ {| frows := [ [(0, VInt 7)] ]; fcs := true |} ])
  /\ prepare ex_PA [ (0, CPairIter (OpStr "Not_In") IMap [VInt 7]) ] = Err EParse
  /\ prepare ex_PA [ (0, CPair (OpStr "in") (AVal (VInt 7))) ] = Err EParse.
Proof.
  split.
  { constructor; [|constructor]. split; [reflexivity|]. apply sc_iter; [discriminate|left; reflexivity]. }
  split; [vm_compute; reflexivity|]. split; [vm_compute; reflexivity|].
  split; [eexists; split; vm_compute; reflexivity|]. split; vm_compute; reflexivity.
Qed.

(* a history that registers a path twice (transaction 2 appends path 11 again): the manifests hold it twice, a scan reads it
   once; the list semantics holds it twice, `dedup` once *)
Definition hx_txs2 : list tx := hx_txs ++ [ {| tx_app := [written hx_ids 11 hx_f1]; tx_del := [] |} ].
Example C12_history_same_path_twice :
  map dpath (map load (concat (run hx_txs2 []))) = [11; 13; 11]
  /\ map dpath (spec_run hx_txs2 []) = [11; 13; 11]
  /\ map dpath (table_files (run hx_txs2 [])) = [11; 13]
  /\ ~ NoDup (paths (concat (map tx_app hx_txs2))).
Proof.
  split; [vm_compute; reflexivity|]. split; [vm_compute; reflexivity|]. split; [vm_compute; reflexivity|].
  vm_compute. intro ND. inversion ND as [|? ? _ ND1]; subst. inversion ND1 as [|? ? NI _]; subst. apply NI. simpl. tauto.
Qed.

Example C12_history_nonvacuous :
  appends_written hx_ids hx_txs
  /\ NoDup (paths (concat (map tx_app hx_txs)))
  /\ map (map spath) (run hx_txs []) = [ [11]; [13] ]
  /\ map (fun e => (spath e, lookup 1 (gen_load_lower (slo e)), lookup 1 (gen_load_upper (shi e)))) (concat (run hx_txs []))
     = [ (11, Some (VStr [109]), Some (VStr [109])); (13, Some (VStr [98]), Some (VStr [98])) ]
  /\ map dpath (spec_run hx_txs []) = [11; 13]
  /\ (exists ps ce, prepare ex_PA hx_flt = Ok (ps, Some ce) /\ refused ex_B (Some ce) = false
        /\ forall f r, In f (map dfile_ (table_files (run hx_txs []))) -> In r (frows f) -> eval3 ex_X ex_E ce r <> None)
  /\ scan_table ex_X ex_E ex_B ex_PA ex_sch hx_ids (stored_bounds hx_ids) true (Some [1]) hx_flt (map dfile_ (table_files (run hx_txs [])))
     = Ok [ [(1, VInt 3)]; [(1, VInt 5)] ].
Proof.
  split.
  { intros t d It Id. simpl in It.
    repeat (destruct It as [<-|It]; [simpl in Id; repeat (destruct Id as [<-|Id]; [split; [apply hx_wf; simpl; tauto | reflexivity]|]); contradiction|]).
    contradiction. }
  split; [vm_compute; repeat constructor; simpl; intuition discriminate|].
  split; [vm_compute; reflexivity|].
  split; [vm_compute; reflexivity|].
  split; [vm_compute; reflexivity|].
  split; [|vm_compute; reflexivity].
  eexists. eexists. split; [vm_compute; reflexivity|]. split; [reflexivity|].
  intros f r Hf Hr. vm_compute in Hf.
  repeat (destruct Hf as [<-|Hf]; [simpl in Hr; repeat (destruct Hr as [<-|Hr]; [vm_compute; discriminate|]); contradiction|]).
  contradiction.
Qed.
