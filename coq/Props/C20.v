(* Props/C20.v -- Both storage backends implement the same contract.
   Only theorem statements, each closed by `exact <lemma>`, with Print Assumptions beneath, plus a
   non-vacuity Example.

   Backends  (Model/Backend.v; key mapping, listing Prefix, prefix stripping, constructor prefix and
             not-found codes are Gen/GenS3.v, regenerated from storage_backend.py on every run):
     for EVERY sequence of operations (write/read/exists/list/delete/size/mtime, open_file, and
     open_seekable followed by ANY seek/read program on the reader it returned) over canonical keys --
     no bound on its length or on the number or shape of keys -- the S3 backend over a strongly
     consistent bucket and the local backend produce the observations of the abstract store:
     contents, existence of exact keys, table-relative listings confined to the named directory,
     sizes, not-found errors.  For S3: under EVERY configured prefix (as passed to the constructor) and
     in the presence of ANY other objects in the bucket outside the table's root.  For local: when no WRITTEN
     key is a directory of another written key (a file system cannot hold both "a" and "a/b" as files); the keys
     that are only probed (exists / read / size / mtime / delete / open) are unconstrained -- a directory of a
     written key, a path below one: both backends answer for EXACT keys only (exists false, not-found, delete no-op).
     open_seekable after ANY history answers from the key's CURRENT content (C20_open_after_history), and every
     ranged GET any open issues names an object that exists, within its size (C20_open_ranges_in_objects);
     open_seekable's wiring (which key the reader reads, whose size it is given) is Gen/GenRange.v.
   Range reader (Model/Range.v over Gen/GenRange.v: the seek / readinto / readall integer kernels are REGENERATED
     from S3RangeFile on every run): for EVERY content and EVERY seek/read program the reader returns the
     bytes and positions of a plain file, a negative target is an error, every Range it sends satisfies
     0 <= first <= last < size, at most one request per read.
   Retry (Model/Retry.v; budget and permanent codes from Gen/GenS3.v): transients within the budget are
     masked, a permanent / non-retryable error surfaces at once, max+1 transients raise after exactly
     max+1 attempts, a returned value or raised error is always the operation's own last outcome; every error on an
     INDEPENDENT list of definitive S3 answers (access / credentials / bucket / the request itself refused: taken from
     the S3 error-code reference, not a subset of the library's table as found) surfaces with the attempt that met it.
   Faults inside histories (Model/BackendFault.v: the retry loop composed with every backend method as the source
     wraps it; a fault plan per operation, one entry per request, injected BEFORE or AFTER the request took effect):
     C20_s3_faulty_masks_partial -- for every history, prefix, page size and foreign objects, transient faults (at most
     max_retries per operation, at any request: the PUT that landed and was answered with an error, any page of a
     listing, get_size's HEAD or any ranged GET of an open_seekable reader) change no result, PROVIDED the request that
     would be the operation's last attempt (index max_retries) is answered and CAS writes are fault-free.
     C20_s3_faulty_masks_full (the property's sentence: transient faults within the budget, NO proviso -- neither about
     which request fails nor about CAS writes) is FALSE of the code as it is, for two independent reasons:
     C20_s3_faulty_masks_refuted: a not-found answer is retried like a transient error (C20_not_found_retried;
     C20_not_found_immediate_refuted) and uses up the budget, so ONE transient error on the (max_retries+1)-th request
     of a read of a missing key surfaces instead of FileNotFoundError;  C20_s3_faulty_masks_refuted_by_cas: write_file_cas
     is not under the retry (C20_cas_put_fault_surfaces: an error on its conditional PUT surfaces with that request, and the
     object is written when the error came after the effect).  Each proviso of _partial is needed on its own:
     C20_s3_faulty_masks_modulo_cas_refuted (CAS fault-free only), C20_s3_faulty_masks_modulo_last_attempt_refuted (last
     attempt answered only). *)
From Coq Require Import List Bool Ascii String Arith ZArith QArith Lia.
Require Import DS.Model.Str DS.Gen.GenS3 DS.Gen.GenRange DS.Model.Backend DS.Model.BackendTrace DS.Model.Range DS.Model.Retry DS.Model.Paged DS.Model.BackendFault.
Require Import DS.Proofs.BackendProofs DS.Proofs.RangeProofs DS.Proofs.RetryProofs DS.Proofs.PagedProofs DS.Proofs.BackendFaultProofs.
Import ListNotations.
Open Scope nat_scope.

(* ------------------------------------------------------------------ backends *)
Theorem C20_refine_s3 : forall (raw_prefix : str) (F : bucket) (ops : list (op key)),
  foreign_ok (gen_init_prefix raw_prefix) F -> Forall wf_op ops ->
  run_s3 raw_prefix F ops = run_spec ops.
Proof. exact refine_s3. Qed.
Print Assumptions C20_refine_s3.

(* only the WRITTEN keys are constrained; a probe may name a directory of a written key or a path below one *)
Theorem C20_refine_local : forall (ops : list (op key)),
  Forall wf_op ops -> prefix_free (written_keys ops) ->
  run_local ops = run_spec ops.
Proof. exact refine_local. Qed.
Print Assumptions C20_refine_local.

Theorem C20_backends_agree : forall (raw_prefix : str) (F : bucket) (ops : list (op key)),
  foreign_ok (gen_init_prefix raw_prefix) F -> Forall wf_op ops -> prefix_free (written_keys ops) ->
  run_s3 raw_prefix F ops = run_local ops.
Proof. exact backends_agree. Qed.
Print Assumptions C20_backends_agree.

(* the table-absolute spelling of a key ("/data/x", as manifests spell data files) names the same key in
   both backends, for every operation and any number of leading slashes *)
Theorem C20_leading_slash_same : forall (pfx : str) (b : bucket) (s : lstate) (n : nat) (o : op key),
  wf_op o ->
  s3_step pfx b (map_op (abs_join n) o) = s3_step pfx b (map_op join o)
  /\ local_step_str s (map_op (abs_join n) o) = local_step_str s (map_op join o).
Proof. exact leading_slash_same. Qed.
Print Assumptions C20_leading_slash_same.

(* open_seekable(k) on the S3 backend after ANY history on it -- writes, overwrites, deletes, earlier opens of the
   same or other keys, in any order and number: the program sees exactly what it would see on a plain file holding
   the content k has NOW, and the call raises FileNotFoundError exactly when k holds nothing now *)
Theorem C20_open_after_history : forall (raw_prefix : str) (F : bucket) (ops : list (op key)) (k : key) (prog : list rop),
  foreign_ok (gen_init_prefix raw_prefix) F -> Forall wf_op ops -> wf_key k -> Forall wf_rop prog ->
  run_s3 raw_prefix F (ops ++ [Open k prog]) =
  run_spec ops ++ [match lookup key_eqb k (spec_store ops) with Some v => file_obs v prog | None => OErr NotFound end].
Proof. exact open_after_history. Qed.
Print Assumptions C20_open_after_history.

(* "requesting only in-range bytes", inside histories: every ranged GET issued by any open_seekable reader of any
   history names an object that exists in the bucket at that moment and lies within its size *)
Theorem C20_open_ranges_in_objects : forall (page : nat) (raw_prefix : str) (F : bucket) (ops : list (op key)),
  foreign_ok (gen_init_prefix raw_prefix) F -> Forall wf_op ops ->
  ranges_in_objects page (gen_init_prefix raw_prefix) F (map (map_op join) ops).
Proof. exact ranges_in_objects_all. Qed.
Print Assumptions C20_open_ranges_in_objects.

(* ------------------------------------------------------------------ range reader *)
Theorem C20_range_equiv : forall (A : Type) (content : list A) (prog : list rop), Forall wf_rop prog ->
  let '(obs, final, ranges) := run_rf content 0 prog in
  run_file content 0 prog = (obs, final)
  /\ Forall (fun r => (0 <= fst r /\ fst r <= snd r /\ snd r < zlen content)%Z) ranges
  /\ List.length ranges <= List.length prog.
Proof. exact @range_equiv. Qed.
Print Assumptions C20_range_equiv.

Theorem C20_range_negative_seek : forall (A : Type) (content : list A) (pos off : Z) (w : whence) (new : Z),
  seek_target (zlen content) pos off w = Some new -> (new < 0)%Z ->
  rf_step content pos (Seek off w) = (pos, RErr, []).
Proof. exact @seek_negative_errs. Qed.
Print Assumptions C20_range_negative_seek.

(* a whence that is none of SEEK_SET / SEEK_CUR / SEEK_END is refused by the regenerated seek, whatever its value *)
Theorem C20_seek_invalid_whence : forall (pos size off c : Z), c <> 0%Z -> c <> 1%Z -> c <> 2%Z ->
  gen_rf_seek pos size off c = None.
Proof. exact seek_invalid_whence. Qed.
Print Assumptions C20_seek_invalid_whence.

(* ------------------------------------------------------------------ retry *)
Theorem C20_retry_masks : forall (V E : Type) (max : nat) (es : list E) (v : V) (rest : list (outcome V E)),
  List.length es <= max ->
  retry max (map (@Transient V E) es ++ Good v :: rest) = (Returned v, S (List.length es)).
Proof. exact @retry_masks. Qed.
Print Assumptions C20_retry_masks.

Theorem C20_retry_permanent : forall (V E : Type) (max : nat) (es : list E) (e : E) (rest : list (outcome V E)),
  List.length es <= max ->
  retry max (map (@Transient V E) es ++ Permanent e :: rest) = (Raised e, S (List.length es)).
Proof. exact @retry_permanent. Qed.
Print Assumptions C20_retry_permanent.

Theorem C20_retry_nonretryable : forall (V E : Type) (max : nat) (es : list E) (e : E) (rest : list (outcome V E)),
  List.length es <= max ->
  retry max (map (@Transient V E) es ++ NonRetryable e :: rest) = (Raised e, S (List.length es)).
Proof. exact @retry_nonretryable. Qed.
Print Assumptions C20_retry_nonretryable.

Theorem C20_retry_exhaust : forall (V E : Type) (max : nat) (es : list E) (e : E) (rest : list (outcome V E)),
  List.length es = max ->
  retry max (map (@Transient V E) es ++ Transient e :: rest) = (Raised e, S max).
Proof. exact @retry_exhaust. Qed.
Print Assumptions C20_retry_exhaust.

(* never a swallowed or invented value / error, for EVERY outcome script *)
Theorem C20_retry_returns_own_value : forall (V E : Type) (max : nat) (outs : list (outcome V E)) (v : V) (n : nat),
  retry max outs = (Returned v, n) ->
  exists es rest, outs = map (@Transient V E) es ++ Good v :: rest /\ n = S (List.length es) /\ List.length es <= max.
Proof. exact @retry_returns_own_value. Qed.
Print Assumptions C20_retry_returns_own_value.

Theorem C20_retry_raises_own_error : forall (V E : Type) (max : nat) (outs : list (outcome V E)) (e : E) (n : nat),
  retry max outs = (Raised e, n) ->
  exists es last rest, outs = map (@Transient V E) es ++ last :: rest /\ n = S (List.length es) /\
    (last = Permanent e \/ last = NonRetryable e \/ (last = Transient e /\ List.length es = max)).
Proof. exact @retry_raises_own_error. Qed.
Print Assumptions C20_retry_raises_own_error.

(* the same for with_s3_retry: the source's max_retries and PERMANENT_S3_ERROR_CODES, real exception classes *)
Theorem C20_s3_retry_masks : forall (V : Type) (es : list exn) (v : V) (rest : list (V + exn)),
  Forall transient_exn es -> List.length es <= gen_max_retries ->
  with_s3_retry (map inr es ++ inl v :: rest) = (Returned v, S (List.length es)).
Proof. exact @s3_retry_masks. Qed.
Print Assumptions C20_s3_retry_masks.

Theorem C20_s3_retry_permanent : forall (V : Type) (es : list exn) (e : exn) (rest : list (V + exn)),
  Forall transient_exn es -> List.length es <= gen_max_retries -> permanent_exn e ->
  with_s3_retry (map inr es ++ inr e :: rest) = (Raised e, S (List.length es)).
Proof. exact @s3_retry_permanent. Qed.
Print Assumptions C20_s3_retry_permanent.

Theorem C20_s3_retry_exhaust : forall (V : Type) (es : list exn) (e : exn) (rest : list (V + exn)),
  Forall transient_exn es -> List.length es = gen_max_retries -> transient_exn e ->
  with_s3_retry (map inr es ++ inr e :: rest) = (Raised e, S gen_max_retries).
Proof. exact @s3_retry_exhaust. Qed.
Print Assumptions C20_s3_retry_exhaust.

(* an error on the independent list of definitive S3 answers (Model/Retry.v definitive_codes, from the S3 error-code
   reference and not from the library's table: not authorised, wrong credentials, no such bucket, AND the request itself
   refused -- InvalidArgument, InvalidRequest, InvalidURI, KeyTooLongError, InvalidRange, MethodNotAllowed) surfaces with the
   attempt that met it, whatever transient errors preceded it.  The proof checks every code of the list against the
   REGENERATED table: it holds only of a library whose table contains them all *)
Theorem C20_s3_retry_definitive : forall (V : Type) (es : list exn) (e : exn) (rest : list (V + exn)),
  Forall transient_exn es -> List.length es <= gen_max_retries -> definitive e = true ->
  with_s3_retry (map inr es ++ inr e :: rest) = (Raised e, S (List.length es)).
Proof. exact @s3_retry_definitive. Qed.
Print Assumptions C20_s3_retry_definitive.

(* ------------------------------------------------------------------ faults inside histories *)
Theorem C20_s3_faulty_masks_partial : forall (page : nat) (raw_prefix : str) (F : bucket) (ops : list (op key)) (plans : list fplan),
  foreign_ok (gen_init_prefix raw_prefix) F -> Forall wf_op ops -> plans_ok gen_max_retries ops plans ->
  run_s3_f page raw_prefix F ops plans = map inl (run_spec ops).
Proof. exact s3_faulty_masks_partial. Qed.
Print Assumptions C20_s3_faulty_masks_partial.

(* the property's statement -- "transient S3 errors within the retry budget are masked without changing results": transient
   faults, at most max_retries per operation, whichever operation (the CAS writer too) and whichever request they hit --
   is false of the code as it is, for two independent reasons *)
Definition C20_s3_faulty_masks_full : Prop :=
  forall (page : nat) (raw_prefix : str) (F : bucket) (ops : list (op key)) (plans : list fplan),
  foreign_ok (gen_init_prefix raw_prefix) F -> Forall wf_op ops -> plans_budget gen_max_retries plans ->
  run_s3_f page raw_prefix F ops plans = map inl (run_spec ops).

(* reason 1: a not-found answer is retried and uses up the budget (read of a key that holds nothing, one transient error
   on request max_retries+1) *)
Theorem C20_s3_faulty_masks_refuted : ~ C20_s3_faulty_masks_full.
Proof. exact s3_faulty_masks_refuted. Qed.
Print Assumptions C20_s3_faulty_masks_refuted.

(* reason 2: write_file_cas is not under the retry (one transient error on its conditional PUT surfaces) *)
Theorem C20_s3_faulty_masks_refuted_by_cas : ~ C20_s3_faulty_masks_full.
Proof. exact s3_faulty_masks_refuted_by_cas. Qed.
Print Assumptions C20_s3_faulty_masks_refuted_by_cas.

(* C20_s3_faulty_masks_partial carries two provisos; with only ONE of them the statement is still false:
   (a) CAS writes fault-free, no proviso about which request fails (the statement formerly called _full) *)
Definition C20_s3_faulty_masks_full_modulo_cas : Prop :=
  forall (page : nat) (raw_prefix : str) (F : bucket) (ops : list (op key)) (plans : list fplan),
  foreign_ok (gen_init_prefix raw_prefix) F -> Forall wf_op ops -> plans_within gen_max_retries ops plans ->
  run_s3_f page raw_prefix F ops plans = map inl (run_spec ops).

Theorem C20_s3_faulty_masks_modulo_cas_refuted : ~ C20_s3_faulty_masks_full_modulo_cas.
Proof. exact s3_faulty_masks_modulo_cas_refuted. Qed.
Print Assumptions C20_s3_faulty_masks_modulo_cas_refuted.

(* (b) the request with index max_retries of every operation answered, CAS writes treated like every other operation *)
Definition C20_s3_faulty_masks_full_modulo_last_attempt : Prop :=
  forall (page : nat) (raw_prefix : str) (F : bucket) (ops : list (op key)) (plans : list fplan),
  foreign_ok (gen_init_prefix raw_prefix) F -> Forall wf_op ops -> plans_budget gen_max_retries plans ->
  Forall (fun pl => nth gen_max_retries pl None = None) plans ->
  run_s3_f page raw_prefix F ops plans = map inl (run_spec ops).

Theorem C20_s3_faulty_masks_modulo_last_attempt_refuted : ~ C20_s3_faulty_masks_full_modulo_last_attempt.
Proof. exact s3_faulty_masks_modulo_last_attempt_refuted. Qed.
Print Assumptions C20_s3_faulty_masks_modulo_last_attempt_refuted.

Theorem C20_not_found_retried : forall (page : nat) (pfx : str) (b : bucket) (p : str),
  has str_eqb (gen_get_s3_key pfx p) b = false ->
  s3_trace page pfx b (Read p) = repeat (RGet (gen_get_s3_key pfx p)) (S gen_max_retries)
  /\ s3_trace page pfx b (Size p) = repeat (RHead (gen_get_s3_key pfx p)) (S gen_max_retries).
Proof. exact not_found_retried. Qed.
Print Assumptions C20_not_found_retried.

Definition C20_not_found_immediate_full : Prop :=
  forall (page : nat) (pfx : str) (b : bucket) (p : str),
  has str_eqb (gen_get_s3_key pfx p) b = false -> s3_trace page pfx b (Read p) = [RGet (gen_get_s3_key pfx p)].

Theorem C20_not_found_immediate_refuted : ~ C20_not_found_immediate_full.
Proof. exact not_found_immediate_refuted. Qed.
Print Assumptions C20_not_found_immediate_refuted.

Theorem C20_cas_put_fault_surfaces : forall (budget page : nat) (pfx : str) (b : bucket) (p : str) (cur v : bytes) (w : fwhen) (e : exn) (rest : fplan),
  lookup str_eqb (gen_get_s3_key pfx p) b = Some cur ->
  (match e with ClientError c => member c gen_cas_conflict_codes = false | _ => True end) ->
  s3_step_f budget page pfx b (WriteCas p v) (None :: Some (w, e) :: rest)
  = (match w with FBefore => b | FAfter => s3_put_object b (gen_get_s3_key pfx p) v end, rest, inr e).
Proof. exact cas_put_fault_surfaces. Qed.
Print Assumptions C20_cas_put_fault_surfaces.

(* ------------------------------------------------------------------ faults inside a paginated listing
   list_files = with_s3_retry around the WHOLE listing (fresh result list and paginator per attempt).
   For EVERY page structure, EVERY fault plan over the requests of all attempts (a fault may hit the
   first page or any later page of any attempt) with only transient faults, at most `budget` of them:
   the result is exactly the fault-free listing -- no page lost, none duplicated. *)
Theorem C20_paged_listing_masks : forall (A : Type) (budget : nat) (pages : list (list A)) (pl : list (option fault)),
  all_transient pl -> nfaults pl <= budget ->
  fst (paged_list budget pages pl) = Returned (List.concat pages).
Proof. exact @paged_masks. Qed.
Print Assumptions C20_paged_listing_masks.

(* a permanent error on the request for page i surfaces with that very request (i+1 requests in all) *)
Theorem C20_paged_listing_permanent : forall (A : Type) (budget : nat) (pages : list (list A)) (i : nat) (rest : list (option fault)),
  i < List.length pages ->
  paged_list budget pages (repeat None i ++ Some FPermanent :: rest) = (Raised FPermanent, S i).
Proof. exact @paged_permanent. Qed.
Print Assumptions C20_paged_listing_permanent.

(* ------------------------------------------------------------------ non-vacuity *)
(* A table under prefix "wh/t1/" in a bucket that also holds a sibling table "wh/t10" and a stray
   object "wh/t1" : sibling-prefix keys data/x, data2/x, database, metadata/..., a delete, and listings
   of "data", "metadata", "" and "dat".  The hypotheses hold, and the S3 run gives the listed
   observations: list("data") = [data/x] only. *)
Definition k (x : string) : key := components (lit x).
Definition ex_F : bucket := [(lit "wh/t10/data/y", lit "other"); (lit "wh/t1", lit "stray"); (lit "zz", [])].
Definition ex_ops : list (op key) :=
  [ Write (k "data/x") (lit "abc"); Write (k "data2/x") (lit "de"); Write (k "database") (lit "f");
    Write (k "metadata/v1.metadata.json") (lit "{}"); Write (k "metadata.version-hint.text") (lit "1");
    ListDir (k "data"); ListDir (k "metadata"); ListDir (k "dat"); Exists (k "data/x"); Exists (k "data/y");
    Size (k "data2/x"); Delete (k "data2/x"); Read (k "data2/x"); ListDir (k ""); Read (k "data/x");
    Open (k "data/x") [Seek (-2) SeekEnd; ReadInto 5; Seek (-9) SeekCur; Tell];
    Open (k "data2/x") [ReadAll];                                  (* deleted above *)
    Write (k "data/x") (lit "z"); Open (k "data/x") [Seek 0 SeekEnd; Seek 0 SeekSet; ReadAll]; Stream (k "database");
    (* probes of names that are not keys: a directory of written keys, a path below a written key *)
    Exists (k "data"); Size (k "data"); Delete (k "data"); Mtime (k "metadata"); Read (k "data"); Open (k "data") [ReadAll];
    Read (k "database/z"); Exists (k "database/z"); Exists (k "data/x") ].

Example C20_nonvacuous :
  foreign_ok (gen_init_prefix (lit "wh/t1/")) ex_F
  /\ Forall wf_op ex_ops
  /\ prefix_free (written_keys ex_ops) /\ ~ prefix_free (op_keys ex_ops)
  /\ run_s3 (lit "wh/t1/") ex_F ex_ops =
     [ OUnit; OUnit; OUnit; OUnit; OUnit;
       OList [lit "data/x"]; OList [lit "metadata/v1.metadata.json"]; OList []; OBool true; OBool false;
       OSize 2%Z; OUnit; OErr NotFound;
       OList [lit "data/x"; lit "database"; lit "metadata/v1.metadata.json"; lit "metadata.version-hint.text"];
       OBytes (lit "abc");
       OOpened [RPos 1; RData (lit "bc"); RErr; RPos 3] 3; OErr NotFound;
       OUnit; OOpened [RPos 1; RPos 0; RData (lit "z")] 1; OBytes (lit "f");
       OBool false; OErr NotFound; OUnit; OErr NotFound; OErr NotFound; OErr NotFound; OErr NotFound; OBool false; OBool true ]
  /\ run_local ex_ops = run_s3 (lit "wh/t1/") ex_F ex_ops.
Proof.
  split; [apply foreign_okb_sound; vm_compute; reflexivity|].
  split; [apply wf_opsb_sound; vm_compute; reflexivity|].
  split; [apply prefix_freeb_sound; vm_compute; reflexivity|].
  split; [intro H; specialize (H (k "data") (k "data/x")); vm_compute in H; discriminate H; auto 30|].
  split; vm_compute; reflexivity.
Qed.

(* faults: a history whose plans satisfy the theorem's hypothesis -- a PUT that landed and was answered with an error,
   then failed once more before the request; transient errors on a read, on exists, on the second page of a listing,
   on get_size's HEAD and on a ranged GET of a reader, on a delete after its effect; a read of a missing key with two
   faults among its first attempts -- and the run gives the contract's results *)
Definition exf_ops : list (op key) :=
  [ Write (k "data/x") (lit "abc"); Write (k "data/y") (lit "de"); Write (k "data/z") (lit "f");
    Read (k "data/x"); Exists (k "data/y"); ListDir (k "data");
    Open (k "data/x") [Seek (-2) SeekEnd; ReadInto 5; Tell]; Delete (k "data/y"); Read (k "data/y"); Size (k "data/x") ].
Definition slow : exn := ClientError (lit "SlowDown").
Definition exf_plans : list fplan :=
  [ [Some (FAfter, slow); Some (FBefore, OSErr)]; []; [Some (FAfter, BotoCoreErr)];
    [Some (FBefore, slow); Some (FAfter, ClientError (lit "InternalError"))]; [Some (FAfter, slow)]; [None; Some (FBefore, slow); None; Some (FAfter, OSErr)];
    [Some (FBefore, slow); None; Some (FAfter, slow); Some (FBefore, slow)]; [Some (FAfter, slow)];
    [None; Some (FBefore, slow); None; Some (FAfter, slow)]; [] ].

Example C20_nonvacuous_faults :
  plans_ok gen_max_retries exf_ops exf_plans
  /\ run_s3_f 2 (lit "wh/t1") ex_F exf_ops exf_plans =
     map inl [ OUnit; OUnit; OUnit; OBytes (lit "abc"); OBool true; OList [lit "data/x"; lit "data/y"; lit "data/z"];
               OOpened [RPos 1; RData (lit "bc"); RPos 3] 3; OUnit; OErr NotFound; OSize 3%Z ]
  /\ run_spec exf_ops = [ OUnit; OUnit; OUnit; OBytes (lit "abc"); OBool true; OList [lit "data/x"; lit "data/y"; lit "data/z"];
                          OOpened [RPos 1; RData (lit "bc"); RPos 3] 3; OUnit; OErr NotFound; OSize 3%Z ].
Proof. split; [apply plans_okb_sound; vm_compute; reflexivity|]. split; vm_compute; reflexivity. Qed.

(* the refutation's witness, spelled out: 5 answered requests, then one transient error *)
Example C20_nonvacuous_refutation :
  plans_within gen_max_retries [Read (k "x")] [[None; None; None; None; None; Some (FBefore, slow)]]
  /\ plans_budget gen_max_retries [[None; None; None; None; None; Some (FBefore, slow)]]
  /\ run_s3_f 2 [] [] [Read (k "x")] [[None; None; None; None; None; Some (FBefore, slow)]] = [inr slow]
  /\ run_spec [Read (k "x")] = [OErr NotFound]
  /\ definitive (ClientError (lit "AccessDenied")) = true /\ definitive (ClientError (lit "KeyTooLongError")) = true
  /\ definitive slow = false /\ definitive (ClientError (lit "RequestTimeout")) = false /\ definitive (ClientError (lit "NoSuchKey")) = false.
Proof.
  split; [apply plans_withinb_sound; vm_compute; reflexivity|]. split; [apply plans_budgetb_sound; vm_compute; reflexivity|].
  repeat split; vm_compute; reflexivity.
Qed.

(* the second witness: the CAS writer after a write of the same key, one transient error on the conditional PUT (plan within
   the budget, the request with index max_retries answered): the error surfaces where the contract says the write succeeds *)
Example C20_nonvacuous_refutation_cas :
  plans_budget gen_max_retries [[]; [None; Some (FBefore, slow)]]
  /\ Forall (fun pl => nth gen_max_retries pl None = None) [[]; [None; Some (FBefore, slow)]]
  /\ ~ plans_within gen_max_retries [Write (k "x") (lit "old"); WriteCas (k "x") (lit "new")] [[]; [None; Some (FBefore, slow)]]
  /\ run_s3_f 2 [] [] [Write (k "x") (lit "old"); WriteCas (k "x") (lit "new")] [[]; [None; Some (FBefore, slow)]] = [inl OUnit; inr slow]
  /\ run_spec [Write (k "x") (lit "old"); WriteCas (k "x") (lit "new")] = [OUnit; OUnit].
Proof.
  split; [apply plans_budgetb_sound; vm_compute; reflexivity|]. split; [repeat constructor|].
  split; [intros [_ [[_ [_ H]] _]]; vm_compute in H; discriminate H|]. split; vm_compute; reflexivity.
Qed.

(* the requests of write -> open_seekable+program -> delete -> open_seekable under prefix "wh/t1": one HEAD and one
   ranged GET (bytes 1-2 of the 3-byte object) for the first open; for the open after the delete only get_size's
   HEADs (the FileNotFoundError is retried max_retries times) and NO ranged GET *)
Example C20_nonvacuous_open_requests :
  run_trace 2 (gen_init_prefix (lit "wh/t1")) ex_F
    (map (map_op join) [Write (k "data/x") (lit "abc"); Open (k "data/x") [Seek (-2) SeekEnd; ReadInto 5];
                        Delete (k "data/x"); Open (k "data/x") [ReadAll]])
  = [ [RPut (lit "wh/t1/data/x")]; [RHead (lit "wh/t1/data/x"); RGetR (lit "wh/t1/data/x") 1 2];
      [RDelete (lit "wh/t1/data/x")]; repeat (RHead (lit "wh/t1/data/x")) (S gen_max_retries) ].
Proof. vm_compute. reflexivity. Qed.

(* a range program and a retry script inside the theorems' domains, with their concrete results *)
Example C20_nonvacuous_range :
  Forall wf_rop [Seek (-2) SeekEnd; ReadInto 5; Seek (-9) SeekCur; ReadAll; Seek 1 SeekSet; ReadInto 2]
  /\ run_rf [10; 11; 12; 13]%Z 0 [Seek (-2) SeekEnd; ReadInto 5; Seek (-9) SeekCur; ReadAll; Seek 1 SeekSet; ReadInto 2]
     = ([RPos 2; RData [12; 13]; RErr; RData []; RPos 1; RData [11; 12]], 3, [(2, 3); (1, 2)])%Z.
Proof. split; [repeat constructor; simpl; lia|vm_compute; reflexivity]. Qed.

Example C20_nonvacuous_retry :
  Forall transient_exn [ClientError (lit "SlowDown"); OSErr; BotoCoreErr; ClientError (lit "NoSuchKey"); OSErr]
  /\ permanent_exn (ClientError (lit "AccessDenied"))
  /\ with_s3_retry (map inr [ClientError (lit "SlowDown"); OSErr; BotoCoreErr; ClientError (lit "NoSuchKey"); OSErr] ++ [inl 7%Z])
     = (Returned 7%Z, 6)
  /\ with_s3_retry (V := Z) [inr OSErr; inr (ClientError (lit "AccessDenied")); inl 7%Z] = (Raised (ClientError (lit "AccessDenied")), 2).
Proof. repeat split; try (vm_compute; reflexivity). repeat constructor. Qed.

(* three pages; the second page fails on the first attempt, the third page on the second attempt:
   the listing is still [1;2;3;4;5], after 2 + 3 + 3 requests *)
Example C20_nonvacuous_paged :
  all_transient [None; Some FTransient; None; None; Some FTransient]
  /\ nfaults [None; Some FTransient; None; None; Some FTransient] <= gen_max_retries
  /\ paged_list gen_max_retries [[1; 2]; [3; 4]; [5]]%Z [None; Some FTransient; None; None; Some FTransient]
     = (Returned [1; 2; 3; 4; 5]%Z, 8).
Proof.
  split; [intros f [H|[H|[H|[H|[H|[]]]]]]; congruence|]. split; vm_compute; [lia|reflexivity].
Qed.

(* write_file_cas on a key that holds "old", the tag read (one GET), then the conditional PUT answered with a transient
   error AFTER it landed: the error surfaces at once (no second PUT) and the object holds the new content *)
Example C20_nonvacuous_cas :
  s3_step_f gen_max_retries 2 (lit "p") [(lit "p/k", lit "old")] (WriteCas (lit "k") (lit "new")) [None; Some (FAfter, slow)]
  = ([(lit "p/k", lit "new")], [], inr slow)
  /\ s3_step_f gen_max_retries 2 (lit "p") [(lit "p/k", lit "old")] (WriteCas (lit "k") (lit "new")) [None; Some (FBefore, slow)]
  = ([(lit "p/k", lit "old")], [], inr slow).
Proof. split; vm_compute; reflexivity. Qed.
