(* Props/C10.v -- The version pointer is only a hint: losing or corrupting it never loses data.
   Only theorem statements, each closed by `exact <lemma>`, with Print Assumptions beneath.

   Model: Model/HintPrim.v (string primitives over classified code points), Gen/GenHint.v
   (_parse_hint_content, REGENERATED from the source on every run), Model/Hint.v (recover / resolve),
   Model/HintStore.v (the metadata directory + pointer as a SEQUENTIAL machine with ghost `published` flags;
   outcome `FailCommitPoint false` = the operation's metadata file stays behind, never published: what the code
   does on process death / KeyboardInterrupt between the two writes, an ambiguous conditional PUT, a failed
   best-effort removal).

   Two parts of the property's text are NOT true of the code and are not claimed.  Following DESIGN.md section 4
   the full statements are kept as Definitions with their refutations, the theorems carry the exact extra hypothesis:
     ~ stale p st      a STALE pointer (one that names an existing file other than the latest published one) is
                       trusted as it is: C10_resolve_full_refuted (known finding F-C10c);
     safe_use p st     with the pointer unusable, a NEVER-PUBLISHED file whose version is higher than the latest
                       published one (or equal, with an mtime that is not older) wins the recovery scan:
                       C10_resolve_full_refuted_leftover, C10_never_uncommitted_full_refuted, and exactly when:
                       C10_recovery_safe_iff / C10_leftover_surfaces.  No durable commit record other than the
                       pointer exists, so recovery cannot tell such a file from a published version whose pointer
                       write was lost.
   The `_clean_` theorems are the same statements over histories in which no file is ever left behind
   (reachable_clean: there every stored file is published); they need no assumption on file names. *)
From Coq Require Import ZArith NArith List Bool Permutation.
Require Import DS.Model.HintPrim DS.Gen.GenHint DS.Gen.GenHintPins DS.Model.Hint DS.Model.HintStore.
Require Import DS.Proofs.HintProofs DS.Proofs.HintStoreProofs DS.Proofs.HintLeftoverProofs DS.Proofs.HintUnusableProofs.
Import ListNotations.
Open Scope N_scope.

(* The hand-written matcher Model/HintPrim.v re_match implements exactly this pattern text; the
   left-hand side is regenerated from the source of _METADATA_FILE_RE on every run. *)
Theorem C10_pattern_pinned :
  gen_metadata_file_re = re_pattern_codes
  /\ gen_metadata_path = [109;101;116;97;100;97;116;97]                                           (* "metadata" *)
  /\ gen_hint_path = [109;101;116;97;100;97;116;97;46;118;101;114;115;105;111;110;45;104;105;110;116;46;116;101;120;116].
Proof. repeat split. Qed.
Print Assumptions C10_pattern_pinned.

(* _parse_hint_content never raises: for EVERY pointer content -- undecodable bytes, or any text
   over any classified code points (any length, any mix of spaces, decimal digits of any script,
   digit-like characters int() rejects, anything else) -- it returns None or a (version, name).
   Stated over the decision structure regenerated from the source on every run. *)
Theorem C10_parse_total : forall (content : option (list cp)), exists r, parse_hint content = PRet r.
Proof. exact parse_total. Qed.
Print Assumptions C10_parse_total.

(* What commit() and initialize_table() write into the pointer -- the name
   f"v{version}-{hex8}.metadata.json" -- parses back to exactly that version and name,
   for every version str() can print and every 8-hex-digit suffix. *)
Theorem C10_parse_write : forall (v : N) (id : list N), printable v = true -> wf_id id = true ->
  parse_hint (Some (render_name v id)) = PRet (Some (v, render_name v id)).
Proof. exact parse_write. Qed.
Print Assumptions C10_parse_write.

(* The legacy pointer form (a bare version number) names v<N>.metadata.json. *)
Theorem C10_parse_legacy : forall (v : N), printable v = true ->
  parse_hint (Some (map digit_cp (digits_of v)))
  = PRet (Some (v, lit [118] ++ map digit_cp (digits_of v) ++ lit suffix_codes)).
Proof. exact parse_legacy. Qed.
Print Assumptions C10_parse_legacy.

(* Resolution yields the latest committed version.
   For EVERY history of creates, commits and pointer damage from the empty directory -- any length; commits that
   succeed, fail before writing anything, fail at the commit point and are cleaned up, OR LEAVE THEIR METADATA FILE
   BEHIND (dead writer, interrupt, ambiguous PUT, failed removal); any file ids that do not collide with a stored
   name, ANY mtimes, any listing positions; the pointer deleted or overwritten with any non-stale content at any
   moment; no commit built on a never-published version (ok_event_lv) --
   for EVERY final pointer content p that is not stale and whose use is SAFE (p names the latest published file, or
   every never-published file ranks below it) and EVERY order l in which the backend lists the metadata directory:
     _current_version_info() returns the version and name of the latest published file L,
     refresh() reads L, L was published, and L holds exactly the acknowledged snapshots. *)
Theorem C10_resolve_partial : forall (st : store) (L : mfile) (p : option (option (list cp))) (l : list mfile),
  reachable_lv st -> glatest st = Some L -> ascii_classified p -> ~ stale p st -> safe_use p st ->
  Permutation l (files st) ->
  (exists name, resolve p (map entry_of l) = RRet (Some (fver L, name)) /\ codes name = codes (fname L))
  /\ refresh_of p l = RfMeta (fver L) L
  /\ In L (files st) /\ fcom L = true /\ fsnaps L = gacked st.
Proof. exact resolve_lv. Qed.
Print Assumptions C10_resolve_partial.

(* The same over CLEAN histories (no operation leaves a file behind: every stored file is published, safe_use is
   trivially true), without any assumption on file ids. *)
Theorem C10_resolve_clean_partial : forall (st : store) (L : mfile) (p : option (option (list cp))) (l : list mfile),
  reachable_clean st -> glatest st = Some L -> ascii_classified p -> ~ stale p st -> Permutation l (files st) ->
  (exists name, resolve p (map entry_of l) = RRet (Some (fver L, name)) /\ codes name = codes (fname L))
  /\ refresh_of p l = RfMeta (fver L) L
  /\ In L (files st) /\ fcom L = true /\ fsnaps L = gacked st.
Proof. exact resolve_reachable. Qed.
Print Assumptions C10_resolve_clean_partial.

(* The property's full text ("for any content of the version pointer file ... resolves to the latest committed
   metadata version"): no `~ stale`, no `safe_use`.  It is false of the code in two independent ways:
   (1) after create, commit, commit, a pointer naming version 1 resolves to version 1 (known finding F-C10c);
   (2) after create, commit, and a commit whose metadata file stays behind unpublished, a MISSING pointer
       resolves to that never-published version 2 (nothing stale anywhere). *)
Definition C10_resolve_full : Prop := forall (st : store) (L : mfile) (p : option (option (list cp))) (l : list mfile),
  reachable_lv st -> glatest st = Some L -> ascii_classified p -> Permutation l (files st) ->
  exists name, resolve p (map entry_of l) = RRet (Some (fver L, name)) /\ codes name = codes (fname L).

Theorem C10_resolve_full_refuted : ~ C10_resolve_full.
Proof. exact resolve_full_lv_refuted_stale. Qed.
Print Assumptions C10_resolve_full_refuted.

Theorem C10_resolve_full_refuted_leftover : ~ C10_resolve_full.
Proof. exact resolve_full_lv_refuted_leftover. Qed.
Print Assumptions C10_resolve_full_refuted_leftover.

(* Never re-initialised: over ANY directory that holds at least one metadata file (reachable_clean or not) and for
   EVERY pointer content whatsoever (stale ones included), create_table / Table(create_if_not_exists=True)
   changes nothing -- no file written, pointer untouched, hence same table uuid, same snapshots. *)
Theorem C10_no_reinit : forall (p : option (option (list cp))) (fs : list mfile) (gl : option mfile) (ga : list N)
                               (id : list N) (t : Z) (pos : nat) (uuid : N) (o : outcome),
  Forall wf_file fs -> fs <> [] ->
  step {| ptr := p; files := fs; glatest := gl; gacked := ga |} (ECreate id t pos uuid o)
  = {| ptr := p; files := fs; glatest := gl; gacked := ga |}.
Proof. exact no_reinit. Qed.
Print Assumptions C10_no_reinit.

(* Recovery never surfaces a version that was never committed -- under the same two hypotheses: over every history
   with leftovers, for every non-stale pointer content whose use is safe and every listing order, whatever
   _current_version_info() returns is the name of a stored file whose commit point succeeded. *)
Theorem C10_never_uncommitted_partial : forall (st : store) (p : option (option (list cp))) (l : list mfile) (v : N) (name : list cp),
  reachable_lv st -> ascii_classified p -> ~ stale p st -> safe_use p st -> Permutation l (files st) ->
  resolve p (map entry_of l) = RRet (Some (v, name)) ->
  exists f, In f (files st) /\ name_eqb (fname f) name = true /\ fcom f = true.
Proof. exact never_uncommitted_lv. Qed.
Print Assumptions C10_never_uncommitted_partial.

(* The property's sentence itself (no `safe_use`): false of the code.  Witness: create; commit; a commit whose
   metadata file v2-22222222 stays behind unpublished (its writer died before the pointer write); the pointer is
   then missing: resolution returns v2-22222222, and no published file has that name. *)
Definition C10_never_uncommitted_full : Prop :=
  forall (st : store) (p : option (option (list cp))) (l : list mfile) (v : N) (name : list cp),
  reachable_lv st -> ascii_classified p -> ~ stale p st -> Permutation l (files st) ->
  resolve p (map entry_of l) = RRet (Some (v, name)) ->
  exists f, In f (files st) /\ name_eqb (fname f) name = true /\ fcom f = true.

Theorem C10_never_uncommitted_full_refuted : ~ C10_never_uncommitted_full.
Proof. exact never_uncommitted_full_refuted. Qed.
Print Assumptions C10_never_uncommitted_full_refuted.

(* ... and not only in that witness: in EVERY store reachable with leftovers, a never-published (or any) file U that
   outranks the latest published L -- higher version, or the same version and a newer mtime -- makes EVERY pointer
   the code cannot use (Model/HintStore.v `unusable`: no pointer file, undecodable / blank / unparseable content, OR
   content that parses and names a file that is not stored) resolve, in every listing order, to a NEVER-PUBLISHED
   file that outranks L. *)
Theorem C10_leftover_surfaces : forall (st : store) (L U : mfile) (p : option (option (list cp))) (l : list mfile),
  reachable_lv st -> glatest st = Some L -> In U (files st) -> above U L -> unusable p (files st) ->
  Permutation l (files st) ->
  exists r, In r (files st) /\ fcom r = false /\ above r L
            /\ resolve p (map entry_of l) = RRet (Some (fver r, fname r)).
Proof. exact leftover_surfaces_unusable. Qed.
Print Assumptions C10_leftover_surfaces.

(* Exactly when recovery is safe, for ANY directory of metadata files with distinct names (reachable or not) and ANY
   pointer the code cannot use (lost, unparseable, or naming a file that is not stored): recovery yields L in EVERY listing order if and only if every other file has a
   lower version, or the same version and a strictly older mtime.  (With an equal mtime the first one listed wins:
   Proofs/HintStoreProofs.v tiebreak_equal_mtime_first_listed.) *)
Theorem C10_recovery_safe_iff : forall (fs : list mfile) (L : mfile) (p : option (option (list cp))),
  Forall wf_file fs -> names_unique fs -> In L fs -> unusable p fs ->
  ((forall l, Permutation l fs -> resolve p (map entry_of l) = RRet (Some (fver L, fname L)))
   <-> others_below fs L).
Proof. exact recovery_safe_iff_unusable. Qed.
Print Assumptions C10_recovery_safe_iff.

(* What _recover_version_from_files computes, exactly: the FIRST LISTED file among those of the highest
   (version, mtime) -- every earlier file ranks strictly below it, no later file outranks it. *)
Theorem C10_recover_exact : forall (l1 : list mfile) (x : mfile) (l2 : list mfile),
  Forall wf_file (l1 ++ x :: l2) -> (forall f, In f l1 -> below f x) -> (forall f, In f l2 -> not_above f x) ->
  recover (map entry_of (l1 ++ x :: l2)) = RRet (Some (fver x, fname x)).
Proof. exact recover_exact. Qed.
Print Assumptions C10_recover_exact.

(* Whatever resolution returns names a listed file: any directory, EVERY pointer content (stale ones included). *)
Theorem C10_resolves_to_listed : forall (fs : list mfile) (p : option (option (list cp))) (v : N) (name : list cp),
  Forall wf_file fs -> resolve p (map entry_of fs) = RRet (Some (v, name)) ->
  exists f, In f fs /\ name_eqb (fname f) name = true.
Proof. exact resolves_to_listed. Qed.
Print Assumptions C10_resolves_to_listed.

(* Recovery orders versions as numbers: from any directory of rendered metadata files (any versions, with any
   number of decimal digits -- 9 and 10, 99 and 100, ...), whatever _recover_version_from_files returns is a listed
   file whose version is numerically >= every listed version.  (Proofs/HintStoreProofs.v recover_nine_ten: the
   concrete 9-versus-10 instance, in both listing orders, with the mtimes favouring 9.) *)
Theorem C10_recover_highest : forall (fs : list mfile) (v : N) (name : list cp),
  Forall wf_file fs -> recover (map entry_of fs) = RRet (Some (v, name)) ->
  exists r, In r fs /\ v = fver r /\ name = fname r /\ forall f, In f fs -> fver f <= fver r.
Proof. exact recover_highest. Qed.
Print Assumptions C10_recover_highest.

(* Same-version leftovers (what an AMBIGUOUS failed commit keeps on purpose): with the pointer lost or
   unparseable, recovery still picks the published file L as long as every other file has a lower version or
   the same version and a strictly older mtime -- in every listing order, for any directory (reachable_clean or
   not).  With EQUAL mtimes the first file listed wins (tiebreak_equal_mtime_first_listed), so nothing is
   claimed there. *)
Theorem C10_tiebreak : forall (fs : list mfile) (L : mfile) (p : option (option (list cp))),
  Forall wf_file fs -> In L fs -> (forall f, In f fs -> f <> L -> below f L) -> read_hint p = PRet None ->
  resolve p (map entry_of fs) = RRet (Some (fver L, fname L)).
Proof. exact tiebreak. Qed.
Print Assumptions C10_tiebreak.

(* Readable and writable with all committed data: after ANY non-stale damage to the pointer of any store reachable
   with leftovers, provided the use of the damaged pointer is safe, a commit (whose file name does not collide with a
   stored one) goes through, builds on the latest committed version (same uuid, exactly the acknowledged snapshots
   plus the new one), repairs the pointer, and the result is reachable again. *)
Theorem C10_usable_partial : forall (st : store) (L : mfile) (p : option (option (list cp))) (id : list N) (t : Z) (pos : nat) (sid : N),
  reachable_lv st -> glatest st = Some L -> ascii_classified p -> ~ stale p st -> safe_use p st ->
  wf_id id = true -> printable (fver L + 1) = true ->
  (forall f, In f (files st) -> name_eqb (fname f) (render_name (fver L + 1) id) = false) ->
  let st' := run st [EDamage p; ECommit id t pos sid Ok] in
  reachable_lv st'
  /\ exists L', glatest st' = Some L' /\ fver L' = fver L + 1 /\ fsnaps L' = gacked st ++ [sid]
               /\ gacked st' = gacked st ++ [sid] /\ fuuid L' = fuuid L
               /\ ptr st' = Some (Some (fname L')) /\ In L' (files st') /\ fcom L' = true.
Proof. exact usable_lv. Qed.
Print Assumptions C10_usable_partial.

(* The same over clean histories, without any assumption on file ids. *)
Theorem C10_usable_clean_partial : forall (st : store) (L : mfile) (p : option (option (list cp))) (id : list N) (t : Z) (pos : nat) (sid : N),
  reachable_clean st -> glatest st = Some L -> ascii_classified p -> ~ stale p st -> wf_id id = true ->
  printable (fver L + 1) = true ->
  let st' := run st [EDamage p; ECommit id t pos sid Ok] in
  reachable_clean st'
  /\ exists L', glatest st' = Some L' /\ fver L' = fver L + 1 /\ fsnaps L' = gacked st ++ [sid]
               /\ gacked st' = gacked st ++ [sid] /\ fuuid L' = fuuid L
               /\ ptr st' = Some (Some (fname L')) /\ In L' (files st') /\ fcom L' = true.
Proof. exact usable_after_damage. Qed.
Print Assumptions C10_usable_clean_partial.

(* Non-vacuity: a concrete history -- create; commit; a commit failing at the commit point (cleaned up);
   the pointer overwritten with U+00B2 (isdigit, not decimal: the content that used to raise); a commit
   through the damaged pointer; the pointer deleted; a commit failing early; the pointer set to a legacy
   number naming a missing file -- satisfies the hypotheses, reaches a store with three files and two
   acknowledged snapshots, and resolves an undecodable pointer to version 2. *)
Definition sup2 : cp := {| code := 178; sp := false; dec := None; dig := true |}.
Definition ex_history : list event :=
  [ ECreate (wid 0) 10 0 77 Ok;
    ECommit (wid 1) 20 0 101 Ok;
    ECommit (wid 2) 20 1 102 (FailCommitPoint true);
    EDamage (Some (Some [sup2]));
    ECommit (wid 3) 5 0 103 Ok;
    EDamage None;
    ECommit (wid 4) 30 2 104 FailEarly;
    EDamage (Some (Some (lit [32; 55; 10]))) ].

Example C10_nonvacuous :
  ok_history empty_store ex_history
  /\ let st := run empty_store ex_history in
     length (files st) = 3%nat /\ gacked st = [101; 103]
     /\ (exists L, glatest st = Some L /\ fver L = 2 /\ fsnaps L = [101; 103] /\ fuuid L = 77)
     /\ ascii_classified (Some None) /\ ~ stale (Some None) st
     /\ resolve (Some None) (listing st) = RRet (Some (2, render_name 2 (wid 3)))
     /\ parse_hint (Some [sup2]) = PRet None.
Proof.
  assert (NS : forall p st, read_hint p = PRet None -> ~ stale p st).
  { intros p st H [v [name [f [H' _]]]]. rewrite H in H'. discriminate H'. }
  split.
  - cbn [ok_history ex_history ok_event]. repeat split; try reflexivity; try discriminate.
    + intros c [<-|[]] H. vm_compute in H. discriminate H.
    + apply NS. reflexivity.
    + apply NS. reflexivity.
    + intros c Hc _. apply (lit_classified [32; 55; 10]). exact Hc.
    + intros [v [name [f [H [Hf [Hn _]]]]]]. vm_compute in H. inversion H; subst v name. clear H.
      vm_compute in Hf. repeat destruct Hf as [Hf|Hf]; try contradiction; subst f; vm_compute in Hn; discriminate Hn.
  - remember (run empty_store ex_history) as st eqn:E. vm_compute in E. subst st. cbv zeta.
    split; [reflexivity|]. split; [reflexivity|].
    split; [eexists; repeat split|].
    split; [exact I|]. split; [apply NS; reflexivity|].
    split; vm_compute; reflexivity.
Qed.

(* Non-vacuity of the leftover theorems: create; commit; a commit whose file v2-22222222 stays behind; a commit
   through the intact pointer (v2-33333333, newer mtime: the leftover now ranks below it); the pointer deleted; a
   commit through the lost pointer (safe: every leftover ranks below); a commit whose file v4-55555555 stays behind.
   The history satisfies the hypotheses; the store holds six files, two of them never published; through the intact
   pointer resolution is safe and yields version 3; with the pointer lost it is NOT safe and yields the
   never-published version 4; before the last event a lost pointer resolved to the published version 3. *)
Definition ex_leftover_history : list event :=
  [ ECreate (wid 0) 10 0 77 Ok;
    ECommit (wid 1) 20 0 101 Ok;
    ECommit (wid 2) 30 0 102 (FailCommitPoint false);
    ECommit (wid 3) 40 1 103 Ok;
    EDamage None;
    ECommit (wid 4) 50 0 104 Ok;
    ECommit (wid 5) 60 2 105 (FailCommitPoint false) ].

Example C10_nonvacuous_leftover :
  ok_history_lv empty_store ex_leftover_history
  /\ (let st := run empty_store (firstn 6 ex_leftover_history) in
      leftovers_below st /\ safe_use None st /\ resolve None (listing st) = RRet (Some (3, render_name 3 (wid 4))))
  /\ let st := run empty_store ex_leftover_history in
     length (files st) = 6%nat /\ gacked st = [101; 103; 104]
     /\ (exists U, In U (files st) /\ fcom U = false /\ fver U = 2)
     /\ (exists L, glatest st = Some L /\ fver L = 3 /\ fsnaps L = [101; 103; 104] /\ fuuid L = 77)
     /\ safe_use (ptr st) st /\ ~ stale (ptr st) st
     /\ resolve (ptr st) (listing st) = RRet (Some (3, render_name 3 (wid 4)))
     /\ ~ safe_use None st
     /\ resolve None (listing st) = RRet (Some (4, render_name 4 (wid 5))).
Proof.
  assert (LB : leftovers_below (run empty_store (firstn 6 ex_leftover_history))).
  { intros f Hf Hc. vm_compute in Hf.
    repeat (destruct Hf as [<-|Hf]; [vm_compute in Hc; try discriminate Hc; vm_compute; first [left; reflexivity|right; split; reflexivity]|]).
    destruct Hf. }
  split; [|split].
  - cbn [ok_history_lv ex_leftover_history].
    split; [lv_create|]. split; [lv_commit|]. split; [lv_commit|]. split; [lv_commit|].
    split; [split; [exact I|apply none_not_stale]|].
    split; [|split; [lv_commit|exact I]].
    split; [reflexivity|]. split; [lv_written|].
    intros _. right. intros f Hf Hc. vm_compute in Hf.
    repeat (destruct Hf as [<-|Hf]; [vm_compute in Hc; try discriminate Hc; vm_compute; first [left; reflexivity|right; split; reflexivity]|]).
    destruct Hf.
  - cbv zeta. split; [exact LB|]. split; [right; exact LB|vm_compute; reflexivity].
  - remember (run empty_store ex_leftover_history) as st eqn:E. vm_compute in E. subst st. cbv zeta.
    split; [reflexivity|]. split; [reflexivity|].
    split.
    { exists {| fver := 2; fid := wid 2; fmt := 30; fcom := false; fuuid := 77; fsnaps := [101; 102] |}.
      split; [repeat (first [left; reflexivity|right])|split; reflexivity]. }
    split; [eexists; repeat split|].
    split; [left; eexists; split; vm_compute; reflexivity|].
    split.
    { intros [v [name [f [H [Hf [Hn HL]]]]]]. vm_compute in H. inversion H; subst v name. clear H.
      vm_compute in Hf. repeat (destruct Hf as [<-|Hf]; [vm_compute in Hn; try discriminate Hn; apply HL; reflexivity|]).
      destruct Hf. }
    split; [vm_compute; reflexivity|].
    split; [|vm_compute; reflexivity].
    intros [[L [_ Hn]]|Hlb]; [exact Hn|].
    assert (HU : In {| fver := 4; fid := wid 5; fmt := 60; fcom := false; fuuid := 77; fsnaps := [101; 103; 104; 105] |}
                    (files (run empty_store ex_leftover_history))) by (vm_compute; repeat (first [left; reflexivity|right])).
    vm_compute in HU. specialize (Hlb _ HU eq_refl). vm_compute in Hlb.
    destruct Hlb as [H|[H _]]; discriminate H.
Qed.

(* Non-vacuity of `unusable` beyond the old hypothesis (read_hint p = PRet None): in the final store of
   ex_leftover_history a pointer holding the well-formed name v9-99999999.metadata.json, and one holding the legacy
   number 7, PARSE (read_hint returns a version and a name) and name no stored file; both are unusable, both resolve
   by the scan -- to the never-published version 4; while the store's own pointer (naming the stored v3-44444444) is
   NOT unusable and is trusted. *)
Example C10_nonvacuous_unusable :
  let st := run empty_store ex_leftover_history in
  let dangling := Some (Some (render_name 9 (wid 9))) in
  let legacy := Some (Some (lit [55])) in
  read_hint dangling = PRet (Some (9, render_name 9 (wid 9))) /\ unusable dangling (files st)
  /\ resolve dangling (listing st) = RRet (Some (4, render_name 4 (wid 5)))
  /\ (exists nm, read_hint legacy = PRet (Some (7, nm))) /\ unusable legacy (files st)
  /\ resolve legacy (listing st) = RRet (Some (4, render_name 4 (wid 5)))
  /\ unusable None (files st) /\ unusable (Some None) (files st)
  /\ ~ unusable (ptr st) (files st)
  /\ resolve (ptr st) (listing st) = RRet (Some (3, render_name 3 (wid 4))).
Proof.
  cbv zeta.
  split; [vm_compute; reflexivity|].
  split; [right; eexists; eexists; split; vm_compute; reflexivity|].
  split; [vm_compute; reflexivity|].
  split; [eexists; vm_compute; reflexivity|].
  split; [right; eexists; eexists; split; vm_compute; reflexivity|].
  split; [vm_compute; reflexivity|].
  split; [left; reflexivity|]. split; [left; reflexivity|].
  split; [|vm_compute; reflexivity].
  intros [H|[v [name [H Hex]]]]; [vm_compute in H; discriminate H|].
  vm_compute in H. inversion H; subst v name. clear H. vm_compute in Hex. discriminate Hex.
Qed.
