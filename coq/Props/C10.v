(* Props/C10.v -- The version pointer is only a hint: losing or corrupting it never loses data.
   Only theorem statements, each closed by `exact <lemma>`, with Print Assumptions beneath.

   Model: Model/HintPrim.v (string primitives over classified code points), Gen/GenHint.v
   (_parse_hint_content, REGENERATED from the source on every run), Model/Hint.v (recover / resolve),
   Model/HintStore.v (the metadata directory + pointer as a sequential machine with ghost `published`
   flags).  The model is that of the REPAIRED code (fix commits 5fd880e, 9ac6748, a9fa40b on the library
   branch agent/c10).

   One part of the property's text is NOT true of the code and is not claimed: a STALE pointer (one that
   names an existing, older version) is trusted as it is.  Following DESIGN.md section 4 this file keeps
   the full statement as a Definition (C10_resolve_full), its refutation (C10_resolve_full_refuted) and
   the theorem with the exact extra hypothesis `~ stale p st` (C10_resolve_partial). *)
From Coq Require Import ZArith NArith List Bool Permutation.
Require Import DS.Model.HintPrim DS.Gen.GenHint DS.Gen.GenHintPins DS.Model.Hint DS.Model.HintStore.
Require Import DS.Proofs.HintProofs DS.Proofs.HintStoreProofs.
Import ListNotations.
Open Scope N_scope.

(* The hand-written matcher Model/HintPrim.v re_match implements exactly this pattern text; the
   left-hand side is regenerated from the source of _METADATA_FILE_RE on every run. *)
Theorem C10_pattern_pinned :
  gen_metadata_file_re = re_pattern_codes
  /\ gen_metadata_path = [109;101;116;97;100;97;116;97]                                           (* "metadata" *)
  /\ gen_hint_path = [109;101;116;97;100;97;116;97;46;118;101;114;115;105;111;110;45;104;105;110;116;46;116;101;120;116].
Proof. repeat split. Qed.
Print Assumptions C10_pattern_pinned.

(* _parse_hint_content never raises: for EVERY pointer content -- undecodable bytes, or any text
   over any classified code points (any length, any mix of spaces, decimal digits of any script,
   digit-like characters int() rejects, anything else) -- it returns None or a (version, name).
   Stated over the decision structure regenerated from the source on every run. *)
Theorem C10_parse_total : forall (content : option (list cp)), exists r, parse_hint content = PRet r.
Proof. exact parse_total. Qed.
Print Assumptions C10_parse_total.

(* What commit() and initialize_table() write into the pointer -- the name
   f"v{version}-{hex8}.metadata.json" -- parses back to exactly that version and name,
   for every version str() can print and every 8-hex-digit suffix. *)
Theorem C10_parse_write : forall (v : N) (id : list N), printable v = true -> wf_id id = true ->
  parse_hint (Some (render_name v id)) = PRet (Some (v, render_name v id)).
Proof. exact parse_write. Qed.
Print Assumptions C10_parse_write.

(* The legacy pointer form (a bare version number) names v<N>.metadata.json. *)
Theorem C10_parse_legacy : forall (v : N), printable v = true ->
  parse_hint (Some (map digit_cp (digits_of v)))
  = PRet (Some (v, lit [118] ++ map digit_cp (digits_of v) ++ lit suffix_codes)).
Proof. exact parse_legacy. Qed.
Print Assumptions C10_parse_legacy.

(* Resolution yields the latest committed version.
   For EVERY history of creates, commits and pointer damage from the empty directory -- any length; commits
   that succeed, fail before writing anything, or fail at the commit point (fence, pointer write, CAS) and
   are cleaned up; any file ids, ANY mtimes (equal, decreasing), any listing positions; the pointer
   deleted or overwritten with any non-stale content at any moment, with commits continuing afterwards --
   for EVERY final pointer content p that is not stale (missing, undecodable, empty, garbage, legacy
   number, name of a missing file, the right name with whitespace around it ...) and EVERY order l in which
   the backend lists the metadata directory:
     _current_version_info() returns the version and name of the latest published file L,
     refresh() reads L, L was published, and L holds exactly the acknowledged snapshots. *)
Theorem C10_resolve_partial : forall (st : store) (L : mfile) (p : option (option (list cp))) (l : list mfile),
  reachable st -> glatest st = Some L -> ascii_classified p -> ~ stale p st -> Permutation l (files st) ->
  (exists name, resolve p (map entry_of l) = RRet (Some (fver L, name)) /\ codes name = codes (fname L))
  /\ refresh_of p l = RfMeta (fver L) L
  /\ In L (files st) /\ fcom L = true /\ fsnaps L = gacked st.
Proof. exact resolve_reachable. Qed.
Print Assumptions C10_resolve_partial.

(* The same without `~ stale p st` is the property's full text ("... stale) ... resolves to the latest
   committed metadata version").  It is false of the code: after create, commit, commit, a pointer naming
   version 1 resolves to version 1.  Known finding F-C10c. *)
Definition C10_resolve_full : Prop := forall (st : store) (L : mfile) (p : option (option (list cp))) (l : list mfile),
  reachable st -> glatest st = Some L -> ascii_classified p -> Permutation l (files st) ->
  exists name, resolve p (map entry_of l) = RRet (Some (fver L, name)) /\ codes name = codes (fname L).

Theorem C10_resolve_full_refuted : ~ C10_resolve_full.
Proof. exact resolve_full_refuted. Qed.
Print Assumptions C10_resolve_full_refuted.

(* Never re-initialised: over ANY directory that holds at least one metadata file (reachable or not) and for
   EVERY pointer content whatsoever (stale ones included), create_table / Table(create_if_not_exists=True)
   changes nothing -- no file written, pointer untouched, hence same table uuid, same snapshots. *)
Theorem C10_no_reinit : forall (p : option (option (list cp))) (fs : list mfile) (gl : option mfile) (ga : list N)
                               (id : list N) (t : Z) (pos : nat) (uuid : N) (o : outcome),
  Forall wf_file fs -> fs <> [] ->
  step {| ptr := p; files := fs; glatest := gl; gacked := ga |} (ECreate id t pos uuid o)
  = {| ptr := p; files := fs; glatest := gl; gacked := ga |}.
Proof. exact no_reinit. Qed.
Print Assumptions C10_no_reinit.

(* Recovery never surfaces a version that was never committed: in every reachable store, for EVERY
   pointer content (stale ones included) and every listing order, whatever _current_version_info()
   returns is the name of a file whose commit point succeeded. *)
Theorem C10_never_uncommitted : forall (st : store) (p : option (option (list cp))) (l : list mfile) (v : N) (name : list cp),
  reachable st -> Permutation l (files st) ->
  resolve p (map entry_of l) = RRet (Some (v, name)) ->
  exists f, In f (files st) /\ name_eqb (fname f) name = true /\ fcom f = true.
Proof. exact never_uncommitted. Qed.
Print Assumptions C10_never_uncommitted.

(* ... and that rests on the failed commit's metadata file being removed (fix 9ac6748): with a failed
   commit whose file stays behind, a lost pointer resolves to that never-published file. *)
Theorem C10_unremoved_orphan_surfaces :
  exists h, Forall any_event_wf h /\
    let st := run empty_store h in
    exists f, In f (files st) /\ fcom f = false /\ resolve None (listing st) = RRet (Some (fver f, fname f)).
Proof. exact unremoved_orphan_surfaces. Qed.
Print Assumptions C10_unremoved_orphan_surfaces.

(* Recovery orders versions as numbers: from any directory of rendered metadata files (any versions, with any
   number of decimal digits -- 9 and 10, 99 and 100, ...), whatever _recover_version_from_files returns is a listed
   file whose version is numerically >= every listed version.  (Proofs/HintStoreProofs.v recover_nine_ten: the
   concrete 9-versus-10 instance, in both listing orders, with the mtimes favouring 9.) *)
Theorem C10_recover_highest : forall (fs : list mfile) (v : N) (name : list cp),
  Forall wf_file fs -> recover (map entry_of fs) = RRet (Some (v, name)) ->
  exists r, In r fs /\ v = fver r /\ name = fname r /\ forall f, In f fs -> fver f <= fver r.
Proof. exact recover_highest. Qed.
Print Assumptions C10_recover_highest.

(* Same-version leftovers (what an AMBIGUOUS failed commit keeps on purpose): with the pointer lost or
   unparseable, recovery still picks the published file L as long as every other file has a lower version or
   the same version and a strictly older mtime -- in every listing order, for any directory (reachable or
   not).  With EQUAL mtimes the first file listed wins (tiebreak_equal_mtime_first_listed), so nothing is
   claimed there. *)
Theorem C10_tiebreak : forall (fs : list mfile) (L : mfile) (p : option (option (list cp))),
  Forall wf_file fs -> In L fs -> (forall f, In f fs -> f <> L -> below f L) -> read_hint p = PRet None ->
  resolve p (map entry_of fs) = RRet (Some (fver L, fname L)).
Proof. exact tiebreak. Qed.
Print Assumptions C10_tiebreak.

(* Readable and writable with all committed data: after ANY non-stale damage to the pointer of any
   reachable store, a commit goes through, builds on the latest committed version (same uuid, exactly the
   acknowledged snapshots plus the new one), repairs the pointer, and the result is reachable again -- so
   all of the above holds for whatever happens next. *)
Theorem C10_usable : forall (st : store) (L : mfile) (p : option (option (list cp))) (id : list N) (t : Z) (pos : nat) (sid : N),
  reachable st -> glatest st = Some L -> ascii_classified p -> ~ stale p st -> wf_id id = true ->
  printable (fver L + 1) = true ->
  let st' := run st [EDamage p; ECommit id t pos sid Ok] in
  reachable st'
  /\ exists L', glatest st' = Some L' /\ fver L' = fver L + 1 /\ fsnaps L' = gacked st ++ [sid]
               /\ gacked st' = gacked st ++ [sid] /\ fuuid L' = fuuid L
               /\ ptr st' = Some (Some (fname L')) /\ In L' (files st') /\ fcom L' = true.
Proof. exact usable_after_damage. Qed.
Print Assumptions C10_usable.

(* Non-vacuity: a concrete history -- create; commit; a commit failing at the commit point (cleaned up);
   the pointer overwritten with U+00B2 (isdigit, not decimal: the content that used to raise); a commit
   through the damaged pointer; the pointer deleted; a commit failing early; the pointer set to a legacy
   number naming a missing file -- satisfies the hypotheses, reaches a store with three files and two
   acknowledged snapshots, and resolves an undecodable pointer to version 2. *)
Definition sup2 : cp := {| code := 178; sp := false; dec := None; dig := true |}.
Definition ex_history : list event :=
  [ ECreate (wid 0) 10 0 77 Ok;
    ECommit (wid 1) 20 0 101 Ok;
    ECommit (wid 2) 20 1 102 (FailCommitPoint true);
    EDamage (Some (Some [sup2]));
    ECommit (wid 3) 5 0 103 Ok;
    EDamage None;
    ECommit (wid 4) 30 2 104 FailEarly;
    EDamage (Some (Some (lit [32; 55; 10]))) ].

Example C10_nonvacuous :
  ok_history empty_store ex_history
  /\ let st := run empty_store ex_history in
     length (files st) = 3%nat /\ gacked st = [101; 103]
     /\ (exists L, glatest st = Some L /\ fver L = 2 /\ fsnaps L = [101; 103] /\ fuuid L = 77)
     /\ ascii_classified (Some None) /\ ~ stale (Some None) st
     /\ resolve (Some None) (listing st) = RRet (Some (2, render_name 2 (wid 3)))
     /\ parse_hint (Some [sup2]) = PRet None.
Proof.
  assert (NS : forall p st, read_hint p = PRet None -> ~ stale p st).
  { intros p st H [v [name [f [H' _]]]]. rewrite H in H'. discriminate H'. }
  split.
  - cbn [ok_history ex_history ok_event]. repeat split; try reflexivity; try discriminate.
    + intros c [<-|[]] H. vm_compute in H. discriminate H.
    + apply NS. reflexivity.
    + apply NS. reflexivity.
    + intros c Hc _. apply (lit_classified [32; 55; 10]). exact Hc.
    + intros [v [name [f [H [Hf [Hn _]]]]]]. vm_compute in H. inversion H; subst v name. clear H.
      vm_compute in Hf. repeat destruct Hf as [Hf|Hf]; try contradiction; subst f; vm_compute in Hn; discriminate Hn.
  - remember (run empty_store ex_history) as st eqn:E. vm_compute in E. subst st. cbv zeta.
    split; [reflexivity|]. split; [reflexivity|].
    split; [eexists; repeat split|].
    split; [exact I|]. split; [apply NS; reflexivity|].
    split; vm_compute; reflexivity.
Qed.
