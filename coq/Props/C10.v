(* Props/C10.v -- The version pointer is only a hint: losing or corrupting it never loses data.
   Only theorem statements, each closed by `exact <lemma>`, with Print Assumptions beneath. *)
From Coq Require Import ZArith NArith List Bool.
Require Import DS.Model.HintPrim DS.Gen.GenHint DS.Model.Hint DS.Proofs.HintProofs.
Import ListNotations.
Open Scope N_scope.

(* The hand-written matcher Model/HintPrim.v re_match implements exactly this pattern text; the
   right-hand side is regenerated from the source of _METADATA_FILE_RE on every run. *)
Theorem C10_pattern_pinned : gen_metadata_file_re = re_pattern_codes.
Proof. reflexivity. Qed.
Print Assumptions C10_pattern_pinned.

(* _parse_hint_content never raises: for EVERY pointer content -- undecodable bytes, or any text
   over any classified code points (any length, any mix of spaces, decimal digits of any script,
   digit-like characters int() rejects, anything else) -- it returns None or a (version, name).
   Stated over the decision structure regenerated from the source on every run. *)
Theorem C10_parse_total : forall (content : option (list cp)), exists r, parse_hint content = PRet r.
Proof. exact parse_total. Qed.
Print Assumptions C10_parse_total.

(* What commit() and initialize_table() write into the pointer -- the name
   f"v{version}-{hex8}.metadata.json" -- parses back to exactly that version and name,
   for every version str() can print and every 8-hex-digit suffix. *)
Theorem C10_parse_write : forall (v : N) (id : list N), printable v = true -> wf_id id = true ->
  parse_hint (Some (render_name v id)) = PRet (Some (v, render_name v id)).
Proof. exact parse_write. Qed.
Print Assumptions C10_parse_write.

(* The legacy pointer form (a bare version number) names v<N>.metadata.json. *)
Theorem C10_parse_legacy : forall (v : N), printable v = true ->
  parse_hint (Some (map digit_cp (digits_of v)))
  = PRet (Some (v, lit [118] ++ map digit_cp (digits_of v) ++ lit suffix_codes)).
Proof. exact parse_legacy. Qed.
Print Assumptions C10_parse_legacy.
