(* Props/C18.v -- Creating a table is idempotent and race-safe.
   Statements only; proofs in Proofs/CreateProofs.v.
   Any number of creators / openers, every interleaving of their steps (probe, lock attempt, check under the lock,
   v0 metadata write, pointer creation, and -- when the store refuses the create-if-absent -- the second resolution
   and the removal of the own v0, release, adoption); storage with real mutual exclusion: `sound c` = conditional
   pointer writes (any lock, even one granting everyone) or an exclusive lock.  What a refused create-if-absent does
   is not written down here: Model/Create.v reads it from Gen/GenCommit.v (gen_create_fail), regenerated from
   MetadataManager.initialize_table on every run, and the theorems about the files a race leaves behind hold only
   for the behaviour "remove the own v0 unless the table now in effect is this one".

   NOT in the machine (implementation-only oracle of harness/props/c18.py instead): a creator that dies between its
   steps; storage faults (lost responses, re-sent requests); the commits of a first appender. *)
From Coq Require Import ZArith List Bool Arith.
Require Import DS.Model.Value DS.Gen.GenSchema DS.Model.Schema DS.Model.CreateBase DS.Gen.GenCreateSchema DS.Model.CreateSchema DS.Proofs.CreateSchemaProofs.
Require Import DS.Model.CommitBase DS.Gen.GenCommit DS.Model.Commit DS.Model.Create DS.Proofs.CommitProofs DS.Proofs.CreateProofs.
Import ListNotations.
Open Scope nat_scope.

(* At most one pointer creation ever succeeds, at every moment of every run. *)
Theorem C18_single_init : forall c evs, sound c -> (length (c_creates (crun c absent evs)) <= 1)%nat.
Proof. exact single_init. Qed.
Print Assumptions C18_single_init.

(* EXACTLY one initialisation takes effect: once every caller has returned and anybody wrote metadata (or returned on
   a table at all), exactly one pointer creation has succeeded, the pointer names that creator's metadata and that is
   the table in effect. *)
Theorem C18_exactly_one_init : forall c evs, sound c ->
  let w := crun c absent evs in
  settled w -> (c_files w <> [] \/ exists a u, c_pc w a = CDone (Some u)) ->
  exists f u, c_creates w = [u] /\ c_ptr w = Some f /\ identity w f = Some u /\ table_id w = Some u.
Proof. exact exactly_one_init. Qed.
Print Assumptions C18_exactly_one_init.

(* Once the pointer names a table, no creator or opener ever makes it name another one. *)
Theorem C18_pointer_stable : forall c w evs f, sound c -> CInv c w -> c_ptr w = Some f -> c_ptr (crun c w evs) = Some f.
Proof. exact pointer_stable. Qed.
Print Assumptions C18_pointer_stable.

(* An existing table -- ANY state of storage whose metadata files on storage all carry one identity (any number of
   versions, removed files, other callers' earlier results), pointer intact, lost or dangling, nobody inside a call --
   is never re-initialised: no metadata file is written or removed, the pointer is not touched, no pointer is created,
   and every caller that returns is on that identity (hence on its persisted schema and committed data, which live in
   those metadata files).  Any storage configuration. *)
Theorem C18_existing_never_reinitialised : forall c owner w0 evs,
  one_identity owner (c_files w0) -> c_lock w0 = None -> settled w0 ->
  let w := crun c w0 evs in
  c_files w = c_files w0 /\ c_ptr w = c_ptr w0 /\ c_creates w = c_creates w0
  /\ forall a u, c_pc w a = CDone u -> c_pc w0 a = CDone u \/ u = Some owner.
Proof. exact existing_never_reinitialised_gen. Qed.
Print Assumptions C18_existing_never_reinitialised.

(* ... in particular a table with metadata versions 0..n, pointer intact or lost. *)
Theorem C18_existing_versions : forall c owner n lost evs,
  let w := crun c (existing_n owner n lost) evs in
  c_files w = chain owner n /\ c_ptr w = (if lost then None else Some n) /\ c_creates w = []
  /\ forall a u, c_pc w a = CDone u -> u = Some owner.
Proof. exact existing_never_reinitialised. Qed.
Print Assumptions C18_existing_versions.

(* What a creation race LEAVES BEHIND is such a table: once every caller has returned, the only metadata file on
   storage is the one the pointer names (every loser removed its own v0), so recovery after a loss of the pointer
   resolves the same file ... *)
Theorem C18_race_leaves_one_table : forall c evs f, sound c ->
  let w := crun c absent evs in
  settled w -> c_ptr w = Some f ->
  live w f = true /\ (forall g, live w g = true -> g = f)
  /\ resolve (lose_ptr w) = Some f /\ table_id (lose_ptr w) = table_id w.
Proof. exact race_leaves_one_table. Qed.
Print Assumptions C18_race_leaves_one_table.

(* ... and with the pointer then lost, every later creator / opener (any interleaving) leaves storage alone and ends
   on the identity the pointer named. *)
Theorem C18_race_then_pointer_loss : forall c evs1 evs2 f u, sound c ->
  let w1 := crun c absent evs1 in
  settled w1 -> c_ptr w1 = Some f -> identity w1 f = Some u ->
  let w2 := crun c (lose_ptr w1) evs2 in
  c_files w2 = c_files w1 /\ c_ptr w2 = None /\ c_creates w2 = c_creates w1
  /\ forall a x, c_pc w2 a = CDone x -> c_pc w1 a = CDone x \/ x = Some u.
Proof. exact race_then_pointer_loss. Qed.
Print Assumptions C18_race_then_pointer_loss.

(* Every caller ends up on the same table.
   (a) From the moment the table is published, every call that returns is on it. *)
Theorem C18_same_table_published : forall c w1 evs f u, sound c -> CInv c w1 -> c_ptr w1 = Some f -> identity w1 f = Some u ->
  let w2 := crun c w1 evs in
  table_id w2 = Some u /\ forall a x, c_pc w2 a = CDone x -> c_pc w1 a = CDone x \/ x = Some u.
Proof. exact same_table_published. Qed.
Print Assumptions C18_same_table_published.

(* (b) PARTIAL (extra hypothesis: the lock is exclusive): also before publication every caller that has returned saw
   the table now in effect. *)
Theorem C18_same_table_partial : forall c evs, sound c -> lockkind c = Excl ->
  let w := crun c absent evs in
  forall a u, c_pc w a = CDone (Some u) -> table_id w = Some u.
Proof. exact same_table_excl. Qed.
Print Assumptions C18_same_table_partial.

(* (c) The full statement -- any sound storage, the identity every call SAW WHEN IT RETURNED -- is false of the
   machine (and of the code): with conditional writes and a lock that excludes nobody, an opener that returns while
   two unpublished v0 files exist sees the newer one, which then loses.  A Table handle holds no identity (every
   use resolves the table again), so that caller is on the winner's table from the publication on: (a). *)
Definition C18_same_table_full : Prop := same_table_full.
Theorem C18_same_table_full_refuted : ~ C18_same_table_full.
Proof. exact same_table_full_refuted. Qed.
Print Assumptions C18_same_table_full_refuted.

(* The creation machine is the protocol the SOURCE performs: the events of one successful initialisation stand,
   action for action, for the skeleton the translator regenerates from MetadataManager.initialize_table on every run
   (lock; the already-initialised guard under the lock; stamp + v0 write; pointer creation -- create-if-absent where
   the store can --; release in the `finally`), and that script is enabled from the absent table for every storage
   configuration and yields exactly one initialisation.  Failure classes of the pointer creation, regenerated: a
   refused create-if-absent is what the machine's `conflict_class` says -- TableExists after the own v0 was removed
   unless the table now in effect is this one (_is_table_in_effect, pinned by the translator) --; a failure that may
   have taken effect (conditional-write storage, or storage whose failed writes are not guaranteed invisible) never
   removes the v0 the pointer may now name; only a guaranteed-invisible failure discards it. *)
Theorem C18_skeleton_regenerated :
  create_model_path = gen_create_path_cas /\ create_model_path = gen_create_path_plain
  /\ (forall atomic, gen_create_fail true atomic FEPrecondition = conflict_class)
  /\ conflict_class = CFTableExistsDiscardForeign
  /\ (forall casb atomic, (casb = true \/ atomic = false) -> gen_create_fail casb atomic FEError = CFKeepRaise)
  /\ gen_create_fail false true FEError = CFDiscardRaise
  /\ (forall c (a : aid),
        exists w', crun_strict c absent (solo_events a) 0 = inl w' /\ c_creates w' = [a] /\ c_pc w' a = CDone (Some a)
                   /\ c_ptr w' = Some 0 /\ map f_id (c_files w') = [a]).
Proof. exact skeleton_regenerated. Qed.
Print Assumptions C18_skeleton_regenerated.

(* A schema supplied at creation is persisted and used by schema-less appends.  v0_schemas / table_schema /
   gen_append_schema are the kernels regenerated from _initialize_table + TableMetadata.__post_init__,
   _resolve_table_schema and append_data (Gen/GenCreateSchema.v); Schema.resolve is the append machine of C11. *)
Theorem C18_schema_persisted_and_used : forall arg S, arg = Some S -> has_fields S = true ->
  In S (fst (v0_schemas arg)) /\ snd (v0_schemas arg) = sid S
  /\ table_schema arg = Some S
  /\ gen_append_schema ischema (table_schema arg) None = Some S
  /\ DS.Model.Schema.resolve (table_schema arg) None = inl S.
Proof. exact schema_persisted_and_used. Qed.
Print Assumptions C18_schema_persisted_and_used.

(* Appends without any available schema (none given at creation, or one without fields, and none given to the
   append) raise instead of writing empty rows: the regenerated append_data raises before its first statement that
   puts anything on storage, and the append machine leaves the table exactly as it was. *)
Theorem C18_no_schema_append_raises : forall arg, arg = None \/ (exists S, arg = Some S /\ has_fields S = false) ->
  table_schema arg = None
  /\ gen_append_schema ischema (table_schema arg) None = None
  /\ DS.Model.Schema.resolve (table_schema arg) None = inr RejNoSchema
  /\ (forall conv w e, DS.Model.Schema.w_schema w = table_schema arg -> DS.Model.Schema.e_arg e = None ->
                       DS.Model.Schema.step conv w e = (w, RejNoSchema))
  /\ In AARaiseNoSchema gen_append_order
  /\ forallb (fun x => negb (writes_storage x)) (before AARaiseNoSchema gen_append_order) = true.
Proof. exact no_schema_append_raises. Qed.
Print Assumptions C18_no_schema_append_raises.

(* ... and after a creation race it is the schema of the ONE initialisation that took effect (sarg u = what caller u
   passed to create_table / Table), never a losing creator's. *)
Theorem C18_schema_of_race : forall (sarg : aid -> option ischema) c evs, sound c ->
  let w := crun c absent evs in
  settled w -> c_files w <> [] ->
  exists u, c_creates w = [u] /\ table_id w = Some u /\ persisted_schema sarg w = table_schema (sarg u)
  /\ (forall S, sarg u = Some S -> has_fields S = true -> DS.Model.Schema.resolve (persisted_schema sarg w) None = inl S)
  /\ (sarg u = None \/ (exists S, sarg u = Some S /\ has_fields S = false) ->
      DS.Model.Schema.resolve (persisted_schema sarg w) None = inr RejNoSchema).
Proof. exact schema_of_race. Qed.
Print Assumptions C18_schema_of_race.

(* ---------------------------------------------------------------------------------------------------- non-vacuity *)
(* CAS storage, a lock that grants everyone: creators 0 and 1 both probe "absent", both write a v0 file (1's is the
   newer); 0's create-if-absent wins, 1's is refused: 1 resolves again (the table in effect is 0's), removes its own
   v0, raises TableExists; both adopt table 0; opener 2 arrives.  The run is accepted step by step, everybody has
   returned (`settled`), one file is left. *)
Definition race_cfg : cfg := {| cas := true; lockkind := GrantAll |}.
Definition race_evs : list cevent :=
  [cev 0 (CProbe false); cev 1 (CProbe false); cev 0 (CLockTry true); cev 1 (CLockTry true);
   cev 0 (CCheck false); cev 1 (CCheck false); cev 0 CMetaW; cev 1 CMetaW;
   cev 0 (CPtrCreate true); cev 1 (CPtrCreate false); cev 1 (CRecheck false); cev 1 CDiscard;
   cev 0 CRelease; cev 1 CRelease; cev 0 CAdopt; cev 1 CAdopt; cev 2 (CProbe true)].

Example C18_nonvacuous_race :
  sound race_cfg
  /\ crun_strict race_cfg absent race_evs 0 = inl (crun race_cfg absent race_evs)
  /\ csummary (crun race_cfg absent race_evs) 3 = (Some 0, [0; 1], [0], [0], [2; 2; 2])
  /\ settled (crun race_cfg absent race_evs)
  /\ csummary (crun race_cfg (lose_ptr (crun race_cfg absent race_evs)) [cev 3 (CProbe true); cev 4 (CProbe true)]) 5
     = (None, [0; 1], [0], [0], [2; 2; 2; 2; 2]).
Proof.
  split; [left; reflexivity|]. split; [vm_compute; reflexivity|]. split; [vm_compute; reflexivity|]. split.
  - intros [|[|[|a]]]; vm_compute; reflexivity.
  - vm_compute. reflexivity.
Qed.

(* the hypotheses of C18_same_table_published / C18_pointer_stable: a state reached mid-race (0 has published, 1 is
   still about to try) satisfies the invariant with the pointer set *)
Example C18_nonvacuous_published :
  let w1 := crun race_cfg absent (firstn 9 race_evs) in
  CInv race_cfg w1 /\ c_ptr w1 = Some 0 /\ identity w1 0 = Some 0 /\ c_pc w1 1 = CWritten 1.
Proof.
  cbv zeta. split; [apply crun_inv; [left; reflexivity | apply absent_inv] |]. vm_compute. repeat split; reflexivity.
Qed.

(* the hypotheses of C18_existing_never_reinitialised: a table with three metadata versions whose pointer is lost *)
Example C18_nonvacuous_existing :
  one_identity 7 (c_files (existing_n 7 2 true)) /\ settled (existing_n 7 2 true)
  /\ csummary (crun race_cfg (existing_n 7 2 true) [cev 0 (CProbe true); cev 1 (CProbe false); cev 1 (CProbe true)]) 2
     = (None, [7; 7; 7], [0; 1; 2], [], [9; 9]).
Proof.
  split; [apply chain_one_identity|]. split; [intro a; reflexivity|]. vm_compute. reflexivity.
Qed.

(* the exclusive lock (C18_same_table_partial): the second creator waits, finds the table, adopts it *)
Example C18_nonvacuous_excl :
  let c := {| cas := false; lockkind := Excl |} in
  let evs := [cev 0 (CProbe false); cev 1 (CProbe false); cev 0 (CLockTry true); cev 1 (CLockTry false);
              cev 0 (CCheck false); cev 0 CMetaW; cev 0 (CPtrCreate true); cev 0 CRelease; cev 1 (CLockTry true);
              cev 1 (CCheck true); cev 1 CRelease; cev 1 CAdopt; cev 0 CAdopt] in
  crun_strict c absent evs 0 = inl (crun c absent evs)
  /\ csummary (crun c absent evs) 2 = (Some 0, [0], [0], [0], [2; 2]).
Proof. vm_compute. split; reflexivity. Qed.

(* schemas: creator 0 supplies {x: long}, creator 1 supplies {x: long, y: string}; 0 wins the race above, so a
   schema-less append uses {x: long}; a table created without a schema (or with an empty one) has none *)
Definition fx : field := {| fid := 1%Z; fname := 1%Z; ftype := CPrim T_long; fspell := 0%Z; freq := false |}.
Definition fy : field := {| fid := 2%Z; fname := 2%Z; ftype := CPrim T_string; fspell := 0%Z; freq := false |}.
Definition sA : ischema := {| sid := 1%Z; sfields := [fx]; sstring := 0%Z |}.
Definition sB : ischema := {| sid := 1%Z; sfields := [fx; fy]; sstring := 0%Z |}.
Example C18_nonvacuous_schema :
  let sarg := fun a : aid => match a with O => Some sA | _ => Some sB end in
  persisted_schema sarg (crun race_cfg absent race_evs) = Some sA
  /\ DS.Model.Schema.resolve (persisted_schema sarg (crun race_cfg absent race_evs)) None = inl sA
  /\ v0_schemas None = ([empty0], 0%Z) /\ table_schema None = None
  /\ table_schema (Some {| sid := 5%Z; sfields := []; sstring := 0%Z |}) = None
  /\ c_files (crun race_cfg absent race_evs) <> [].
Proof. vm_compute. repeat split; try reflexivity. discriminate. Qed.
