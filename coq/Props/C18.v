(* Props/C18.v -- Creating a table is idempotent and race-safe.
   Statements only; proofs in Proofs/CreateProofs.v.
   Any number of creators / openers, every interleaving of their steps (Probe, lock attempt, check
   under the lock, v0 metadata write, pointer creation, release, adoption); storage with real mutual
   exclusion: `sound c` = conditional pointer writes (any lock, even one granting everyone) or an
   exclusive lock. *)
From Coq Require Import List Bool Arith.
Require Import DS.Model.CommitBase DS.Gen.GenCommit DS.Model.Commit DS.Model.Create DS.Proofs.CommitProofs DS.Proofs.CreateProofs.
Import ListNotations.

(* Starting from no table, exactly one initialisation takes effect: at most one pointer creation
   ever succeeds. *)
Theorem C18_single_init : forall c evs, sound c -> (length (c_creates (crun c absent evs)) <= 1)%nat.
Proof. exact single_init. Qed.
Print Assumptions C18_single_init.

(* Once the pointer names a table, no creator or opener ever makes it name another one. *)
Theorem C18_pointer_stable : forall c w evs f, sound c -> CInv c w -> c_ptr w = Some f -> c_ptr (crun c w evs) = Some f.
Proof. exact pointer_stable. Qed.
Print Assumptions C18_pointer_stable.

(* An existing table -- pointer intact OR lost -- is never re-initialised: no metadata file is
   written, no pointer is created, and every caller adopts the existing identity (hence its
   persisted schema and committed data, which live in that metadata file). *)
Theorem C18_existing_never_reinitialised : forall c owner lost evs,
  let w := crun c (existing owner lost) evs in
  c_files w = [owner] /\ c_ptr w = (if lost then None else Some 0) /\ c_creates w = []
  /\ forall a u, c_pc w a = CDone u -> u = Some owner.
Proof. exact existing_never_reinitialised. Qed.
Print Assumptions C18_existing_never_reinitialised.

(* With the exclusive (local) lock every caller ends up on the same table. *)
Theorem C18_same_table : forall c evs, sound c -> lockkind c = Excl ->
  let w := crun c absent evs in
  forall a b u u', c_pc w a = CDone (Some u) -> c_pc w b = CDone (Some u') -> u = u'.
Proof. exact same_table_excl. Qed.
Print Assumptions C18_same_table.

(* The creation machine is the protocol the SOURCE performs: the events of one successful initialisation stand,
   action for action, for the skeleton the translator regenerates from MetadataManager.initialize_table on every run
   (lock; the already-initialised guard under the lock; stamp + v0 write; pointer creation -- create-if-absent where
   the store can --; release in the `finally`), and that script is enabled from the absent table for every storage
   configuration and yields exactly one initialisation.  Failure classes of the pointer creation, regenerated: a
   refused create-if-absent is TableExists (the loser's v0 was never named); a failure that may have taken effect
   (conditional-write storage, or storage whose failed writes are not guaranteed invisible) never removes the v0
   the pointer may now name; only a guaranteed-invisible failure discards it. *)
Theorem C18_skeleton_regenerated :
  create_model_path = gen_create_path_cas /\ create_model_path = gen_create_path_plain
  /\ (forall atomic, gen_create_fail true atomic FEPrecondition = CFTableExists)
  /\ (forall casb atomic, (casb = true \/ atomic = false) -> gen_create_fail casb atomic FEError = CFKeepRaise)
  /\ gen_create_fail false true FEError = CFDiscardRaise
  /\ (forall c (a : aid),
        let evs := {| ce_actor := a; ce_kind := CProbe false |}
                   :: map (fun k => {| ce_actor := a; ce_kind := k |}) creator_events ++ [{| ce_actor := a; ce_kind := CAdopt |}] in
        exists w', crun_strict c absent evs 0 = inl w' /\ c_creates w' = [a] /\ c_pc w' a = CDone (Some a)).
Proof.
  split; [reflexivity|]. split; [reflexivity|]. split; [intros []; reflexivity|]. split.
  - intros casb atomic [H|H]; subst; [destruct atomic | destruct casb]; reflexivity.
  - split; [reflexivity|]. intros [casb lk] a evs. subst evs. eexists.
    destruct casb, lk; repeat (cbn; unfold updc, release, set; cbn; rewrite ?Nat.eqb_refl); (split; [reflexivity|]);
      repeat (cbn; unfold updc; rewrite ?Nat.eqb_refl); split; reflexivity.
Qed.
Print Assumptions C18_skeleton_regenerated.

(* Non-vacuity: CAS storage, a lock that grants everyone: creators 0 and 1 both probe "absent", both
   write a v0 file; 1's create-if-absent wins, 0's fails (TableExists); both adopt table 1. *)
Definition cev a k := {| ce_actor := a; ce_kind := k |}.
Example C18_nonvacuous :
  let c := {| cas := true; lockkind := GrantAll |} in
  let evs := [cev 0 (CProbe false); cev 1 (CProbe false); cev 0 (CLockTry true); cev 1 (CLockTry true);
              cev 0 (CCheck false); cev 1 (CCheck false); cev 0 CMetaW; cev 1 CMetaW;
              cev 1 (CPtrCreate true); cev 0 (CPtrCreate false); cev 0 CRelease; cev 1 CRelease; cev 0 CAdopt; cev 1 CAdopt;
              cev 2 (CProbe true)] in
  crun_strict c absent evs 0 = inl (crun c absent evs)
  /\ csummary (crun c absent evs) 3 = (Some 1, [0; 1], [1], [3; 3; 3]).
Proof. vm_compute. split; reflexivity. Qed.
