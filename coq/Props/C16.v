(* Props/C16.v -- Commits are durable: the pointer never outruns the data it references.
   Only theorem statements, each closed by `exact <lemma>`, with Print Assumptions beneath. *)
From Coq Require Import NArith List Bool.
Require Import DS.Model.Durable DS.Proofs.DurableProofs.
Import ListNotations.
Open Scope N_scope.

(* Any OS-call trace that follows the publish discipline (Durable.check: temp created, written,
   fsynced BEFORE the rename; every file a content refers to already renamed AND its directory
   fsynced; final names never written in place or reused; only unreferenced names unlinked) is
   safe: after EVERY prefix of it and under EVERY schedule of background persistence (any subset of
   unsynced contents / directory entries reaching the disk, in any order, contents possibly
   partially), no call fails and a power loss leaves a pointer that is whole and whose reachable
   files are all present and whole.  The harness evaluates `disciplined` on the OBSERVED trace of
   the real library, so this theorem applies to the observed traces themselves. *)
Theorem C16_disciplined_safe : forall tr, disciplined tr = true ->
  forall n es, calls_of es = firstn n tr ->
  exists s', run fs0 es = Some s' /\ safe_state s'.
Proof. exact disciplined_safe. Qed.
Print Assumptions C16_disciplined_safe.
