(* Props/C16.v -- Commits are durable: the pointer never outruns the data it references.
   Only theorem statements, each closed by `exact <lemma>`, with Print Assumptions beneath.

   Model: coq/Model/Durable.v.  A file system is a volatile tree (what processes see) and a durable
   tree (what survives power loss) over inodes.  OS calls change the volatile tree; Fsync p makes
   p's inode content durable, FsyncDir d makes d's entries durable; and at ANY moment a background
   event may persist any one inode's content up to any length (never shrinking) or any one directory
   entry.  A schedule `es` interleaves the calls of a trace with arbitrary background events, so
   "power loss after the first n calls" ranges over every durable tree some schedule can produce:
   the drop-all outcome, "the pointer's rename reached the disk early", partially written-back
   files, and every mixture.  `run` returning Some also says no call failed with an OS error. *)
From Coq Require Import NArith List Bool.
Require Import DS.Model.Durable DS.Proofs.DurableProofs DS.Proofs.DurablePrograms DS.Proofs.DurablePublish.
Require Import DS.Model.DurableChunks DS.Proofs.DurableChunksProofs DS.Proofs.DurableBurstsProofs.
Import ListNotations.
Open Scope N_scope.

(* For EVERY well-formed operation history (any number of create / append / multi-append /
   delete_files / expire / delete_snapshot commits, rolled-back transactions, and transactions whose
   append FAILED with an OS error at any durability call of the marker's or the data file's publish
   (temp creation, write, fsync, rename, DIRECTORY fsync -- wf bounds the failing call by the number of
   calls whose failure the source lets reach the caller, Gen/GenDurable.v gen_*_fallible = all five: a
   failed directory fsync is not swallowed; it leaves the file linked, its rename not durable, and the
   transaction is rolled back) and were rolled back; any number of files, any contents), EVERY prefix
   of its OS-call trace and EVERY power-loss outcome: if a pointer survives and names version v, then
   every file reachable from v is durably present with exactly its intended content (and that is also
   what running processes saw under that name) -- not missing, not empty, not partial. *)
Theorem C16_durable_prefix : forall ops, wf ops = true ->
  forall n es, calls_of es = firstn n (trace_of ops) ->
  exists s', run fs0 es = Some s' /\ safe_state s' /\
    forall v, pointer (power_loss s') = Some v ->
    forall k, reachable_from ops v k ->
      exists c, intended ops k = Some c /\ content_at (power_loss s') k = Some c /\ content_at (vol s') k = Some c.
Proof. exact durable_prefix. Qed.
Print Assumptions C16_durable_prefix.

(* Once the last call of a commit's pointer publish has returned (the commit is acknowledged), and
   for as long as no later commit advances the pointer -- through the cleanup of its markers and
   through any number of later transactions that are rolled back, voluntarily or because a durability
   call of an append failed with an OS error (is_abort: OAbort and OFail) -- every power-loss outcome has the
   pointer naming that commit's metadata file (whose reachable files are whole by C16_durable_prefix). *)
Theorem C16_acked_durable : forall ops c rest, forallb is_abort rest = true ->
  wf (ops ++ OCommit c :: rest) = true ->
  forall n es, (length (trace_of ops ++ commit_body c) <= n)%nat ->
  calls_of es = firstn n (trace_of (ops ++ OCommit c :: rest)) ->
  exists s', run fs0 es = Some s'
    /\ pointer (power_loss s') = Some (pf_path (c_meta c)) /\ pointer (vol s') = Some (pf_path (c_meta c)).
Proof. exact acked_durable_aborts. Qed.
Print Assumptions C16_acked_durable.

(* One publish sequence (write_file / DataFileWriter.close: Create temp, Write, Fsync, Rename,
   FsyncDir) started in ANY prior file-system state s0 in which the temp name is free: at every
   prefix and under every schedule, the name p durably holds either what it held before (an old
   entry, durable or volatile) or the new inode with the WHOLE content c -- never a partial c; the
   same for the visible tree; and after the last call p is durable with content c. *)
Theorem C16_each_publish : forall (s0 : fs) (d n : N) (c : content),
  entry (vol s0) (T d n) = None ->
  forall k es, calls_of es = firstn k (publish_meta (P d n) c) ->
  exists s', run s0 es = Some s'
    /\ (entry (dur s') (P d n) = entry (dur s0) (P d n) \/ entry (dur s') (P d n) = entry (vol s0) (P d n)
        \/ (entry (dur s') (P d n) = Some (next s0) /\ data (dur s') (next s0) = c))
    /\ (entry (vol s') (P d n) = entry (vol s0) (P d n)
        \/ (entry (vol s') (P d n) = Some (next s0) /\ data (vol s') (next s0) = c /\ data (dur s') (next s0) = c))
    /\ ((5 <= k)%nat -> entry (dur s') (P d n) = Some (next s0) /\ data (dur s') (next s0) = c
                        /\ entry (vol s') (P d n) = Some (next s0) /\ data (vol s') (next s0) = c).
Proof. exact each_publish. Qed.
Print Assumptions C16_each_publish.

(* publish_data (DataFileWriter) is the same call sequence *)
Theorem C16_publish_data_same : forall p c, publish_data p c = publish_meta p c.
Proof. reflexivity. Qed.
Print Assumptions C16_publish_data_same.

(* The general form the ops-level theorems rest on, and the one the harness applies to the OBSERVED
   traces: any OS-call trace accepted by the publish discipline (Durable.check) is safe at every
   prefix under every schedule. *)
Theorem C16_disciplined_safe : forall tr, disciplined tr = true ->
  forall n es, calls_of es = firstn n tr ->
  exists s', run fs0 es = Some s' /\ safe_state s'.
Proof. exact disciplined_safe. Qed.
Print Assumptions C16_disciplined_safe.

(* ---- data sizes: a data file written in BURSTS (Model/DurableChunks.v) -----------------------------------------
   DataFileWriter receives its rows through any number of write_batch calls (write_data_file: batches of 1000
   records; write_pandas_file: one batch) and close() adds the parquet footer: the temp file grows in bursts.
   publish_data_chunked p chs is the regenerated data-writer sequence (Gen/GenDurable.v gen_data_writer) with its
   single Write replaced by the bursts chs (gen_data_writer_burst each), each optionally followed by an incremental
   fsync of the temp file.

   For EVERY list of bursts -- any number, any sizes, any pattern of incremental fsyncs --, started in ANY prior
   state in which the temp name is free, at every prefix and under every schedule: the final name durably holds what
   it held before or the new inode with the WHOLE content (all bursts), never a partial file; the same for the
   visible tree; after the last call it is durable and whole. *)
Theorem C16_chunked_each_publish : forall (s0 : fs) (d n : N) (chs : list chunk),
  entry (vol s0) (T d n) = None ->
  forall k es, calls_of es = firstn k (publish_data_chunked (P d n) chs) ->
  exists s', run s0 es = Some s'
    /\ (entry (dur s') (P d n) = entry (dur s0) (P d n) \/ entry (dur s') (P d n) = entry (vol s0) (P d n)
        \/ (entry (dur s') (P d n) = Some (next s0) /\ data (dur s') (next s0) = chunks_content chs))
    /\ (entry (vol s') (P d n) = entry (vol s0) (P d n)
        \/ (entry (vol s') (P d n) = Some (next s0) /\ data (vol s') (next s0) = chunks_content chs
            /\ data (dur s') (next s0) = chunks_content chs))
    /\ ((length (publish_data_chunked (P d n) chs) <= k)%nat ->
        entry (dur s') (P d n) = Some (next s0) /\ data (dur s') (next s0) = chunks_content chs
        /\ entry (vol s') (P d n) = Some (next s0) /\ data (vol s') (next s0) = chunks_content chs).
Proof. exact chunked_each_publish. Qed.
Print Assumptions C16_chunked_each_publish.

(* ---- the ops-level theorems over burst-written files (second audit, MEDIUM) ---------------------------------------
   `burst_of tr' tr` (Model/DurableChunks.v): tr' is tr with ANY of its Write calls -- to data files, manifests,
   metadata files, the pointer: whichever -- replaced by a list of bursts of the same content (any number, any sizes),
   each burst optionally followed by an incremental fsync of that file; all other calls kept in place.
   `gsim g' g` (Proofs/DurableBurstsProofs.v): the two ghost states agree on the state of EVERY final name, on the
   referenced set, and on which temps are open with which content; the left one's temps are at least as synced.

   The chunked data writer is a burst refinement of the one-Write data writer trace_of is made of ... *)
Theorem C16_chunked_is_burst_of : forall p chs,
  burst_of (publish_data_chunked p chs) (publish_data p (chunks_content chs)).
Proof. exact chunked_is_burst_of. Qed.
Print Assumptions C16_chunked_is_burst_of.

(* ... the publish discipline accepts every burst refinement of every trace it accepts, from similar ghost states to
   similar ghost states (this is the frame the first version of C16_chunked_disciplined lacked: nothing else changes) ... *)
Theorem C16_burst_refines : forall tr' tr, burst_of tr' tr -> forall g' g g1, gsim g' g -> checks g tr = Some g1 ->
  exists g1', checks g' tr' = Some g1' /\ gsim g1' g1.
Proof. exact burst_refines. Qed.
Print Assumptions C16_burst_refines.

(* ... in particular for one data file: wherever the one-Write publish of the whole content is accepted, the chunked
   publish is accepted and leaves the same ghost state (every final name, the referenced set, no temp open) *)
Theorem C16_chunked_disciplined : forall g p chs g1,
  checks g (publish_data p (chunks_content chs)) = Some g1 ->
  exists g1', checks g (publish_data_chunked p chs) = Some g1' /\ gsim g1' g1.
Proof. exact chunked_disciplined_frame. Qed.
Print Assumptions C16_chunked_disciplined.

(* THE HEADLINE THEOREM OVER BURST-WRITTEN FILES: C16_durable_prefix with trace_of ops replaced by ANY burst
   refinement of it.  For every well-formed history, every way of writing its files in bursts, every prefix of that
   trace, every power-loss outcome: a surviving pointer's reachable files are durably present with exactly their
   intended (whole) content.  Not lifted: a burst refinement of a FAILED publish (OFail: the failing publish keeps the
   shape failed_of gives it -- its Write may still be split, but a failure BETWEEN two bursts is the k = 1 / k = 2
   case of the one-Write model only up to the content written so far; such a file is never renamed, so never reachable). *)
Theorem C16_durable_prefix_bursts : forall ops, wf ops = true ->
  forall tr', burst_of tr' (trace_of ops) ->
  forall n es, calls_of es = firstn n tr' ->
  exists s', run fs0 es = Some s' /\ safe_state s' /\
    forall v, pointer (power_loss s') = Some v ->
    forall k, reachable_from ops v k ->
      exists c, intended ops k = Some c /\ content_at (power_loss s') k = Some c /\ content_at (vol s') k = Some c.
Proof. exact durable_prefix_bursts. Qed.
Print Assumptions C16_durable_prefix_bursts.

(* C16_acked_durable over burst refinements: A' refines the history up to and including the commit's pointer publish,
   B' refines what follows (marker cleanup, rolled-back / failed transactions); once all of A' was issued the pointer
   names the acknowledged commit under every power-loss outcome. *)
Theorem C16_acked_durable_bursts : forall ops c rest, forallb is_abort rest = true ->
  wf (ops ++ OCommit c :: rest) = true ->
  forall A' B', burst_of A' (trace_of ops ++ commit_body c) -> burst_of B' (commit_cleanup c ++ trace_of rest) ->
  forall n es, (length A' <= n)%nat -> calls_of es = firstn n (A' ++ B') ->
  exists s', run fs0 es = Some s'
    /\ pointer (power_loss s') = Some (pf_path (c_meta c)) /\ pointer (vol s') = Some (pf_path (c_meta c)).
Proof. exact acked_durable_bursts. Qed.
Print Assumptions C16_acked_durable_bursts.

(* non-vacuity: create_table, then an append whose data file P 3 3 is written as a row-group burst with an
   incremental fsync followed by a footer burst; the pointer's rename of the append is written back early *)
Definition ex_bchunks : list chunk := [mkChunk [Raw 700] true; mkChunk [Raw 69] false].
Definition ex_bops : list op :=
  [OCommit (mkCommit [] [] [] (mkPub (P 1 1) [Raw 1048]) [Raw 25; Ref (P 1 1)]);
   OCommit (mkCommit [mkItem (mkPub (P 2 2) [Raw 51]) (mkPub (P 3 3) (chunks_content ex_bchunks))]
           [mkItem (mkPub (P 2 4) [Raw 75]) (mkPub (P 4 5) [Raw 1602; Ref (P 3 3)])]
           [mkItem (mkPub (P 2 6) [Raw 95]) (mkPub (P 4 7) [Raw 829; Ref (P 4 5)])]
           (mkPub (P 1 8) [Raw 1587; Ref (P 4 7)]) [Raw 25; Ref (P 1 8)])].
Definition ex_btrace : list call :=
  firstn 16 (trace_of ex_bops) ++ bursts (T 3 3) ex_bchunks ++ skipn 17 (trace_of ex_bops).
Example C16_bursts_nonvacuous :
  wf ex_bops = true
  /\ burst_of ex_btrace (trace_of ex_bops)
  /\ length ex_btrace = S (S (length (trace_of ex_bops)))
  /\ firstn 5 (skipn 15 ex_btrace) = [Create (T 3 3); Write (T 3 3) [Raw 700]; Fsync (T 3 3); Write (T 3 3) [Raw 69]; Fsync (T 3 3)]
  /\ (exists s', run fs0 (map Call (firstn 51 ex_btrace) ++ [Bg (PEntry PTR)]) = Some s'
        /\ pointer (power_loss s') = Some (P 1 8)
        /\ content_at (power_loss s') (P 3 3) = Some [Raw 700; Raw 69])
  /\ (exists s', exec fs0 (firstn 18 ex_btrace) = Some s' /\ content_at (vol s') (T 3 3) = Some [Raw 700]).
Proof.
  split; [vm_compute; reflexivity|]. split.
  - replace (trace_of ex_bops) with (firstn 16 (trace_of ex_bops) ++ Write (T 3 3) (chunks_content ex_bchunks) :: skipn 17 (trace_of ex_bops))
      by (vm_compute; reflexivity).
    unfold ex_btrace. apply burst_of_app; [apply burst_of_refl|]. apply bo_split. apply burst_of_refl.
  - split; [vm_compute; reflexivity|]. split; [vm_compute; reflexivity|]. split.
    + eexists. split; [vm_compute; reflexivity|]. vm_compute. auto.
    + eexists. split; [vm_compute; reflexivity|]. vm_compute. auto.
Qed.

(* What may NOT depend on the sizes.  ANY trace in which a Write to a file is followed by the Rename of that file with
   no fsync of it in between -- directly, or with ANY other calls in between (writes to other files, their fsyncs,
   renames, directory fsyncs ...; second audit: the first version covered the adjacent shape only), whatever was synced
   incrementally before -- is rejected by the discipline, from every ghost state, whatever precedes and follows.
   (An Unlink of the file in between is excluded too: then there is nothing left to rename.) *)
Theorem C16_unsynced_tail_rejected : forall g pre f b mid q post,
  Forall (fun c => c <> Fsync f /\ c <> Unlink f) mid ->
  checks g (pre ++ Write f b :: mid ++ Rename f q :: post) = None.
Proof. exact unsynced_tail_rejected_gen. Qed.
Print Assumptions C16_unsynced_tail_rejected.

(* non-vacuity: another file's complete publish lies between the footer write and the rename *)
Example C16_unsynced_tail_nonvacuous :
  let mid := publish_meta (P 2 2) [Raw 51] in
  Forall (fun c => c <> Fsync (T 3 3) /\ c <> Unlink (T 3 3)) mid
  /\ checks g0 ([Create (T 3 3); Write (T 3 3) [Raw 700]; Fsync (T 3 3)] ++ Write (T 3 3) [Raw 69] :: mid ++ Rename (T 3 3) (P 3 3) :: [FsyncDir 3]) = None
  /\ disciplined ([Create (T 3 3); Write (T 3 3) [Raw 700]; Fsync (T 3 3)] ++ Write (T 3 3) [Raw 69] :: mid ++ Fsync (T 3 3) :: Rename (T 3 3) (P 3 3) :: [FsyncDir 3]) = true.
Proof.
  split; [|split; vm_compute; reflexivity].
  repeat constructor; intro E; discriminate.
Qed.

(* In particular the data writer without close()'s fsync (a writer that trusts its own bookkeeping of what was
   synced incrementally) is rejected for every list of bursts whose last burst has no fsync of its own ... *)
Theorem C16_nofinal_rejected : forall g d n chs b,
  checks g (publish_data_chunked_nofinal (P d n) (chs ++ [mkChunk b false])) = None.
Proof. exact nofinal_rejected. Qed.
Print Assumptions C16_nofinal_rejected.

(* ... and rightly: a first burst synced incrementally, a tail (the parquet footer) not, the rename, its directory
   fsync -- from ANY prior state the plain drop-all power loss leaves the final name durably linked to the first burst
   only (a torn file: a proper prefix whenever the tail is not empty) while running processes see the whole file. *)
Theorem C16_unsynced_tail_torn : forall s0 d n a b, entry (vol s0) (T d n) = None ->
  exists s', exec s0 [Create (T d n); Write (T d n) a; Fsync (T d n); Write (T d n) b; Rename (T d n) (P d n); FsyncDir d] = Some s'
    /\ content_at (power_loss s') (P d n) = Some a /\ content_at (vol s') (P d n) = Some (a ++ b).
Proof. exact unsynced_tail_torn. Qed.
Print Assumptions C16_unsynced_tail_torn.

(* non-vacuity: 101 bursts of row groups and the footer; the sequence the source performs today (no incremental
   fsync) and one with an incremental fsync are both accepted; without the final fsync the Rename (call 4) is refused *)
Definition ex_chunks (sync : bool) : list chunk := [mkChunk [Raw 652372] sync; mkChunk [Raw 21659] false].
Example C16_chunks_nonvacuous :
  publish_data_chunked (P 3 3) (ex_chunks true)
    = [Create (T 3 3); Write (T 3 3) [Raw 652372]; Fsync (T 3 3); Write (T 3 3) [Raw 21659]; Fsync (T 3 3);
       Rename (T 3 3) (P 3 3); FsyncDir 3]
  /\ disciplined (publish_data_chunked (P 3 3) (ex_chunks true)) = true
  /\ disciplined (publish_data_chunked (P 3 3) (ex_chunks false)) = true
  /\ publish_data_chunked (P 3 3) [mkChunk [Raw 769] false] = publish_data (P 3 3) [Raw 769]
  /\ first_bad g0 (publish_data_chunked_nofinal (P 3 3) (ex_chunks true)) 0 = Some 4%nat
  /\ chunks_content (ex_chunks true) = [Raw 652372; Raw 21659].
Proof. repeat split; vm_compute; reflexivity. Qed.

(* ---- non-vacuity ----------------------------------------------------------------------------
   A concrete history: create_table, then an append of one data file (marker, data file, marker,
   manifest, marker, manifest list, metadata v1, pointer, three markers unlinked). *)
Definition ex_create : commit :=
  mkCommit [] [] [] (mkPub (P 1 1) [Raw 1048]) [Raw 25; Ref (P 1 1)].
Definition ex_append : commit :=
  mkCommit [mkItem (mkPub (P 2 2) [Raw 51]) (mkPub (P 3 3) [Raw 769])]
           [mkItem (mkPub (P 2 4) [Raw 75]) (mkPub (P 4 5) [Raw 1602; Ref (P 3 3)])]
           [mkItem (mkPub (P 2 6) [Raw 95]) (mkPub (P 4 7) [Raw 829; Ref (P 4 5)])]
           (mkPub (P 1 8) [Raw 1587; Ref (P 4 7)]) [Raw 25; Ref (P 1 8)].
(* ... and a transaction that wrote one data file and was rolled back *)
Definition ex_abort : list item := [mkItem (mkPub (P 2 9) [Raw 51]) (mkPub (P 3 10) [Raw 700])].
(* ... and a transaction whose data file's fsync failed (marker published, Create, Write, fsync raises,
   temp removed, marker removed) *)
Definition ex_fail : op := OFail [] (mkPub (P 2 11) [Raw 51]) (Some (mkPub (P 3 12) [Raw 700])) 2.
Definition ex_ops := [OCommit ex_create; OCommit ex_append; OAbort ex_abort; ex_fail].

(* a schedule: all calls up to and including the pointer's Rename of the second commit (49 of 74
   calls), with that rename written back early and nothing else *)
Definition ex_sched : list event := map Call (firstn 49 (trace_of ex_ops)) ++ [Bg (PEntry PTR)].

Example C16_nonvacuous :
  wf ex_ops = true
  /\ length (trace_of ex_ops) = 74%nat
  /\ trace_of [ex_fail] = publish_meta (P 2 11) [Raw 51] ++ [Create (T 3 12); Write (T 3 12) [Raw 700]; Unlink (T 3 12); Unlink (P 2 11)]
  /\ calls_of ex_sched = firstn 49 (trace_of ex_ops)
  /\ (exists s', run fs0 ex_sched = Some s'
        /\ pointer (power_loss s') = Some (P 1 8)              (* the NEW version survived, early *)
        /\ content_at (power_loss s') (P 3 3) = Some [Raw 769]  (* ... and its data file is whole *)
        /\ content_at (power_loss s') (P 4 7) = Some [Raw 829; Ref (P 4 5)])
  /\ reachable_from ex_ops (P 1 8) (P 3 3).
Proof.
  split; [vm_compute; reflexivity|]. split; [vm_compute; reflexivity|]. split; [vm_compute; reflexivity|]. split; [vm_compute; reflexivity|].
  split.
  - eexists. split; [vm_compute; reflexivity|]. vm_compute. auto.
  - eapply reach_step; [eapply reach_step; [eapply reach_step; [apply reach_self|]|]|].
    + exists [Raw 1587; Ref (P 4 7)]. split; [vm_compute; reflexivity|simpl; auto].
    + exists [Raw 829; Ref (P 4 5)]. split; [vm_compute; reflexivity|simpl; auto].
    + exists [Raw 1602; Ref (P 3 3)]. split; [vm_compute; reflexivity|simpl; auto].
Qed.

(* A failing DIRECTORY fsync is covered (audit finding: the code used to swallow it and go on to advance
   the pointer; the repaired code raises, Gen/GenDurable.v records that all 5 calls of a publish are
   fallible, and wf accepts OFail with k = 4): the data file's directory fsync fails (the file stays
   linked as an orphan, the marker is removed), then a marker's own directory fsync fails (the marker
   stays), then a further append commits into the same directories.  A 6th failure point does not exist. *)
Definition ex_dirfail : op := OFail [] (mkPub (P 2 13) [Raw 51]) (Some (mkPub (P 3 14) [Raw 700])) 4.
Definition ex_mkfail : op := OFail [] (mkPub (P 2 15) [Raw 51]) None 4.
Definition ex_append2 : commit :=
  mkCommit [mkItem (mkPub (P 2 16) [Raw 51]) (mkPub (P 3 17) [Raw 769])]
           [mkItem (mkPub (P 2 18) [Raw 75]) (mkPub (P 4 19) [Raw 1602; Ref (P 3 17)])]
           [mkItem (mkPub (P 2 20) [Raw 95]) (mkPub (P 4 21) [Raw 829; Ref (P 4 5); Ref (P 4 19)])]
           (mkPub (P 1 22) [Raw 1587; Ref (P 4 7); Ref (P 4 21)]) [Raw 25; Ref (P 1 22)].
Definition ex_ops2 := ex_ops ++ [ex_dirfail; ex_mkfail; OCommit ex_append2].

Example C16_dir_fsync_failure_covered :
  wf ex_ops2 = true /\ length (trace_of ex_ops2) = 131%nat
  /\ gen_write_file_fallible = length (publish_meta PTR []) /\ gen_data_writer_fallible = length (publish_data PTR [])
  /\ trace_of [ex_dirfail] = publish_meta (P 2 13) [Raw 51]
        ++ [Create (T 3 14); Write (T 3 14) [Raw 700]; Fsync (T 3 14); Rename (T 3 14) (P 3 14); Unlink (P 2 13)]
  /\ trace_of [ex_mkfail] = [Create (T 2 15); Write (T 2 15) [Raw 51]; Fsync (T 2 15); Rename (T 2 15) (P 2 15)]
  /\ wf [OCommit ex_create; OFail [] (mkPub (P 2 13) [Raw 51]) (Some (mkPub (P 3 14) [Raw 700])) 5] = false.
Proof. repeat split; vm_compute; reflexivity. Qed.

(* ... and it has to be: had the failure of the data directory's fsync been SWALLOWED (the call sequence
   goes on without that FsyncDir), the plain drop-all power loss after the acknowledged commit leaves a
   durable pointer to version P 1 8 whose data file P 3 3 is MISSING; the discipline rejects the trace
   at the Rename of the manifest that refers to it. *)
Fixpoint drop_first (f : call -> bool) (l : list call) : list call :=
  match l with [] => [] | c :: l' => if f c then l' else c :: drop_first f l' end.
Definition ex_swallowed : list call :=
  drop_first (fun c => match c with FsyncDir 3 => true | _ => false end) (trace_of [OCommit ex_create; OCommit ex_append]).

Example C16_dir_fsync_is_needed :
  disciplined ex_swallowed = false
  /\ first_bad g0 ex_swallowed 0 = Some 27%nat
  /\ nth 27 ex_swallowed (Mkdir 0) = Rename (T 4 5) (P 4 5)
  /\ nth 48 ex_swallowed (Mkdir 0) = FsyncDir 0                       (* the pointer publish's last call *)
  /\ exists s', exec fs0 (firstn 49 ex_swallowed) = Some s'
       /\ pointer (power_loss s') = Some (P 1 8)
       /\ content_at (power_loss s') (P 4 5) = Some [Raw 1602; Ref (P 3 3)]
       /\ content_at (power_loss s') (P 3 3) = None
       /\ content_at (vol s') (P 3 3) = Some [Raw 769].
Proof.
  split; [vm_compute; reflexivity|]. split; [vm_compute; reflexivity|]. split; [vm_compute; reflexivity|]. split; [vm_compute; reflexivity|].
  eexists. split; [vm_compute; reflexivity|]. vm_compute. auto.
Qed.

(* The safety notion is not trivially true: drop the data file's Fsync (audit finding #33) and the
   same early-rename schedule leaves a surviving pointer whose data file is EMPTY; the trace is
   rejected by the discipline at exactly that file's Rename. *)
Definition ex_bad_trace : list call :=
  filter (fun c => match c with Fsync (T 3 3) => false | _ => true end) (trace_of ex_ops).
Definition ex_bad_sched : list event :=
  map Call (firstn 48 ex_bad_trace) ++ [Bg (PEntry PTR); Bg (PEntry (P 1 8)); Bg (PEntry (P 4 7)); Bg (PEntry (P 4 5)); Bg (PEntry (P 3 3))].

Example C16_fsync_is_needed :
  disciplined ex_bad_trace = false
  /\ first_bad g0 ex_bad_trace 0 = Some 17%nat
  /\ nth 17 ex_bad_trace (Mkdir 0) = Rename (T 3 3) (P 3 3)
  /\ exists s', run fs0 ex_bad_sched = Some s'
       /\ pointer (power_loss s') = Some (P 1 8)
       /\ content_at (power_loss s') (P 3 3) = Some []
       /\ content_at (vol s') (P 3 3) = Some [Raw 769].
Proof.
  split; [vm_compute; reflexivity|]. split; [vm_compute; reflexivity|]. split; [vm_compute; reflexivity|].
  eexists. split; [vm_compute; reflexivity|]. vm_compute. auto.
Qed.
