(* Props/C06.v -- Garbage collection is safe against concurrently committing transactions.
   Statement only; proof in Proofs/GCRaceProofs.v.

   Event lists interleave arbitrarily: clock ticks (any non-negative amounts: a data file may be far
   older than the grace period when its transaction commits), the steps of any number of
   transactions (marker write, file write, pointer flip, marker removal, or rollback) and the steps
   of collection runs (marker load, metadata read, listings, deletions; several runs in sequence,
   each with its own grace period).  A listing is enabled only while the run has lasted less than
   its grace period -- the property's proviso. *)
From Coq Require Import ZArith List Bool Arith.
Require Import DS.Model.GCRace DS.Proofs.GCRaceProofs.
Import ListNotations.
Open Scope Z_scope.

Theorem C06_gc_race_safe : forall orph evs,
  let w := grun (ginit orph) evs in
  (forall t, g_ref w t = true -> g_present w t = true)          (* files referenced by the committed table exist *)
  /\ (forall t, g_tpc w t = TWritten -> g_present w t = true)    (* files of transactions still in flight exist *)
  /\ g_deleted w = [].                                           (* the collector deleted no transaction's file *)
Proof. exact gc_race_safe. Qed.
Print Assumptions C06_gc_race_safe.

(* Non-vacuity: transaction 0 writes its file at time 0; 5000 ms pass (the file is now far older than
   the 1000 ms grace period); a collection starts: it loads the markers, then reads the metadata; the
   transaction commits and removes its marker; the collector lists: the file is unreferenced in its
   snapshot and old, but protected by the marker snapshot -> GDel 0 is rejected; an old orphan IS
   deleted. *)
Example C06_nonvacuous :
  let evs := [TMarkW 0; TDataW 0; Tick 5000; GMarks; GMeta; TFlip 0; TMarkD 0; Tick 10; GList 1000; GDelOrphan 7; GEnd]%nat in
  let w := grun (ginit [(7%nat, 0)]) evs in
  grun_strict (ginit [(7%nat, 0)]) evs 0 = inl w
  /\ g_ref w 0%nat = true /\ g_present w 0%nat = true /\ g_orphans w = []
  /\ gstep (grun (ginit [(7%nat, 0)]) (firstn 9 evs)) (GDel 0%nat) = None
  /\ g_mtime w 0%nat < g_cutoff w.
Proof. vm_compute. repeat split; try reflexivity. Qed.
