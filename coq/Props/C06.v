(* Props/C06.v -- Garbage collection is safe against concurrently committing transactions.
   Statements only; proofs in Proofs/GCRaceProofs.v.

   Event lists interleave arbitrarily: clock ticks (any non-negative amounts, anywhere -- in particular
   between a marker and its file: a slow write; and between a file and its commit: a data file may be far
   older than the grace period when its transaction commits), the steps of any number of transactions on
   any number of marker-protected files (marker write, file write, pointer flip, marker removal; rollback;
   abandoning the files of a lost commit attempt; staging a PRE-BUILT file of any age and adopting it:
   marker, then a look for an announced collection run) and the steps of collection runs (announcement,
   marker load with the run's abandonment timeout, deletion of markers the REGENERATED kernel of _load_inflight_protection
   classifies as abandoned, metadata read, listings, deletions guarded by the REGENERATED guard of
   _gc_prefix; several runs in sequence, each with its own grace period and timeout).  A listing is enabled
   only while the run has lasted less than its grace period -- the property's proviso. *)
From Coq Require Import ZArith List Bool Arith.
Require Import DS.Model.GCRaceBase DS.Gen.GenGCRace DS.Model.GCRace DS.Proofs.GCRaceProofs.
Require Import DS.Gen.GenTxMarkers DS.Model.TxMarkers DS.Proofs.TxMarkersProofs.
Require Import DS.Model.GCRaceDrop DS.Proofs.GCRaceDropProofs.
Require Import DS.Model.PyStr DS.Gen.GenNorm DS.Model.GC DS.Proofs.GCHistProofs DS.Proofs.MarkerKeyProofs.
Import ListNotations.
Open Scope Z_scope.

Theorem C06_gc_race_safe : forall orph evs,
  let w := grun (ginit orph) evs in
  forall f, g_swept w f = false ->                               (* f's marker was never treated as abandoned *)
    (g_ref w f = true -> g_present w f = true)                   (* referenced by the committed table: exists *)
    /\ (g_tpc w f = TWritten -> g_present w f = true)            (* of a transaction still in flight: exists *)
    /\ (In f (g_deleted w) ->                                    (* deleted by the collector: neither of the two, for good *)
          g_present w f = false /\ g_ref w f = false /\ g_tpc w f <> TWritten).
Proof. exact gc_race_safe. Qed.
Print Assumptions C06_gc_race_safe.

(* A marker is treated as abandoned only if it is older than the abandonment timeout: in every interleaving
   whose runs use a timeout of at least T, a swept marker was written more than T ago -- whatever the grace
   period, however slow the write of the file, whether or not the file exists yet. *)
Theorem C06_swept_only_abandoned : forall orph evs T,
  Forall (timeout_ok T) evs ->
  let w := grun (ginit orph) evs in
  forall f, g_swept w f = true -> g_mkmtime w f + T < g_now w.
Proof. exact swept_only_abandoned. Qed.
Print Assumptions C06_swept_only_abandoned.

(* ... and until then the marker of a file in flight stays in place through every collection run. *)
Theorem C06_unswept_marker_kept : forall orph evs,
  let w := grun (ginit orph) evs in
  forall f, g_swept w f = false ->
    (g_tpc w f = TMarked \/ g_tpc w f = TWritten \/ g_tpc w f = TFlipped \/ g_tpc w f = TAdoptM) -> g_marker w f = true.
Proof. exact unswept_marker_kept. Qed.
Print Assumptions C06_unswept_marker_kept.

(* Adoption of a pre-built file as Transaction.append_files did it BEFORE the repair (no marker, no look at
   running collections; `gstep_unrepaired`) refutes the safety statement: a staged file older than the grace
   period, adopted and committed between a run's metadata read and its listing, is deleted although the
   committed table references it (the run lasted 4 ms against a grace period of 1 h).  The repaired adoption
   (`TAdoptMark`; `TAdopt` only while no run is announced) is part of the machine C06_gc_race_safe is about. *)
Theorem C06_unmarked_adoption_refuted :
  exists evs w, grun_strict_unrepaired (ginit []) evs = Some w
    /\ g_swept w 0%nat = false /\ g_ref w 0%nat = true /\ g_present w 0%nat = false.
Proof. exact unmarked_adoption_refuted. Qed.
Print Assumptions C06_unmarked_adoption_refuted.

(* The TRANSACTION's side of the contract C06_gc_race_safe rests on (a file is published only while its marker is in
   place): the marker ledger of one transaction (Model/TxMarkers.v) over the kernels REGENERATED from transaction.py
   (Gen/GenTxMarkers.v: append_data registers before it writes, append_files protects before it queues, an attempt
   registers its manifests, and nothing reachable from the RETRY arm of commit's conflict handler drops markers).  In
   every history -- any number of written files and of ADOPTED pre-built files (of any age), any number of commit
   attempts that LOSE the OCC race and are retried, refused adoptions, rollback -- the transaction holds a marker for
   every file it is going to publish at every step up to and including the pointer flip (`x_bare` collects every file
   that was ever payload without a marker: it stays empty).  So a collection run scheduled at ANY step of a retry
   finds the markers of the adopted and the written files. *)
Theorem C06_tx_markers_cover_payload : forall evs,
  let s := xrun gen_xkernels xinit evs in
  x_bare s = [] /\ (x_phase s = XOpen \/ x_phase s = XFlipped -> forall f, In f (x_payload s) -> In f (x_markers s)).
Proof. exact tx_markers_cover_payload. Qed.
Print Assumptions C06_tx_markers_cover_payload.

(* ... for whatever kernels the code has, as long as they protect and the retry arm drops nothing. *)
Theorem C06_tx_markers_cover_payload_kernels : forall k, kernels_ok k -> forall evs,
  let s := xrun k xinit evs in
  x_bare s = [] /\ (x_phase s = XOpen \/ x_phase s = XFlipped -> forall f, In f (x_payload s) -> In f (x_markers s)).
Proof. exact tx_markers_cover_payload_k. Qed.
Print Assumptions C06_tx_markers_cover_payload_kernels.

(* The condition on the retry arm cannot be dropped: with ANY kernels whose retry arm drops markers, every file
   adopted before a lost attempt is unmarked payload from the conflict on and is published unmarked -- between the
   conflict and the flip nothing protects it from a collection run if it is older than the grace period (GCRace: an
   unmarked, unreferenced, old file is an orphan; C06_unmarked_adoption_refuted is that run). *)
Theorem C06_dropping_retry_refuted : forall k f, k_retry_drops k = true ->
  let s := xrun k xinit [XAdopt f; XConflict; XCommit] in
  x_phase s = XFlipped /\ In f (x_published s) /\ In f (x_bare s) /\ ~ In f (x_markers s).
Proof. exact dropping_retry_refuted. Qed.
Print Assumptions C06_dropping_retry_refuted.

(* What a bare file costs, on the collector x transactions machine: with a transaction step that drops the marker of a
   file it still publishes (Model/GCRaceDrop.v: `gstep` otherwise), a pre-built file ten hours old, adopted, whose
   marker the lost attempt drops, is deleted by a collection run of 4 ms (grace period 1 h) between the conflict and
   the retry's flip, and the committed table references a deleted file.  No marker was treated as abandoned. *)
Theorem C06_dropped_marker_loses_file :
  exists evs w, grun_strict_dropping (ginit []) evs = Some w
    /\ g_swept w 0%nat = false /\ g_ref w 0%nat = true /\ g_present w 0%nat = false /\ g_deleted w = [0%nat]
    /\ g_now w - g_start w < 3600000.
Proof. exact dropped_marker_loses_file. Qed.
Print Assumptions C06_dropped_marker_loses_file.

(* MARKER IDENTITY.  Model/GCRace.v and Model/TxMarkers.v give every file its OWN marker (`g_marker : tid -> bool`, `hold f`):
   what one transaction does to the marker of its file touches no other file's.  That is true of the code iff the key
   _register_inflight writes is an injective function of the file's table-relative path.  Proved here of the function
   REGENERATED from transaction.py (Gen/GenNorm.v register_marker_path): two registrations write the same key only for the same
   file (paths that differ in leading slashes only).  With the key made from the file's basename -- the unchanged library --
   this is unprovable, and false: C06_basename_marker_collision_refuted. *)
Theorem C06_marker_key_injective : forall (f g : String.string),
  register_marker_path f = register_marker_path g -> resolve f = resolve g.
Proof. exact register_marker_path_injective. Qed.
Print Assumptions C06_marker_key_injective.

(* The naming of the unchanged library (Proofs/MarkerKeyProofs.v basename_marker_path, by hand): two DIFFERENT files that
   append_files accepts (the regenerated guard) share one marker.  The second registration finds the key held and writes
   nothing, so the second file is adopted UNMARKED -- the step TAdoptBare of gstep_unrepaired, for which the property fails
   (C06_unmarked_adoption_refuted); and either transaction's cleanup removes the marker of the other's file. *)
Theorem C06_basename_marker_collision_refuted :
  exists f g : String.string, resolve f <> resolve g
    /\ append_accepts_path (fun s => s) f = true /\ append_accepts_path (fun s => s) g = true
    /\ basename_marker_path f = basename_marker_path g.
Proof. exact basename_marker_collides. Qed.
Print Assumptions C06_basename_marker_collision_refuted.

(* The regenerated decision kernels, as the invariant uses them (for all inputs). *)
Theorem C06_marker_kernel : forall now timeout mt,
  (gen_marker_action (gen_marker_age_ok (gen_marker_cutoff now timeout) (Some mt)) = MSweep -> mt + timeout < now)
  /\ gen_marker_action (gen_marker_age_ok (gen_marker_cutoff now timeout) None) = MProtect
  /\ gen_sweep_failure_protects = true.
Proof. exact marker_kernel. Qed.
Print Assumptions C06_marker_kernel.

Theorem C06_delete_kernel : forall now grace covered mt,
  gen_delete_guard covered mt (gen_sweep_cutoff now grace) = true -> covered = false /\ mt + grace < now.
Proof. exact delete_kernel. Qed.
Print Assumptions C06_delete_kernel.

(* Non-vacuity: file 0's marker is written at time 0 and the file lands only 5000 ms later (a slow write,
   far longer than the 1000 ms grace period); a first collection runs inside that gap: the marker is young
   against the 24 h abandonment timeout, GSweep 0 is rejected; the file is written; another 5000 ms pass
   (the file is now far older than the grace period); a second collection starts: it loads the markers,
   then reads the metadata; the transaction commits and removes its marker; the collector lists: the file
   is unreferenced in its snapshot and old, but protected by the marker snapshot -> GDel 0 is rejected; an
   old orphan IS deleted. *)
Example C06_nonvacuous :
  let evs := [TMarkW 0; Tick 5000; GAnnounce; GMarks 86400000; GMeta; GList 1000; GEnd; TDataW 0; Tick 5000;
              GAnnounce; GMarks 86400000; GMeta; TFlip 0; TMarkD 0; Tick 10; GList 1000; GDelOrphan 7; GEnd]%nat in
  let w := grun (ginit [(7%nat, 0)]) evs in
  grun_strict (ginit [(7%nat, 0)]) evs 0 = inl w
  /\ g_ref w 0%nat = true /\ g_present w 0%nat = true /\ g_orphans w = [] /\ g_swept w 0%nat = false
  /\ gstep (grun (ginit [(7%nat, 0)]) (firstn 4 evs)) (GSweep 0%nat) = None
  /\ gstep (grun (ginit [(7%nat, 0)]) (firstn 16 evs)) (GDel 0%nat) = None
  /\ g_mtime w 0%nat < g_cutoff w.
Proof. vm_compute. repeat split; try reflexivity. Qed.

(* The hypothesis `g_swept w f = false` cannot be dropped, and it is the ONLY way protection is lost: with
   an abandonment timeout shorter than the slow write (here 1000 ms against a 5000 ms write), the first run
   deletes the live transaction's marker; the file lands unprotected; once it is older than the grace
   period a second run, concurrent with the commit, deletes it; the commit publishes a snapshot that
   references a deleted file. *)
Example C06_swept_marker_loses_file :
  let evs := [TMarkW 0; Tick 5000; GAnnounce; GMarks 1000; GSweep 0; GMeta; GList 1000; GEnd; TDataW 0; Tick 5000;
              GAnnounce; GMarks 1000; GMeta; GList 1000; GDel 0; TFlip 0; GEnd]%nat in
  let w := grun (ginit []) evs in
  grun_strict (ginit []) evs 0 = inl w
  /\ g_swept w 0%nat = true /\ g_ref w 0%nat = true /\ g_present w 0%nat = false /\ g_deleted w = [0%nat].
Proof. vm_compute. repeat split; reflexivity. Qed.

(* Non-vacuity of the adoption steps: a pre-built file ten hours old is staged and adopted (marker, no run
   announced, file in place); a collection run (grace 1 h) starts afterwards and sees the marker; the
   transaction commits inside the run; the run lists: GDel 0 is rejected; the file survives.  A second
   pre-built file is staged while a run is announced: its adoption is refused (TAdopt is not enabled). *)
Example C06_adoption_nonvacuous :
  let evs := [TStage 0 (-36000000); Tick 1; TAdoptMark 0; TAdopt 0; Tick 1; GAnnounce; GMarks 86400000; GMeta;
              TFlip 0; TMarkD 0; Tick 1; TStage 1 (-36000000); TAdoptMark 1; GList 3600000]%nat in
  let w := grun (ginit []) evs in
  grun_strict (ginit []) evs 0 = inl w
  /\ g_ref w 0%nat = true /\ g_present w 0%nat = true
  /\ gstep w (GDel 0%nat) = None /\ gstep w (TAdopt 1%nat) = None /\ g_mtime w 0%nat < g_cutoff w.
Proof. vm_compute. repeat split; reflexivity. Qed.

(* Non-vacuity of the ledger: a transaction writes file 0 and adopts the pre-built file 1; two commit attempts lose the
   race (manifests 2,3 and 4,5), the third (6,7) goes through.  Every event is enabled; at the flip the transaction
   holds the markers of 0, 1, 6, 7 (and still those of the lost attempts' manifests); nothing was ever bare. *)
Example C06_ledger_nonvacuous :
  let evs := [XWrite 0; XAdopt 1; XRefuse 9; XAttempt 2; XAttempt 3; XConflict; XAttempt 4; XAttempt 5; XConflict;
              XAttempt 6; XAttempt 7; XCommit]%nat in
  let s := xrun gen_xkernels xinit evs in
  xrun_strict gen_xkernels xinit evs 0 = inl s
  /\ x_phase s = XFlipped /\ x_lost s = 2%nat /\ x_published s = [1; 0; 7; 6]%nat /\ x_bare s = []
  /\ x_markers s = [7; 6; 5; 4; 3; 2; 1; 0]%nat
  /\ x_markers (xrun gen_xkernels s [XFinish]) = [].
Proof. vm_compute. repeat split; reflexivity. Qed.

(* Non-vacuity of C06_marker_key_injective: the audit's two files get two keys; one file spelled two ways gets one. *)
Import String.
Local Open Scope string_scope.
Example C06_marker_key_nonvacuous :
  register_marker_path "data/p1/x.parquet" = "metadata/inflight/data/p1/x.parquet.inflight"
  /\ register_marker_path "data/p2/x.parquet" = "metadata/inflight/data/p2/x.parquet.inflight"
  /\ register_marker_path "/data/p1/x.parquet" = register_marker_path "data/p1/x.parquet"
  /\ basename_marker_path "data/p1/x.parquet" = basename_marker_path "data/p2/x.parquet".
Proof. repeat split. Qed.
