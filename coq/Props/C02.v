(* Props/C02.v -- Readers observe only whole committed snapshots.
   Statements only; proofs in Proofs/ReaderProofs.v.

   Event lists interleave, in any order: every writer-side event of Model/Fault.v (commits of any
   number of transactions -- a multi-operation transaction is ONE operation with ONE pointer flip --,
   failures, interrupts, crashes, rollbacks) and the readers' steps: start of a read call, the single
   pointer resolution, reads of the files the resolved version names, end of the call. *)
From Coq Require Import ZArith List Bool Arith.
Require Import DS.Model.Commit DS.Model.Fault DS.Model.Reader DS.Proofs.CommitProofs DS.Proofs.FaultProofs DS.Proofs.ReaderProofs.
Import ListNotations.

(* A read returns the rows of exactly one version: the one the pointer named at an instant i between
   the call's start and its end; every file of that version the reader touches exists (so the read
   never fails and never sees a partial set), whatever the writers do meanwhile. *)
Theorem C02_snapshot_read : forall c m0 kind mr r0 next evs,
  sound c -> (forall f, In f r0 -> (f < next)%nat) ->
  let z := rrun c (rinit (finit m0 kind mr r0 next)) evs in
  forall r v, r_vid (r_readers z r) = Some v ->
    exists i st, r_idx (r_readers z r) = Some i /\ r_start (r_readers z r) = Some st
      /\ (st <= i <= length (hist z))%nat /\ v = version_at (hist z) i
      /\ r_ok (r_readers z r) = true
      /\ (forall e, r_end (r_readers z r) = Some e -> (i <= e)%nat)
      /\ (forall f, In f (refs (rx z) v) -> In f (f_present (rx z))).
Proof. exact reader_snapshot. Qed.
Print Assumptions C02_snapshot_read.

(* Successive reads never move backwards in commit order: the pointer history only ever grows by
   appending, so a later resolution index is never smaller and names a later-or-equal version. *)
Theorem C02_monotone : forall c z evs, exists t, hist (rrun c z evs) = hist z ++ t.
Proof. exact hist_monotone. Qed.
Print Assumptions C02_monotone.

(* A multi-operation transaction becomes visible all at once or not at all: it contributes exactly
   one pointer flip; the version named before the flip does not contain it, every version from the
   flip on does (ops of version k+1 = ops of version k ++ [that transaction]). *)
Theorem C02_txn_atomic : forall c m0 kind mr r0 next evs,
  sound c -> (forall f, In f r0 -> (f < next)%nat) ->
  let w := fw (frun c (finit m0 kind mr r0 next) evs) in
  chain_ok (w_files w) 0%nat (w_hist w) /\ NoDup (map snd (w_hist w)).
Proof.
  intros c m0 kind mr r0 next evs S A w.
  pose proof (faults_keep_inv c m0 kind mr r0 next evs S A) as I. split; apply I.
Qed.
Print Assumptions C02_txn_atomic.

(* Non-vacuity: reader 0 starts, writer 0 commits, the reader resolves (sees version 1), writer 1
   commits, writer 2 fails and rolls back its file, the reader reads both files of version 1 and ends:
   i = 1 lies in [0, 2], all reads succeed. *)
Definition ev a k := {| e_actor := a; e_kind := k |}.
Definition ex_cfg := {| cas := false; lockkind := Excl |}.
Definition ex_init := rinit (finit {| m_ops := []; m_cur := 1; m_lu := 100 |} (fun _ => KFresh) (fun _ => 50%nat) [0]%nat 1%nat).
Example C02_nonvacuous :
  let z := rrun ex_cfg ex_init
     ([RStart 0; RSys (FWrite 0)] ++ map (fun e => RSys (FProto e)) (commit_script 0 0 100)
      ++ [RPtr 0; RSys (FWrite 1)] ++ map (fun e => RSys (FProto e)) (commit_script 1 1 100)
      ++ [RSys (FWrite 2); RSys (FProto (ev 2 (EBegin 2))); RSys (FProto (ev 2 EAbort)); RSys (FRollback 2);
          RFile 0 0; RFile 0 1; REnd 0])%nat in
  r_vid (r_readers z 0%nat) = Some 1%nat /\ r_idx (r_readers z 0%nat) = Some 1%nat /\ r_start (r_readers z 0%nat) = Some 0%nat
  /\ r_end (r_readers z 0%nat) = Some 2%nat /\ r_ok (r_readers z 0%nat) = true /\ r_nread (r_readers z 0%nat) = 2%nat
  /\ refs (rx z) 1%nat = [0; 1]%nat /\ f_present (rx z) = [2; 1; 0]%nat.
Proof. vm_compute. repeat split. Qed.
