(* Props/C02.v -- Readers observe only whole committed snapshots.
   Statements only; proofs in Proofs/ReaderProofs.v, Proofs/ReadResProofs.v.

   Event lists interleave, in any order: every writer-side event of Model/Fault.v (commits of any number of
   transactions, failures, interrupts, crashes, rollbacks) and the readers' steps: start of a read call, a
   pointer resolution, the reads of the files the resolved version names, the return of the call.

   Two facts about the CODE that the model would otherwise only assume are counted on the source on every run
   (translator/gen_readres.py -> Gen/GenReadRes.v) and enter the theorems through Proofs/ReadResProofs.v:
     * [read_budget] = the greatest number of pointer resolutions any read API (scan, to_pandas, scan_batches,
       iter_records, iter_pandas, row_count) makes in one call.  The reader machine is run with THAT budget;
       [C02_snapshot_read] is proved because it is 1, and [C02_snapshot_read_needs_single_resolution] shows the
       same statement is false for a budget of 2 (the unrepaired library: up to 3).
     * [txn_commits_per_attempt] = (1, 1): one attempt of Transaction.commit, whatever operations were queued,
       reaches MetadataManager.commit exactly once (which flips the pointer exactly once: GenCommit.v).

   What a file CONTAINS is not modelled: file names are fresh and files write-once (Model/Fault.v; C04 / C16), so
   contents are a function [content] of the name, universally quantified in [C02_snapshot_read].  That the real
   APIs turn the files of a version into the same rows (filters, projection, batching) is C12 / C13; that the
   rows returned by each real API under real schedules are those of one pointer version is the harness oracle. *)
From Coq Require Import String ZArith List Bool Arith.
Require DS.Model.Meta DS.Gen.GenFileOps DS.Proofs.TxQueueProofs.
Require Import DS.Model.Commit DS.Model.Fault DS.Model.Reader DS.Proofs.CommitProofs DS.Proofs.FaultProofs DS.Proofs.ReaderProofs
               DS.Gen.GenReadRes DS.Proofs.ReadResProofs.
Import ListNotations.

(* A read call that has returned (any API: each resolves the pointer [read_budget] = 1 times) resolved the pointer
   at an instant i between its start and its end; none of its file reads failed (it did not raise); the files it read
   are EXACTLY those of the version that was current after i flips, all still present whatever the writers did
   meanwhile; hence, for any contents of the files, the rows it returns are the rows of that one snapshot. *)
Theorem C02_snapshot_read : forall c m0 kind mr r0 next evs,
  sound c -> (forall f, In f r0 -> (f < next)%nat) ->
  let z := rrun c read_budget (rinit (finit m0 kind mr r0 next)) evs in
  forall r e, r_end (r_readers z r) = Some e ->
    exists i st, r_idx (r_readers z r) = Some i /\ r_start (r_readers z r) = Some st
      /\ (st <= i <= e)%nat /\ (e <= length (hist z))%nat
      /\ r_ok (r_readers z r) = true
      /\ r_got (r_readers z r) = refs (rx z) (version_at (hist z) i)
      /\ (forall f, In f (r_got (r_readers z r)) -> In f (f_present (rx z)))
      /\ (forall (row : Type) (content : fid -> list row),
            result_rows content (r_readers z r) = snapshot_rows content (rx z) (version_at (hist z) i)).
Proof. exact reader_snapshot. Qed.
Print Assumptions C02_snapshot_read.

(* ... and at every instant before it returns: no read has failed, and what it has read so far together with what
   it still has to read is the file list of the ONE version it resolved, every file of which exists. *)
Theorem C02_read_in_progress : forall c m0 kind mr r0 next evs,
  sound c -> (forall f, In f r0 -> (f < next)%nat) ->
  let z := rrun c read_budget (rinit (finit m0 kind mr r0 next)) evs in
  forall r, r_ok (r_readers z r) = true
    /\ forall v, r_vid (r_readers z r) = Some v ->
         exists i, r_idx (r_readers z r) = Some i /\ v = version_at (hist z) i
                   /\ r_got (r_readers z r) ++ r_todo (r_readers z r) = refs (rx z) v
                   /\ (forall f, In f (refs (rx z) v) -> In f (f_present (rx z))).
Proof. exact reader_in_progress. Qed.
Print Assumptions C02_read_in_progress.

(* Every read API resolves the pointer exactly once per call (counted on the source), and all six are covered. *)
Theorem C02_api_single_resolution :
  map fst read_api_resolutions = ["scan"; "to_pandas"; "scan_batches"; "iter_records"; "iter_pandas"; "row_count"]%string
  /\ forall api lo hi, In (api, (lo, hi)) read_api_resolutions -> lo = 1%nat /\ hi = 1%nat.
Proof. exact api_single_resolution. Qed.
Print Assumptions C02_api_single_resolution.

(* The single resolution is necessary: with two resolutions per call the conclusion "the files read are those of
   one version" fails (witness: Proofs/ReaderProofs.v two_res_events), and holds with one. *)
Theorem C02_snapshot_read_needs_single_resolution : ~ snapshot_read_full 2 /\ snapshot_read_full 1.
Proof. exact snapshot_read_needs_single_resolution. Qed.
Print Assumptions C02_snapshot_read_needs_single_resolution.

(* Successive reads never move backwards in commit order: if call r1 had returned when call r2 started (two
   successive calls through one handle; stated with the weaker hypothesis that no more flips had happened at r1's
   return than at r2's start), r1 resolved the pointer at an index i1 <= i2, and the flips r1 had seen are a prefix
   of the flips r2 saw. *)
Theorem C02_monotone : forall c m0 kind mr r0 next evs,
  sound c -> (forall f, In f r0 -> (f < next)%nat) ->
  let z := rrun c read_budget (rinit (finit m0 kind mr r0 next)) evs in
  forall r1 r2 e1 s2 i2,
    r_end (r_readers z r1) = Some e1 -> r_start (r_readers z r2) = Some s2 -> (e1 <= s2)%nat ->
    r_idx (r_readers z r2) = Some i2 ->
    exists i1, r_idx (r_readers z r1) = Some i1 /\ (i1 <= i2)%nat
      /\ firstn i1 (hist z) = firstn i1 (firstn i2 (hist z)).
Proof. exact reads_monotone. Qed.
Print Assumptions C02_monotone.

(* A multi-operation transaction becomes visible all at once or not at all.  Code fact (counted on the source): one
   attempt of Transaction.commit reaches the commit protocol exactly once, snapshot deletion at most once.  Model: a
   transaction is one operation identifier; no transaction flips the pointer twice, and the operations visible after
   the first i flips are the initial ones followed by exactly the transactions of those i flips -- a transaction is in
   no version before its flip and whole in every version from it on. *)
Theorem C02_txn_atomic :
  txn_commits_per_attempt = (1, 1)%nat /\ snd delete_snapshot_commits = 1%nat
  /\ forall c m0 kind mr r0 next evs,
       sound c -> (forall f, In f r0 -> (f < next)%nat) ->
       let w := fw (frun c (finit m0 kind mr r0 next) evs) in
       NoDup (map snd (w_hist w))
       /\ forall i, m_ops (nthf (w_files w) (version_at (w_hist w) i))
                    = m_ops (nthf (w_files w) 0%nat) ++ map snd (firstn i (w_hist w)).
Proof. exact txn_atomic. Qed.
Print Assumptions C02_txn_atomic.

(* Non-vacuity.  Reader 0 starts, writer 0 commits, the reader resolves (sees version 1), writer 1 commits, writer 2
   fails and rolls back its file, the reader reads both files of version 1 and returns: i = 1 lies in [0, 2], all
   reads succeeded, what it read is the file list of version 1 ([0; 1]) although version 2 ([0; 1; 2]) is current
   and file 3 came and went.  Reader 1 then starts and resolves: i = 2 >= 1. *)
Definition ev a k := {| e_actor := a; e_kind := k |}.
Definition ex_cfg := {| cas := false; lockkind := Excl |}.
Definition ex_init := rinit (finit {| m_ops := []; m_cur := 1; m_lu := 100 |} (fun _ => KFresh) (fun _ => 50%nat) [0]%nat 1%nat).
Definition ex_events : list revent :=
  ([RStart 0; RSys (FWrite 0)] ++ map (fun e => RSys (FProto e)) (commit_script 0 0 100)
   ++ [RPtr 0; RSys (FWrite 1)] ++ map (fun e => RSys (FProto e)) (commit_script 1 1 100)
   ++ [RSys (FWrite 2); RSys (FProto (ev 2 (EBegin 2))); RSys (FProto (ev 2 EAbort)); RSys (FRollback 2);
       RFile 0; RFile 0; REnd 0; RStart 1; RPtr 1])%nat.
Example C02_nonvacuous :
  let z := rrun ex_cfg read_budget ex_init ex_events in
  r_vid (r_readers z 0%nat) = Some 1%nat /\ r_idx (r_readers z 0%nat) = Some 1%nat /\ r_start (r_readers z 0%nat) = Some 0%nat
  /\ r_end (r_readers z 0%nat) = Some 2%nat /\ r_ok (r_readers z 0%nat) = true /\ r_got (r_readers z 0%nat) = [0; 1]%nat
  /\ refs (rx z) 1%nat = [0; 1]%nat /\ refs (rx z) 2%nat = [0; 1; 2]%nat /\ f_present (rx z) = [2; 1; 0]%nat
  /\ map snd (hist z) = [0; 1]%nat
  /\ r_start (r_readers z 1%nat) = Some 2%nat /\ r_idx (r_readers z 1%nat) = Some 2%nat /\ r_vid (r_readers z 1%nat) = Some 2%nat.
Proof. vm_compute. repeat split. Qed.

(* ... and the two-resolution witness really returns a mixture: file 0 of version 0, then files 0 and 1 of version 1 *)
Example C02_two_resolutions_mix :
  let z := rrun two_res_cfg 2 (rinit (finit {| m_ops := []; m_cur := 1; m_lu := 50 |} (fun _ => KFresh) (fun _ => 50%nat) [0%nat] 1%nat)) two_res_events in
  r_end (r_readers z 0%nat) = Some 1%nat /\ r_got (r_readers z 0%nat) = [0; 0; 1]%nat
  /\ refs (rx z) 0%nat = [0]%nat /\ refs (rx z) 1%nat = [0; 1]%nat.
Proof. vm_compute. repeat split. Qed.

(* A transaction that loses a race is retried by the library.  What a retried attempt publishes is decided by three things;
   the first is a theorem, the other two are FACTS COUNTED ON THE SOURCE by translator/gen_fileops.py (booleans that the
   translator computes from the AST of Transaction.commit / _commit_file_ops on every run -- not theorems about a model of
   the retry loop, which Coq does not have):
     (1) gen_partition -- REGENERATED from the partitioning loop -- maps a queue to exactly its appended files, its paths
         to delete and its largest expiry cutoff, nothing dropped and nothing invented (proved below, for every queue);
     (2) gen_partition_per_attempt: the three accumulators are initialised and filled INSIDE the body of the retry loop
         (after that attempt's refresh()), from self._operations, which commit() never edits;
     (3) gen_partition_args_kept: no statement after the partition loop, in commit() or in _commit_file_ops (which
         receives them), rebinds, augments, aliases or calls a mutating method on an accumulator.
   (2) and (3) are what makes every attempt see (1)'s result of the WHOLE queue; when either is false this theorem no
   longer proves and the check searches for the history (a delete+append transaction losing a race: the scheduled
   oracle of harness/props/c02.py).  The theorem is the conjunction -- it does not pretend to derive "every attempt". *)
Theorem C02_retry_whole_queue :
  (GenFileOps.gen_partition_per_attempt = true /\ GenFileOps.gen_partition_args_kept = true)
  /\ forall ops,
       let '(a, d, e) := GenFileOps.gen_partition ops in
       (forall f, In f a <-> exists fs, In (Meta.TAppend fs) ops /\ In f fs)
       /\ (forall p, In p d <-> exists ps, In (Meta.TDelete ps) ops /\ In p ps)
       /\ (forall c, In (Meta.TExpire c) ops -> exists e', e = Some e' /\ (c <= e')%Z)
       /\ ((forall c, ~ In (Meta.TExpire c) ops) -> e = None).
Proof. exact (conj TxQueueProofs.attempt_facts_hold TxQueueProofs.partition_whole_queue). Qed.
Print Assumptions C02_retry_whole_queue.
