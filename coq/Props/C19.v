(* Props/C19.v -- Locks exclude, time out, and never report a lock that is not held.
   Only theorem statements, each closed by `exact <lemma>`, with Print Assumptions beneath.

   Local lock (Model/FLock.v): FileLock in flock mode over a kernel model {path -> inode,
   open file descriptions, flock holder per inode}.  The kernel's flock decision is the PARAMETER
   `grant`; the theorems assume only `flock_excl grant` (an exclusive flock is granted on an inode
   only when no other open file description holds it) -- the one fact about Linux that is not proved
   here; it is exercised by the harness (real flock under every schedule, multi-process stress).
   Quantification: every event list = every interleaving of ANY number of clients at primitive
   granularity (clock read / open / flock / close / sleep), any clock advances, any process deaths.

   S3 lock (Model/Lock.v): the conditional-write lock over a strongly consistent object store with
   atomic requests, fresh ETags, a skew-free clock, request faults (no effect / permanent / reply
   lost after the effect), client deaths, renewals at arbitrary moments, and an ENVIRONMENT that may
   change at any moment (event SEnv): the process's local time zone (TZ / tzset / DST switch) and the
   rendering of LastModified in head replies (aware at any utcoffset, or naive).  The age test is the
   kernel regenerated from S3LockProvider._try_takeover_expired (Gen/GenLockAge.v, translator/
   gen_lockage.py) over the datetime model Model/PyTime.v; every S3 theorem below quantifies over all
   event lists and hence over all zone / rendering histories.

   C19_s3_mutex is NOT a theorem of the code as it stands: release() is GET-then-unconditional-
   DELETE, and a releaser paused past its lease deletes its successor's lock.  The full statement is
   the Definition s3_mutex_full (Model/Lock.v; its first argument cd = false is the code as it stands,
   cd = true a variant with a conditional DELETE); C19_s3_mutex_refuted exhibits the schedule;
   C19_s3_mutex_partial proves mutual exclusion for every run in which no release's DELETE lands
   after the releaser's own lease lapsed (ghost flag late_delete = false). *)
From Coq Require Import ZArith NArith List Bool.
Require Import DS.Model.PyTime DS.Model.FLock DS.Model.Lock DS.Gen.GenLockConst DS.Gen.GenLockAge
               DS.Proofs.FLockProofs DS.Proofs.LockAgeProofs DS.Proofs.LockProofs DS.Proofs.LockEnvProofs.
Import ListNotations.
Open Scope Z_scope.

(* ------------------------------------------------------------------------------------------------
   Local lock
   ------------------------------------------------------------------------------------------------ *)

(* At most one live client reports is_held() (outside the two instructions at the end of release()),
   and whoever does is the kernel-level flock holder of the one lock inode through its own descriptor. *)
Theorem C19_flock_mutex : forall (grant : option ofd -> ofd -> bool) (poll : Z), flock_excl grant ->
  forall evs : list fevent, no_unlink evs ->
  let s := frun grant poll finit evs in
  (forall c1 c2 : cid, holding s c1 -> holding s c2 -> c1 = c2)
  /\ (forall c : cid, holding s c ->
        exists (fd : ofd) (i : inode),
          names s = Some i /\ lock_fd (cl s c) = Some fd /\ ofdt s fd = Some (c, i) /\ holder s i = Some fd).
Proof. exact flock_mutex. Qed.
Print Assumptions C19_flock_mutex.

(* No client step removes the directory entry (only the environment event EUnlink does), hence all open
   descriptions of all clients refer to ONE inode, the one the path names. *)
Theorem C19_flock_same_inode : forall (grant : option ofd -> ofd -> bool) (poll : Z), flock_excl grant ->
  forall evs : list fevent, no_unlink evs ->
  let s := frun grant poll finit evs in
  forall (o1 o2 : ofd) (c1 c2 : cid) (i1 i2 : inode),
    ofdt s o1 = Some (c1, i1) -> ofdt s o2 = Some (c2, i2) -> i1 = i2 /\ names s = Some i1.
Proof. exact flock_same_inode. Qed.
Print Assumptions C19_flock_same_inode.

(* Why release() must not delete the lock file: with an unlink in the schedule (the environment event
   EUnlink; no client program contains one) two clients hold "the" lock at once, on two inodes. *)
Theorem C19_flock_unlink_breaks_mutex :
  let s := frun kernel_grant poll_ms finit unlink_witness in holding s 0%N /\ holding s 1%N.
Proof. exact flock_mutex_needs_no_unlink. Qed.
Print Assumptions C19_flock_unlink_breaks_mutex.

(* A holder's death frees the lock, and any waiter then succeeds on its next flock attempt (and is the
   only holder).  `flock_free`: the kernel grants a free inode. *)
Theorem C19_flock_death : forall (grant : option ofd -> ofd -> bool) (poll : Z), flock_excl grant -> flock_free grant ->
  forall (evs : list fevent) (cs : list cid) (c w : cid) (fd : ofd), no_unlink evs ->
  let s := frun grant poll finit evs in
  holding s c -> In c cs ->
  let s' := fstep grant poll s (EDie cs) in
  (forall i : inode, names s' = Some i -> holder s' i = None)
  /\ (alive (cl s' w) = true -> pc (cl s' w) = PFlock fd ->
      let s'' := fstep grant poll s' (EStep w) in
      holding s'' w /\ res (cl s'' w) = ROk /\ (forall w' : cid, holding s'' w' -> w' = w)).
Proof. exact flock_death. Qed.
Print Assumptions C19_flock_death.

(* TimeoutError is raised no earlier than the deadline and no later than one clock-read gap after it
   (maxgap = the largest advance of the clock between two consecutive clock reads of this acquire();
   = the poll interval when time passes only in this client's sleeps), and the loop goes round at most
   timeout/poll + 1 times: every sleep lasts at least `poll`. *)
Theorem C19_flock_timeout : forall (grant : option ofd -> ofd -> bool) (poll : Z) (evs : list fevent) (c : cid),
  let s := frun grant poll finit evs in
  let x := cl s c in
  (res x = RTimeout ->
     deadline x = start x + timeout x /\ deadline x <= ret_time x
     /\ ret_time x <= Z.max (start x) (start x + timeout x) + maxgap x)
  /\ (0 < iters x -> (iters x - 1) * poll < timeout x)
  /\ (forall u : Z, pc x = PSleep u -> start x + (iters x + 1) * poll <= u /\ iters x * poll < timeout x).
Proof. exact flock_timeout. Qed.
Print Assumptions C19_flock_timeout.

(* acquire() returns True only through a granted flock, at a moment when NO client was holding. *)
Theorem C19_flock_ok_only_when_free : forall (grant : option ofd -> ofd -> bool) (poll : Z), flock_excl grant ->
  forall (evs : list fevent) (c : cid), no_unlink evs ->
  let s := frun grant poll finit evs in
  let s' := fstep grant poll s (EStep c) in
  res (cl s c) <> ROk -> res (cl s' c) = ROk -> (forall c' : cid, ~ holding s c') /\ holding s' c.
Proof. exact flock_ok_only_when_free. Qed.
Print Assumptions C19_flock_ok_only_when_free.

(* ------------------------------------------------------------------------------------------------
   S3 conditional-write lock
   ------------------------------------------------------------------------------------------------ *)

(* Ownership of an existing lock object passes to another client only when the object's age exceeds
   the lease at that very instant (and the new object is stamped with that instant). *)
Theorem C19_s3_takeover_after_lease : forall (cd : bool) (lease rsleep : Z) (evs : list sevent) (ev : sevent) (o o' : lobj),
  let s := srun cd lease rsleep sinit evs in
  let s' := sstep cd lease rsleep s ev in
  obj s = Some o -> obj s' = Some o' -> owner o' <> owner o ->
  snow s - lm o > lease /\ lm o' = snow s.
Proof. exact s3_takeover_after_lease. Qed.
Print Assumptions C19_s3_takeover_after_lease.

(* The lease-age kernel of the source, for EVERY process zone, every instant and every utcoffset the
   reply's LastModified is written in: the age is the difference of the two instants (zone and offsets
   cancel); a naive LastModified makes the expression raise. *)
Theorem C19_s3_age_any_zone_any_rendering : forall (zone now inst lease : Z) (r : option Z),
  takeover_age zone now (dt_render r inst) lease = match r with Some _ => Some (now - inst) | None => None end.
Proof. exact takeover_age_render. Qed.
Print Assumptions C19_s3_age_any_zone_any_rendering.

(* ... and in the lock machine, in any state (any zone, any rendering carried by the head reply): the
   client goes on to the conditional PUT exactly when the object's age exceeds the lease at that instant;
   with a naive LastModified acquire() ends with the exception -- no request, no change of belief (fails
   closed, never a success). *)
Theorem C19_s3_age_test_in_any_environment :
  forall (cd : bool) (lease rsleep : Z) (s : sstate) (c : N) (f : fault) (j l : Z) (e : N) (r : option Z),
  s_alive (scl s c) = true -> s_pc (scl s c) = QAge l e r ->
  let s' := sstep cd lease rsleep s (SStep c f j) in
  obj s' = obj s /\ snow s' = snow s /\ is_locked (scl s' c) = is_locked (scl s c)
  /\ match r with
     | Some _ => s_pc (scl s' c) = (if snow s - l <=? lease then QTimeChk else QTake l e)
                 /\ s_res (scl s' c) = s_res (scl s c)
     | None => s_pc (scl s' c) = QIdle /\ s_res (scl s' c) = SRaised
     end.
Proof. exact s3_age_test. Qed.
Print Assumptions C19_s3_age_test_in_any_environment.

(* The environment is invisible.  For EVERY event list whose environment events render LastModified as an
   aware datetime (at any utcoffset; any process zone; changing at any moments): erasing those events leaves
   the lock object, the ETag counter, the clock, every client's record and program counter and the whole
   request / result trace unchanged (env_sim, Model/Lock.v) -- by simulation over every step of the machine. *)
Theorem C19_s3_environment_irrelevant : forall (cd : bool) (lease rsleep : Z) (evs : list sevent),
  forallb aware_ev evs = true ->
  env_sim (srun cd lease rsleep sinit evs) (srun cd lease rsleep sinit (strip_env evs)).
Proof. exact s3_environment_irrelevant. Qed.
Print Assumptions C19_s3_environment_irrelevant.

(* Hence two processes in ANY two zone / rendering histories that are given the same calls, steps, faults,
   renewals, clock advances and deaths behave identically: what one lock client does can never depend on TZ. *)
Theorem C19_s3_same_in_every_environment : forall (cd : bool) (lease rsleep : Z) (evs1 evs2 : list sevent),
  forallb aware_ev evs1 = true -> forallb aware_ev evs2 = true -> strip_env evs1 = strip_env evs2 ->
  env_sim (srun cd lease rsleep sinit evs1) (srun cd lease rsleep sinit evs2).
Proof. exact s3_same_in_every_environment. Qed.
Print Assumptions C19_s3_same_in_every_environment.

(* Why the kernel is regenerated rather than assumed: an age taken from the FIELDS of LastModified read as
   local time (time.mktime(lm.timetuple()), a naive .timestamp()) is the true age plus the process's UTC
   offset; in any zone east of UTC by more than the lease, a lock written at this very instant fails the
   `age <= lease` guard, i.e. would be taken over at age 0. *)
Theorem C19_s3_local_field_age_is_zone_shifted : forall (zone now inst : Z),
  age_by_local_fields zone now (dt_aware inst 0) = (now - inst) + zone.
Proof. exact age_by_local_fields_shifted. Qed.
Print Assumptions C19_s3_local_field_age_is_zone_shifted.

Theorem C19_s3_local_field_age_premature : forall (zone lease now : Z),
  0 <= lease < zone -> takeover_keeps (age_by_local_fields zone now (dt_aware now 0)) lease = false.
Proof. exact age_by_local_fields_premature. Qed.
Print Assumptions C19_s3_local_field_age_premature.

(* Once the lock object is somebody else's (a takeover landed) and as long as `a` does not call
   acquire() again: the object never becomes a's, no is_held() of a returns True, no renewal of a has any
   effect on the store, and a served renewal makes a drop is_locked. *)
Theorem C19_s3_superseded : forall (cd : bool) (lease rsleep : Z) (evs1 evs2 : list sevent) (a : N),
  let s1 := srun cd lease rsleep sinit evs1 in
  foreign s1 a ->
  forallb (fun ev : sevent => negb (is_acquire_of a ev)) evs2 = true ->
  let s2 := srun cd lease rsleep s1 evs2 in
  foreign s2 a
  /\ (forall (f : fault) (j : Z),
        s_res (scl s2 a) <> STrue -> s_res (scl (sstep cd lease rsleep s2 (SStep a f j)) a) <> STrue)
  /\ (forall f : fault, obj (sstep cd lease rsleep s2 (SRenew a f)) = obj s2)
  /\ (forall e : N,
        s_alive (scl s2 a) = true -> hb (scl s2 a) = true -> is_locked (scl s2 a) = true ->
        my_etag (scl s2 a) = Some e ->
        is_locked (scl (sstep cd lease rsleep s2 (SRenew a FNone)) a) = false).
Proof. exact s3_superseded. Qed.
Print Assumptions C19_s3_superseded.

(* is_held() returns True only as the reply to a served GET whose body is the caller's own lock id:
   the caller owned the object at the time of the read.  (Any state, reachable or not.) *)
Theorem C19_s3_is_held_sound : forall (cd : bool) (lease rsleep : Z) (s : sstate) (ev : sevent) (c : N),
  s_res (scl s c) <> STrue -> s_res (scl (sstep cd lease rsleep s ev) c) = STrue ->
  exists (f : fault) (j : Z) (second : bool) (o : lobj),
    ev = SStep c f j /\ s_pc (scl s c) = QHeldGet second /\ obj s = Some o /\ owner o = c.
Proof. exact s3_is_held_sound. Qed.
Print Assumptions C19_s3_is_held_sound.

(* TimeoutError is raised at a reading t with start+timeout <= t, and t < start+timeout+maxgap
   (maxgap = the largest clock advance between two consecutive time.time() readings of this acquire();
   at most the longest sleep, 0.9 s, when time passes only in this client's sleeps). *)
Theorem C19_s3_timeout : forall (cd : bool) (lease rsleep : Z) (evs : list sevent) (c : N),
  let x := scl (srun cd lease rsleep sinit evs) c in
  s_res x = STimeout ->
  s_start x + s_timeout x <= t_ret x
  /\ t_ret x <= Z.max (s_start x) (s_start x + s_timeout x) + s_maxgap x
  /\ (0 < s_timeout x -> t_ret x < s_start x + s_timeout x + s_maxgap x).
Proof. exact s3_timeout. Qed.
Print Assumptions C19_s3_timeout.

(* acquire() returns True only when the lock object was absent or older than the lease at the instant
   its conditional write landed -- never while another holder's object is within its lease. *)
Theorem C19_s3_ok_only_when_unowned : forall (cd : bool) (lease rsleep : Z) (evs : list sevent) (ev : sevent) (c : N),
  let s := srun cd lease rsleep sinit evs in
  s_res (scl s c) <> SOk -> s_res (scl (sstep cd lease rsleep s ev) c) = SOk ->
  (obj s = None \/ (exists o : lobj, obj s = Some o /\ snow s - lm o > lease))
  /\ obj (sstep cd lease rsleep s ev) = Some (fresh_obj s c).
Proof. exact s3_ok_only_when_unowned. Qed.
Print Assumptions C19_s3_ok_only_when_unowned.

(* FULL statement (Definition s3_mutex_full lease rsleep := forall evs, s3_mutex_at lease (srun ... evs)):
   at every instant at most one client is a live holder (believes it holds, has not started releasing,
   lease counted from its last acknowledged write not lapsed).  FALSE of the code as it stands: *)
Theorem C19_s3_mutex_refuted : ~ s3_mutex_full false default_lease_ms held_retry_sleep_ms.
Proof. exact s3_mutex_refuted. Qed.
Print Assumptions C19_s3_mutex_refuted.

(* The hypothesis of C19_s3_mutex_partial cannot be weakened to "the DELETE lands within one lease of the
   release's own GET": a run where it lands 1.002 s after the GET and two holders are live. *)
Theorem C19_s3_mutex_gap_hypothesis_insufficient :
  let s := srun false default_lease_ms held_retry_sleep_ms sinit gap_witness in
  holder_live default_lease_ms s 1%N /\ holder_live default_lease_ms s 2%N /\ snow s = 60002 /\ late_delete s = true.
Proof. exact release_gap_hypothesis_insufficient. Qed.
Print Assumptions C19_s3_mutex_gap_hypothesis_insufficient.

(* ... and TRUE for every run in which no release()'s DELETE landed after the releaser's own lease had
   lapsed; then every live holder is moreover the owner of the lock object. *)
Theorem C19_s3_mutex_partial : forall (lease rsleep : Z) (evs : list sevent),
  let s := srun false lease rsleep sinit evs in
  late_delete s = false ->
  s3_mutex_at lease s
  /\ (forall c : N, holder_live lease s c -> exists o : lobj, obj s = Some o /\ owner o = c).
Proof. exact s3_mutex_partial_unconditional. Qed.
Print Assumptions C19_s3_mutex_partial.

(* The repair the finding calls for, checked in the same model: if release()'s DELETE is conditional on the
   releaser's own ETag (cd = true), the FULL mutual-exclusion statement holds for every run.  (Not what
   the code does; S3 If-Match on DELETE is not universally available.) *)
Theorem C19_s3_mutex_conditional_delete : forall (lease rsleep : Z), s3_mutex_full true lease rsleep.
Proof. exact s3_mutex_conditional_delete. Qed.
Print Assumptions C19_s3_mutex_conditional_delete.

(* ------------------------------------------------------------------------------------------------
   Non-vacuity: the hypotheses are met by concrete, non-trivial reachable states.
   ------------------------------------------------------------------------------------------------ *)
(* client 0 holds, client 1 is parked in front of its flock attempt, client 0's process dies, client 1 wins *)
Definition ex_flock : list fevent :=
  [ECallAcquire 0%N true 1000; EStep 0%N; EStep 0%N; EStep 0%N;
   ECallAcquire 1%N true 1000; EStep 1%N; EStep 1%N].

(* in a process 9 h east of UTC, replies rendering LastModified at -8 h:
   A acquires at 0 and renews at 20 s; at 90 s B takes over; A then asks is_held() *)
Definition ex_s3 : list sevent :=
  [SEnv 32400000 (Some (-28800000)); SCall 0%N (CAcquire 2000); SStep 0%N FNone 300; SStep 0%N FNone 300; STick 20000; SRenew 0%N FNone;
   STick 70000; SCall 1%N (CAcquire 2000); SStep 1%N FNone 300; SStep 1%N FNone 300; SStep 1%N FNone 300;
   SStep 1%N FNone 300].

Example C19_nonvacuous :
  flock_excl kernel_grant /\ flock_free kernel_grant /\ no_unlink ex_flock
  /\ (let s := frun kernel_grant poll_ms finit ex_flock in
      holding s 0%N /\ pc (cl s 1%N) = PFlock 1%N
      /\ let s'' := fstep kernel_grant poll_ms (fstep kernel_grant poll_ms s (EDie [0%N])) (EStep 1%N) in
         res (cl s'' 1%N) = ROk)
  /\ (let s := srun false default_lease_ms held_retry_sleep_ms sinit ex_s3 in
      let s' := sstep false default_lease_ms held_retry_sleep_ms s (SStep 1%N FNone 300) in
      late_delete s' = false
      /\ (exists o o', obj s = Some o /\ obj s' = Some o' /\ owner o = 0%N /\ owner o' = 1%N /\ lm o = 20000 /\ snow s = 90000)
      /\ holder_live default_lease_ms s' 1%N /\ is_locked (scl s' 0%N) = true /\ foreign s' 0%N)
  /\ forallb aware_ev ex_s3 = true /\ length (strip_env ex_s3) = 11%nat /\ length ex_s3 = 12%nat.
Proof.
  split; [exact kernel_grant_excl|]. split; [exact kernel_grant_free|].
  split.
  - unfold no_unlink, ex_flock. simpl. intuition discriminate.
  - vm_compute. repeat split; try discriminate; try (intros o H; inversion H; subst; simpl; discriminate).
    do 2 eexists. repeat split.
Qed.

(* ------------------------------------------------------------------------------------------------
   Local lock across PROCESSES, under every process topology (Model/ProcLock.v + Model/ProcFork.v; imported here,
   after the statements above, so that their names shadow nothing they use).
   Writers are FileLock handles placed in OS processes by an ARBITRARY `proc : hid -> pid`: separate processes,
   several handles in one process, and processes created by fork().  A fork is the kernel's: `PFork p p' tw` copies
   EVERY handle object of p and EVERY open descriptor of p (tw = which handle of p' is the copy of which handle of p;
   the event is enabled only when tw covers every reference to an open description held in p -- a schedule cannot
   fork "just the idle handle" of a process whose other handle holds), each inherited descriptor sharing the parent's
   open file description; the kernel's lock belongs to the description (gen_lock_disc, regenerated from the primitive
   the source calls: Gen/GenFileLock.v), goes away with an unlock through it or with the LAST descriptor of it, and a
   process death closes the descriptors of that process only.  Every handle runs the regenerated program of
   FileLock._try_acquire_once / release one kernel primitive per event, and EVERY event list is a schedule.

   HYPOTHESIS on the environment, in every `_quiescent_partial` statement: `pforks_quiescent` -- at a fork NO handle
   of the forking process is inside an acquisition (attempt in progress, holding, inside release()).  The property
   text says "across threads and processes under any schedule", and a fork from inside a commit (a worker pool started
   by another thread) IS a schedule: the statements without the hypothesis are the `_full` Definitions, and they are
   FALSE (`_full_refuted`) -- that is fork(2) duplicating a holder, not a defect of FileLock; the process-family runs
   of the harness judge the copies of a holder made by a fork as ONE acquisition.
   ------------------------------------------------------------------------------------------------ *)
Require Import DS.Model.ProcLockBase DS.Gen.GenFileLock DS.Model.ProcLock DS.Model.ProcLockKeep DS.Model.ProcFork.
Require DS.Proofs.ProcLockProofs DS.Proofs.ProcLockC19Proofs DS.Proofs.ProcForkProofs.
Close Scope Z_scope.

(* At most one handle holds, among all handles of all processes, forked workers included; the handle that holds
   (flag set, not inside release()) is exactly the one whose description the kernel names as the lock's owner.
   What is_held() RETURNS is the flag `_locked` (lflag), and release() clears it only after the unlock and the close:
   the flag is set exactly for the kernel's owner and for a handle inside its own release() (in_release: unlocked,
   descriptor not yet closed), and for the latter the kernel lock is ALREADY GONE -- "never reports a lock that is
   not held" holds outside release() only (the owner thread is inside release(), not at a commit fence; see
   C19_proc_flag_is_owner_full_refuted for two flags at once). *)
Theorem C19_proc_mutex_quiescent_partial : forall (proc : hid -> pid) evs,
  pforks_quiescent gen_lock_disc proc linit evs ->
  let s := prun gen_lock_disc proc linit evs in
  (forall h1 h2, lholds s h1 -> lholds s h2 -> h1 = h2)
  /\ (forall h, lholds s h <-> lock_view s = Some h)
  /\ (forall h, lflag s h <-> (lock_view s = Some h \/ in_release s h))
  /\ (forall h, in_release s h -> lock_view s <> Some h /\ ~ lholds s h).
Proof. exact ProcForkProofs.pgen_mutex_and_flag. Qed.
Print Assumptions C19_proc_mutex_quiescent_partial.

(* The full statement -- any schedule, forks from inside an acquisition included -- and its refutation: a process
   forks while its handle holds; parent and child both hold. *)
Definition C19_proc_mutex_full : Prop := ProcForkProofs.proc_mutex_full.
Theorem C19_proc_mutex_full_refuted : ~ C19_proc_mutex_full.
Proof. exact ProcForkProofs.proc_mutex_full_refuted. Qed.
Print Assumptions C19_proc_mutex_full_refuted.

(* "the handle whose flag is set is the kernel's owner, and at most one flag is set" without the exception for
   release(), and its refutation (quiescent forks -- none at all): handle 0 is inside release() after the unlock,
   handle 1 is granted: both flags are set. *)
Definition C19_proc_flag_is_owner_full : Prop := ProcForkProofs.proc_flag_is_owner_full.
Theorem C19_proc_flag_is_owner_full_refuted : ~ C19_proc_flag_is_owner_full.
Proof. exact ProcForkProofs.proc_flag_is_owner_full_refuted. Qed.
Print Assumptions C19_proc_flag_is_owner_full_refuted.

(* A holder's death releases the lock: after the death of the holder's process nobody holds, and EVERY idle handle of
   another process -- a separate process, a forked sibling, the forked parent -- is granted on its next attempt and
   is then the only holder. *)
Theorem C19_proc_death_frees_quiescent_partial : forall (proc : hid -> pid) evs h,
  pforks_quiescent gen_lock_disc proc linit evs ->
  let s := prun gen_lock_disc proc linit evs in
  lholds s h ->
  exists s', pstep gen_lock_disc proc s (PEv (LKill (proc h))) = Some s' /\ lock_view s' = None /\ (forall k, ~ lholds s' k)
    /\ (forall w, l_h s w = HIdle -> proc w <> proc h ->
          exists s'', prun_strict gen_lock_disc proc s' (map PEv (map (LStep w) attempt_granted_events)) 0 = inl s''
                      /\ lholds s'' w /\ lock_view s'' = Some w /\ (forall k, lholds s'' k -> k = w)).
Proof. exact ProcForkProofs.pgen_death_frees. Qed.
Print Assumptions C19_proc_death_frees_quiescent_partial.

(* The full statement and its refutation, with the topology the single-handle fork of Model/ProcLock.v could not
   express: process 0 has handles 0 (idle) and 1 (holding) and forks.  (2nd conjunct) the fork that leaves handle 1's
   descriptor out is not an event; (3rd) after the whole-table fork and the death of process 0 the kernel still has
   an owner -- the child's inherited descriptor keeps the owning description open --, the dead holder's copy 3 is the
   holder, and the outsider 4 is REFUSED; (4th) when the child's process is gone as well, the outsider is granted. *)
Definition C19_proc_death_frees_full : Prop := ProcForkProofs.proc_death_frees_full.
Theorem C19_proc_death_frees_full_refuted :
  ~ C19_proc_death_frees_full
  /\ pstep gen_lock_disc ProcForkProofs.two_in_one
       (prun gen_lock_disc ProcForkProofs.two_in_one linit [PEv (LStep 1 KOpen); PEv (LStep 1 (KTry true))]%nat)
       (PFork 0 1 [(0, 2)])%nat = None
  /\ (exists s, prun_strict gen_lock_disc ProcForkProofs.two_in_one linit
                  (ProcForkProofs.fork_while_other_holds ++ [PEv (LKill 0); PEv (LStep 4 KOpen); PEv (LStep 4 (KTry false))]%nat) 0 = inl s
                /\ l_owner s <> None /\ l_h s 1%nat = HDead /\ l_h s 3%nat = HHeld 0 /\ l_h s 4%nat = HRefused 1)
  /\ (exists s, prun_strict gen_lock_disc ProcForkProofs.two_in_one linit
                  (ProcForkProofs.fork_while_other_holds ++ [PEv (LKill 0); PEv (LKill 1); PEv (LStep 4 KOpen); PEv (LStep 4 (KTry true))]%nat) 0 = inl s
                /\ lholds s 4%nat).
Proof. exact ProcForkProofs.proc_death_frees_full_refuted. Qed.
Print Assumptions C19_proc_death_frees_full_refuted.

(* acquire() succeeds only through a granted attempt, and an attempt is granted only when NO handle of any process
   holds; afterwards the acquirer is the only holder. *)
Theorem C19_proc_granted_only_when_free_quiescent_partial : forall (proc : hid -> pid) evs h s',
  pforks_quiescent gen_lock_disc proc linit evs ->
  let s := prun gen_lock_disc proc linit evs in
  pstep gen_lock_disc proc s (PEv (LStep h (KTry true))) = Some s' ->
  (forall k, ~ lholds s k) /\ lholds s' h /\ (forall k, lholds s' k -> k = h).
Proof. exact ProcForkProofs.pgen_granted_only_when_free. Qed.
Print Assumptions C19_proc_granted_only_when_free_quiescent_partial.

(* A blocked acquirer never reports success while another holder is live: once k holds, through ANY further events
   (any interleaving of any handles in any processes: polling rounds of the acquirer, other contenders, quiescent
   forks, deaths of other processes) that contain neither k's own unlock nor the death of k's process, k still
   holds, the acquirer h does not, the kernel's `granted` answer to h is not enabled and its `refused` answer is.
   SAFETY only: this machine has no clock; that the polling loop then ENDS in a timeout error within the configured
   timeout is C19_flock_timeout, a theorem of the single-process model Model/FLock.v (same handle program, with the
   deadline), not linked formally to this one. *)
Theorem C19_proc_blocked_never_succeeds_quiescent_partial : forall (proc : hid -> pid) evs evs2 k h,
  pforks_quiescent gen_lock_disc proc linit (evs ++ evs2) ->
  lholds (prun gen_lock_disc proc linit evs) k ->
  Forall (fun e => ~ ProcForkProofs.pends_holding proc k e) evs2 -> h <> k ->
  let s := prun gen_lock_disc proc linit (evs ++ evs2) in
  lholds s k /\ ~ lholds s h /\ pstep gen_lock_disc proc s (PEv (LStep h (KTry true))) = None
  /\ (forall d, l_h s h = HOpened d ->
        exists s', pstep gen_lock_disc proc s (PEv (LStep h (KTry false))) = Some s' /\ lholds s' k /\ l_h s' h = HRefused d).
Proof. exact ProcForkProofs.pgen_blocked_never_succeeds. Qed.
Print Assumptions C19_proc_blocked_never_succeeds_quiescent_partial.

(* WHY this holds of the code: the regenerated program opens the lock file per attempt and closes it on refusal and in
   release(), so an idle handle has NO descriptor of the lock file, a process whose handles are all idle has none at
   all, and its fork -- the whole table -- inherits nothing. *)
Theorem C19_proc_idle_process_has_no_descriptor_quiescent_partial : forall (proc : hid -> pid) evs,
  pforks_quiescent gen_lock_disc proc linit evs ->
  let s := prun gen_lock_disc proc linit evs in
  (forall h d, l_h s h = HIdle -> ~ In (d, h) (l_open s))
  /\ (forall p p' tw s', (forall k, proc k = p -> l_h s k = HIdle) -> pstep gen_lock_disc proc s (PFork p p' tw) = Some s' ->
        l_open s' = l_open s /\ l_next s' = l_next s /\ l_owner s' = l_owner s /\ forall k, l_h s' k = l_h s k).
Proof. exact ProcForkProofs.pgen_fork_inherits_nothing. Qed.
Print Assumptions C19_proc_idle_process_has_no_descriptor_quiescent_partial.

(* ... and what a handle that KEPT its descriptor across acquisitions would do (Model/ProcLockKeep.v: same kernel, the
   close left out).  Refutation witnesses, both strict (enabled) runs of the model under the regenerated discipline:
   (1) parent 0 goes through one acquire / release cycle, forks worker 1 while idle -- the worker inherits the kept
       descriptor --, the parent acquires, and the worker's attempt through the SHARED description is granted too: two
       holders in two processes, the blocked acquirer reports success;
   (2) the forked worker acquires and its process dies: the parent still has the shared description open, the kernel's
       lock survives the holder's death and an independent handle 2 in a third process is refused. *)
Definition c19_own_proc (h : hid) : pid := h.
Theorem C19_proc_kept_descriptor_refuted :
  (exists s, krun_strict gen_lock_disc c19_own_proc linit
               [KEv (LStep 0 KOpen); KEv (LStep 0 (KTry true)); KUnlockKeep 0; KForkKeep 0 1;
                KEv (LStep 0 (KTry true)); KEv (LStep 1 (KTry true))]%nat 0 = inl s
             /\ lholds s 0%nat /\ lholds s 1%nat /\ c19_own_proc 0%nat <> c19_own_proc 1%nat)
  /\ (exists s, krun_strict gen_lock_disc c19_own_proc linit
               [KEv (LStep 0 KOpen); KEv (LStep 0 (KTry true)); KUnlockKeep 0; KForkKeep 0 1;
                KEv (LStep 1 (KTry true)); KEv (LKill 1); KEv (LStep 2 KOpen); KEv (LStep 2 (KTry false))]%nat 0 = inl s
             /\ (forall h, ~ lholds s h) /\ l_owner s <> None /\ l_h s 1%nat = HDead).
Proof. exact ProcLockC19Proofs.kept_descriptor_refuted. Qed.
Print Assumptions C19_proc_kept_descriptor_refuted.

(* Non-vacuity of the process-topology statements: process 0 has TWO handles (0 and 1), uses both once and forks
   workers (processes 1 and 2, copies 2,3 and 4,5 of its handles: quiescent whole-process forks, enabled); the worker's
   handle 2 acquires; the parent's attempt is refused; the worker's process dies; the parent is granted; and handle 0
   inside release() has its flag set without being the owner. *)
Definition ex_proc_of (h : hid) : pid := match h with 0 | 1 => 0 | 2 | 3 => 1 | _ => 2 end%nat.
Definition ex_procs : list pevent :=
  [PEv (LStep 0 KOpen); PEv (LStep 0 (KTry true)); PEv (LStep 0 KUnlock); PEv (LStep 0 KClose);
   PEv (LStep 1 KOpen); PEv (LStep 1 (KTry true)); PEv (LStep 1 KUnlock); PEv (LStep 1 KClose);
   PFork 0 1 [(0, 2); (1, 3)]; PFork 0 2 [(0, 4); (1, 5)];
   PEv (LStep 2 KOpen); PEv (LStep 2 (KTry true)); PEv (LStep 0 KOpen); PEv (LStep 0 (KTry false)); PEv (LStep 0 KCloseRefused)]%nat.
Example C19_proc_nonvacuous :
  pforks_quiescent gen_lock_disc ex_proc_of linit ex_procs
  /\ prun_strict gen_lock_disc ex_proc_of linit ex_procs 0 = inl (prun gen_lock_disc ex_proc_of linit ex_procs)
  /\ lholds (prun gen_lock_disc ex_proc_of linit ex_procs) 2%nat
  /\ l_h (prun gen_lock_disc ex_proc_of linit ex_procs) 0%nat = HIdle
  /\ (exists s, prun_strict gen_lock_disc ex_proc_of linit
                  (ex_procs ++ [PEv (LKill 1); PEv (LStep 0 KOpen); PEv (LStep 0 (KTry true)); PEv (LStep 0 KUnlock)]%nat) 0 = inl s
                /\ in_release s 0%nat /\ lflag s 0%nat /\ lock_view s = None)
  /\ Forall (fun e => ~ ProcForkProofs.pends_holding ex_proc_of 2%nat e)
       [PEv (LStep 0 KOpen); PEv (LStep 0 (KTry false)); PEv (LStep 0 KCloseRefused)]%nat.
Proof.
  split; [vm_compute; repeat split; intros k E; destruct k as [|[|[|[|k]]]]; try discriminate E; reflexivity|].
  split; [vm_compute; reflexivity|]. split; [eexists; vm_compute; reflexivity|]. split; [vm_compute; reflexivity|].
  split.
  - eexists. split; [vm_compute; reflexivity|]. split; [eexists; vm_compute; reflexivity|].
    split; [eexists; right; vm_compute; reflexivity | vm_compute; reflexivity].
  - repeat constructor; intros [E|E]; discriminate.
Qed.
