#!/usr/bin/env python3
"""py2coq -- fail-closed translator from a small Python subset (ast) to Gallina text.

Regenerates /verif/coq/Gen/*.v from /repo/src/datashard/*.py on every check run, so the theorems
stated over the generated definitions are re-checked against what the code says now.

Fail closed: anything outside the accepted subset raises Unsupported; the generator then writes a
Gen file that does not compile (so every proof depending on it breaks) and records the reason in
Gen/status.json.  Files are rewritten only when their content changes (keeps `make` incremental).

Generators live in translator/gen_*.py and register themselves in GENERATORS.
"""
from __future__ import annotations

import argparse
import ast
import importlib
import json
import os
import pkgutil
import sys
import traceback


from core import GENERATORS, Unsupported


def main() -> int:
    ap = argparse.ArgumentParser()
    ap.add_argument("--src", required=True)
    ap.add_argument("--out", required=True)
    args = ap.parse_args()
    os.makedirs(args.out, exist_ok=True)
    here = os.path.dirname(os.path.abspath(__file__))
    sys.path.insert(0, here)
    for m in sorted(pkgutil.iter_modules([here])):
        if m.name.startswith("gen_"):
            importlib.import_module(m.name)
    status = {}
    for fname, fn in sorted(GENERATORS.items()):
        try:
            text = fn(args.src)
            status[fname] = {"ok": True}
        except Exception as e:  # fail closed
            reason = f"{type(e).__name__}: {e}"
            if not isinstance(e, Unsupported):
                reason += "\n" + traceback.format_exc()[-1500:]
            status[fname] = {"ok": False, "error": reason}
            safe = reason.replace("*)", "* )").replace("(*", "( *")
            text = (f"(* TRANSLATOR FAILED for {fname} -- fail closed.\n{safe}\n*)\n"
                    f"Definition translator_failed : False := I.\n")
        path = os.path.join(args.out, fname)
        old = None
        if os.path.exists(path):
            with open(path) as f:
                old = f.read()
        if old != text:
            with open(path, "w") as f:
                f.write(text)
    # remove stale generated files
    for f in os.listdir(args.out):
        if f.endswith(".v") and f not in GENERATORS:
            os.remove(os.path.join(args.out, f))
    with open(os.path.join(args.out, "status.json"), "w") as f:
        json.dump(status, f, indent=1)
    return 0 if all(s["ok"] for s in status.values()) else 2


if __name__ == "__main__":
    sys.exit(main())
