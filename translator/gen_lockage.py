"""GenLockAge.v -- the lease-age kernel of the conditional-write S3 lock, regenerated from the source (C19).

    S3LockProvider._try_takeover_expired           (lock_provider.py)
      takeover_age zone now lm     the value compared with the lease, as a function of
                                     zone  the process's local UTC offset (TZ / tzset), ms, east positive
                                     now   the instant of the one clock read of the age test, ms
                                     lm    the head reply's LastModified as the datetime object the client
                                           library handed back (coq/Model/PyTime.v `pydt`: fields + utcoffset / naive)
                                   `None` = the expression raises (TypeError of an aware/naive subtraction)
      takeover_keeps age lease     the guard `if <age> <= self.lease_seconds: return False` (True = the lock is
                                   left alone)

Accepted expression language (anything else: Unsupported, fail closed) -- typed NUM (seconds -> ms), DT, DELTA:
    DT    ::= datetime.now(timezone.utc) | datetime.now() | datetime.utcnow() | <head reply>['LastModified']
            | DT.replace(tzinfo=timezone.utc) | DT.replace(tzinfo=None)
    DELTA ::= DT - DT
    NUM   ::= time.time() | DT.timestamp() | time.mktime(DT.timetuple()) | calendar.timegm(DT.utctimetuple())
            | DELTA.total_seconds() | NUM - NUM | self.lease_seconds | <number>
    names bound by single top-level assignments are substituted; a call of a module-level function whose body is
    assignments + one `return` is inlined.
Checked and fail-closed rather than emitted: the head reply comes from `self.s3.head_object`; the guard is a
top-level `if` of the function whose only statement is `return False`, it precedes the conditional PUT
(`put_object(..., IfMatch=<the head reply's ETag>)`), and nothing else of the function writes to the store; the age
expression reads the clock exactly once (the model has one clock step in the age test).
"""
from __future__ import annotations

import ast
from typing import Dict, List, Optional, Tuple

from core import Unsupported, find_function, generator, parse_module, strip_docstring

Val = Tuple[str, str, bool]      # (type, Coq text, partial?)   partial: text : option T


def _chain(n: ast.AST) -> List[str]:
    out: List[str] = []
    while isinstance(n, ast.Attribute):
        out.append(n.attr)
        n = n.value
    if isinstance(n, ast.Name):
        out.append(n.id)
    else:
        out.append("?")
    return list(reversed(out))


def _ms(x, what: str) -> int:
    if not isinstance(x, (int, float)) or isinstance(x, bool):
        raise Unsupported(f"{what}: not a number: {x!r}")
    v = x * 1000
    if abs(v - round(v)) > 1e-9:
        raise Unsupported(f"{what}: {x!r} s is not a whole number of milliseconds")
    return int(round(v))


class _Tr:
    def __init__(self, mod: ast.Module, head_var: str):
        self.mod = mod
        self.head_var = head_var
        self.clock_reads = 0
        self.depth = 0

    # ---- option plumbing
    @staticmethod
    def lift1(f: str, a: Val, ty: str, f_partial: bool = False) -> Val:
        _, ta, pa = a
        if not pa:
            return (ty, f"({f} {ta})", f_partial)
        if f_partial:
            return (ty, f"(obind {ta} (fun x => {f} x))", True)
        return (ty, f"(obind {ta} (fun x => Some ({f} x)))", True)

    @staticmethod
    def lift2(f: str, a: Val, b: Val, ty: str, f_partial: bool = False) -> Val:
        _, ta, pa = a
        _, tb, pb = b
        if not pa and not pb:
            return (ty, f"({f} {ta} {tb})", f_partial)
        xa = ta if pa else f"(Some {ta})"
        xb = tb if pb else f"(Some {tb})"
        inner = f"{f} x y" if f_partial else f"Some ({f} x y)"
        return (ty, f"(obind {xa} (fun x => obind {xb} (fun y => {inner})))", True)

    def tz(self, n: Optional[ast.AST]) -> str:
        if n is None or (isinstance(n, ast.Constant) and n.value is None):
            return "None"
        if _chain(n)[-2:] == ["timezone", "utc"]:
            return "(Some 0)"
        raise Unsupported(f"time zone argument not understood: {ast.unparse(n)}")

    def expr(self, e: ast.AST, env: Dict[str, Val]) -> Val:
        if isinstance(e, ast.Name):
            if e.id in env:
                return env[e.id]
            raise Unsupported(f"name {e.id} is not bound by a simple assignment")
        if isinstance(e, ast.Constant):
            return ("NUM", f"({_ms(e.value, 'literal')})", False)
        if isinstance(e, ast.Attribute) and _chain(e) == ["self", "lease_seconds"]:
            return ("NUM", "lease", False)
        if isinstance(e, ast.Subscript) and isinstance(e.value, ast.Name) and e.value.id == self.head_var \
                and isinstance(e.slice, ast.Constant) and e.slice.value == "LastModified":
            return ("DT", "lm", False)
        if isinstance(e, ast.BinOp) and isinstance(e.op, ast.Sub):
            a, b = self.expr(e.left, env), self.expr(e.right, env)
            if a[0] == "DT" and b[0] == "DT":
                return self.lift2("dt_sub", a, b, "DELTA", True)
            if a[0] == "NUM" and b[0] == "NUM":
                return self.lift2("Z.sub", a, b, "NUM")
            raise Unsupported(f"subtraction of {a[0]} and {b[0]}: {ast.unparse(e)}")
        if isinstance(e, ast.Call):
            ch = _chain(e.func)
            kw = {k.arg: k.value for k in e.keywords}
            if None in kw:
                raise Unsupported(f"**kwargs in {ast.unparse(e)}")
            # ---- clock reads
            if ch[-2:] == ["datetime", "now"]:
                if len(e.args) + len(kw) > 1 or (kw and "tz" not in kw):
                    raise Unsupported(f"datetime.now arguments: {ast.unparse(e)}")
                self.clock_reads += 1
                return ("DT", f"(dt_now zone {self.tz(e.args[0] if e.args else kw.get('tz'))} now)", False)
            if ch[-2:] == ["datetime", "utcnow"] and not e.args and not kw:
                self.clock_reads += 1
                return ("DT", "(dt_utcnow now)", False)
            if ch == ["time", "time"] and not e.args and not kw:
                self.clock_reads += 1
                return ("NUM", "now", False)
            # ---- conversions
            if ch == ["time", "mktime"] and len(e.args) == 1 and not kw:
                a = e.args[0]
                if isinstance(a, ast.Call) and isinstance(a.func, ast.Attribute) and a.func.attr == "timetuple" and not a.args:
                    d = self.expr(a.func.value, env)
                    if d[0] == "DT":
                        return self.lift1("dt_mktime_fields zone", d, "NUM")
                raise Unsupported(f"time.mktime of something else than <datetime>.timetuple(): {ast.unparse(e)}")
            if ch == ["calendar", "timegm"] and len(e.args) == 1 and not kw:
                a = e.args[0]
                if isinstance(a, ast.Call) and isinstance(a.func, ast.Attribute) and a.func.attr == "utctimetuple" and not a.args:
                    d = self.expr(a.func.value, env)
                    if d[0] == "DT":
                        return self.lift1("dt_timegm_utcfields", d, "NUM")
                raise Unsupported(f"calendar.timegm of something else than <datetime>.utctimetuple(): {ast.unparse(e)}")
            if isinstance(e.func, ast.Attribute) and e.func.attr in ("total_seconds", "timestamp", "replace"):
                recv = self.expr(e.func.value, env)
                if e.func.attr == "total_seconds" and recv[0] == "DELTA" and not e.args and not kw:
                    return ("NUM", recv[1], recv[2])
                if e.func.attr == "timestamp" and recv[0] == "DT" and not e.args and not kw:
                    return self.lift1("dt_timestamp zone", recv, "NUM")
                if e.func.attr == "replace" and recv[0] == "DT" and not e.args and list(kw) == ["tzinfo"]:
                    tz = self.tz(kw["tzinfo"])
                    return self.lift1(f"(fun d => dt_replace_tz d {tz})", recv, "DT")
                raise Unsupported(f"method call not understood: {ast.unparse(e)}")
            # ---- module-level helper: inline
            if isinstance(e.func, ast.Name) and not kw:
                for n in self.mod.body:
                    if isinstance(n, ast.FunctionDef) and n.name == e.func.id:
                        return self.inline(n, [self.expr(a, env) for a in e.args])
            raise Unsupported(f"call not understood: {ast.unparse(e)}")
        raise Unsupported(f"expression not understood: {ast.unparse(e)}")

    def inline(self, fn: ast.FunctionDef, args: List[Val]) -> Val:
        self.depth += 1
        if self.depth > 4:
            raise Unsupported("helper functions nested too deeply")
        a = fn.args
        if a.vararg or a.kwarg or a.kwonlyargs or a.posonlyargs or a.defaults or len(a.args) != len(args):
            raise Unsupported(f"{fn.name}: signature not a plain positional one matching the call")
        env: Dict[str, Val] = {p.arg: v for p, v in zip(a.args, args)}
        body = strip_docstring(fn.body)
        for st in body[:-1]:
            if isinstance(st, ast.Assign) and len(st.targets) == 1 and isinstance(st.targets[0], ast.Name):
                if st.targets[0].id in env:
                    raise Unsupported(f"{fn.name}: {st.targets[0].id} assigned twice")
                env[st.targets[0].id] = self.expr(st.value, env)
            else:
                raise Unsupported(f"{fn.name}: statement not understood: {ast.unparse(st)[:80]}")
        if not body or not isinstance(body[-1], ast.Return) or body[-1].value is None:
            raise Unsupported(f"{fn.name}: does not end in `return <expr>`")
        v = self.expr(body[-1].value, env)
        self.depth -= 1
        return v


def _is_s3_call(n: ast.AST, name: str) -> bool:
    return isinstance(n, ast.Call) and _chain(n.func) == ["self", "s3", name]


@generator("GenLockAge.v")
def gen(src_dir: str) -> str:
    lp = parse_module(src_dir, "lock_provider.py")
    fn = find_function(lp, "_try_takeover_expired", cls="S3LockProvider")
    body = strip_docstring(fn.body)

    # every store request of the function, in source order
    reqs = [n for n in ast.walk(fn) if isinstance(n, ast.Call) and _chain(n.func)[:2] == ["self", "s3"]]
    names = sorted(_chain(n.func)[2] for n in reqs)
    if names != ["head_object", "put_object"]:
        raise Unsupported(f"_try_takeover_expired: store requests are {names}, the model has head_object then one put_object")

    head_var: Optional[str] = None
    head_at = guard_at = put_at = None
    guard: Optional[ast.If] = None
    assigns: List[Tuple[int, ast.Assign]] = []
    for i, st in enumerate(body):
        has_head = any(_is_s3_call(n, "head_object") for n in ast.walk(st))
        has_put = any(_is_s3_call(n, "put_object") for n in ast.walk(st))
        if has_head:
            if not (isinstance(st, ast.Try) and len(st.body) == 1 and isinstance(st.body[0], ast.Assign)
                    and len(st.body[0].targets) == 1 and isinstance(st.body[0].targets[0], ast.Name)
                    and _is_s3_call(st.body[0].value, "head_object")):
                raise Unsupported("_try_takeover_expired: expected `try: <resp> = self.s3.head_object(...)`")
            head_var, head_at = st.body[0].targets[0].id, i
        if has_put:
            put_at = i if put_at is None else put_at
        if isinstance(st, ast.Assign) and len(st.targets) == 1 and isinstance(st.targets[0], ast.Name):
            assigns.append((i, st))
        if isinstance(st, ast.If) and guard is None and any(_chain(n) == ["self", "lease_seconds"] for n in ast.walk(st.test)):
            guard, guard_at = st, i
    if head_var is None or guard is None or put_at is None:
        raise Unsupported("_try_takeover_expired: head request / lease guard / conditional put not found at top level")
    if not (head_at < guard_at < put_at):
        raise Unsupported("_try_takeover_expired: the lease guard does not lie between the HEAD and the conditional PUT")
    if guard.orelse or len(guard.body) != 1 or not isinstance(guard.body[0], ast.Return) \
            or not isinstance(guard.body[0].value, ast.Constant) or guard.body[0].value.value is not False:
        raise Unsupported("_try_takeover_expired: the lease guard is not `if <test>: return False`")
    for st in body[head_at + 1:put_at]:
        if st is guard or isinstance(st, ast.Assign):
            continue
        if isinstance(st, ast.Expr) and isinstance(st.value, ast.Call) and _chain(st.value.func)[0] == "logger":
            continue
        if isinstance(st, (ast.Import, ast.ImportFrom)):
            continue
        raise Unsupported(f"_try_takeover_expired: statement between HEAD and PUT not understood: {ast.unparse(st)[:80]}")

    # the conditional PUT is conditional on the head reply's ETag
    put = next(n for n in reqs if _chain(n.func)[2] == "put_object")
    kw = {k.arg: k.value for k in put.keywords}
    etag_names = {st.targets[0].id for _, st in assigns
                  if isinstance(st.value, ast.Call) and _chain(st.value.func) == [head_var, "get"]
                  and st.value.args and isinstance(st.value.args[0], ast.Constant) and st.value.args[0].value == "ETag"}
    etag_names |= {st.targets[0].id for _, st in assigns
                   if isinstance(st.value, ast.Subscript) and isinstance(st.value.value, ast.Name) and st.value.value.id == head_var
                   and isinstance(st.value.slice, ast.Constant) and st.value.slice.value == "ETag"}
    if "IfMatch" not in kw or not isinstance(kw["IfMatch"], ast.Name) or kw["IfMatch"].id not in etag_names:
        raise Unsupported("_try_takeover_expired: the takeover PUT is not If-Match on the head reply's ETag")

    seen = set()
    for i, st in assigns:
        nm = st.targets[0].id
        if nm in seen:
            raise Unsupported(f"_try_takeover_expired: {nm} assigned twice")
        seen.add(nm)

    t = guard.test
    if not (isinstance(t, ast.Compare) and len(t.ops) == 1):
        raise Unsupported(f"lease guard is not a single comparison: {ast.unparse(t)}")
    left, right, op = t.left, t.comparators[0], t.ops[0]
    l_is_lease = isinstance(left, ast.Attribute) and _chain(left) == ["self", "lease_seconds"]
    r_is_lease = isinstance(right, ast.Attribute) and _chain(right) == ["self", "lease_seconds"]
    if l_is_lease == r_is_lease:
        raise Unsupported(f"lease guard does not compare one value with self.lease_seconds: {ast.unparse(t)}")
    if r_is_lease:
        age_e = left
        cmp_ = {ast.LtE: "age <=? lease", ast.Lt: "age <? lease"}.get(type(op))
    else:
        age_e = right
        cmp_ = {ast.GtE: "age <=? lease", ast.Gt: "age <? lease"}.get(type(op))
    if cmp_ is None:
        raise Unsupported(f"lease guard comparison not of the form age <= lease: {ast.unparse(t)}")
    tr2 = _Tr(lp, head_var)
    env2: Dict[str, Val] = {}
    needed = {n.id for n in ast.walk(age_e) if isinstance(n, ast.Name)}
    changed = True
    by_name = {st.targets[0].id: st for _, st in assigns}
    while changed:
        changed = False
        for nm in list(needed):
            st = by_name.get(nm)
            if st is not None:
                for n in ast.walk(st.value):
                    if isinstance(n, ast.Name) and n.id not in needed and n.id in by_name:
                        needed.add(n.id)
                        changed = True
    for i, st in assigns:
        nm = st.targets[0].id
        if nm in needed and head_at < i < guard_at:
            env2[nm] = tr2.expr(st.value, env2)
    age = tr2.expr(age_e, env2)
    if age[0] != "NUM":
        raise Unsupported(f"the value compared with the lease is a {age[0]}, not a number of seconds: {ast.unparse(age_e)}")
    if tr2.clock_reads != 1:
        raise Unsupported(f"the age test reads the clock {tr2.clock_reads} times; the model has exactly one clock step there")
    age_txt = age[1] if age[2] else f"(Some {age[1]})"

    lines = [
        "(* GENERATED by translator/gen_lockage.py from lock_provider.py (S3LockProvider._try_takeover_expired) -- do not edit *)",
        "From Coq Require Import ZArith Bool.",
        "Require Import DS.Model.PyTime.",
        "Open Scope Z_scope.",
        "(* source: " + (ast.unparse(guard.test) + "   with   "
                         + "; ".join(ast.unparse(st) for i, st in assigns if st.targets[0].id in needed)
                         ).replace("*)", "* )").replace("(*", "( *") + " *)",
        "Definition takeover_age (zone now : Z) (lm : pydt) (lease : Z) : option Z :=",
        f"  {age_txt}.",
        "Definition takeover_keeps (age lease : Z) : bool :=",
        f"  ({cmp_}).",
        "",
    ]
    return "\n".join(lines)
