"""GenPrune.v -- filters._file_may_match, translated.

The per-expression decision inside the `try:` block is translated statement by statement into a
term of type `option bool`:
    None        a comparison raised TypeError            (the code: `except TypeError: continue`)
    Some false  `return False` was reached               (the file is pruned)
    Some true   the block fell through                   (next expression)
The surrounding loop skeleton (unknown column / missing bound => continue; TypeError => continue;
`return True` at the end) is checked against a golden AST shape and modelled by hand in
Model/Prune.v; if the skeleton changes the translator fails closed.
"""
from __future__ import annotations

import ast
from typing import List

from core import Unsupported, dump, expect_dump, find_function, generator, parse_module, strip_docstring

VALUE_NAMES = {"file_min", "file_max", "v"}

CMP = {ast.Lt: "py_lt", ast.LtE: "py_le", ast.Gt: "py_gt", ast.GtE: "py_ge", ast.Eq: "py_eq", ast.NotEq: "py_ne"}


def is_expr_value(n: ast.AST) -> bool:
    return isinstance(n, ast.Attribute) and n.attr == "value" and isinstance(n.value, ast.Name) and n.value.id == "expr"


def val(n: ast.AST) -> str:
    """A value-typed operand."""
    if isinstance(n, ast.Name) and n.id in VALUE_NAMES:
        return n.id
    if is_expr_value(n):
        return "sval"
    raise Unsupported(f"value operand not supported: {dump(n)}")


TYPE_TESTS = {"float": "is_float", "bool": "is_bool"}


def _is_isinstance(n: ast.AST) -> bool:
    return (isinstance(n, ast.Call) and isinstance(n.func, ast.Name) and n.func.id == "isinstance"
            and len(n.args) == 2 and not n.keywords)


def _isinstance(n: ast.Call) -> str:
    """isinstance(x, float|bool) -> a bool-typed Gallina term (never raises)."""
    ty = n.args[1]
    if isinstance(ty, ast.Name) and ty.id in TYPE_TESTS:
        return f"({TYPE_TESTS[ty.id]} {val(n.args[0])})"
    raise Unsupported(f"isinstance against {dump(ty)}")


def pbool(n: ast.AST, bool_vars: set) -> str:
    """A term of type option bool for a Python boolean expression (short-circuit, TypeError-aware)."""
    if (isinstance(n, ast.Compare) and len(n.ops) == 1 and isinstance(n.ops[0], (ast.NotEq, ast.Eq))
            and _is_isinstance(n.left) and _is_isinstance(n.comparators[0])):
        x = f"(xorb {_isinstance(n.left)} {_isinstance(n.comparators[0])})"
        return f"(Some {x})" if isinstance(n.ops[0], ast.NotEq) else f"(Some (negb {x}))"
    if isinstance(n, ast.Compare):
        operands = [n.left] + list(n.comparators)
        parts = []
        for a, op, b in zip(operands, n.ops, operands[1:]):
            if type(op) not in CMP:
                raise Unsupported(f"comparison operator {type(op).__name__}")
            parts.append(f"({CMP[type(op)]} {val(a)} {val(b)})")
        out = parts[-1]
        for p in reversed(parts[:-1]):
            out = f"(p_and {p} (fun _ => {out}))"
        return out
    if isinstance(n, ast.BoolOp):
        comb = "p_or" if isinstance(n.op, ast.Or) else "p_and"
        vals = [pbool(v, bool_vars) for v in n.values]
        out = vals[-1]
        for p in reversed(vals[:-1]):
            out = f"({comb} {p} (fun _ => {out}))"
        return out
    if isinstance(n, ast.UnaryOp) and isinstance(n.op, ast.Not):
        return f"(p_not {pbool(n.operand, bool_vars)})"
    if isinstance(n, ast.Name) and n.id in bool_vars:
        return f"(Some {n.id})"
    if is_expr_value(n):
        # truthiness of the IN value list
        return "(Some (negb (list_is_empty lval)))"
    if isinstance(n, ast.Call) and isinstance(n.func, ast.Name) and n.func.id == "any" and len(n.args) == 1 and not n.keywords:
        g = n.args[0]
        if not isinstance(g, ast.GeneratorExp) or len(g.generators) != 1:
            raise Unsupported("any(...) argument must be a single-clause generator expression")
        c = g.generators[0]
        if c.ifs or c.is_async or not isinstance(c.target, ast.Name) or c.target.id != "v" or not is_expr_value(c.iter):
            raise Unsupported(f"any(...) comprehension shape: {dump(c)}")
        return f"(p_any (fun v => {pbool(g.elt, bool_vars)}) lval)"
    if _is_isinstance(n):
        return f"(Some {_isinstance(n)})"
    raise Unsupported(f"boolean expression not supported: {dump(n)}")


def stmts(body: List[ast.stmt], bool_vars: set) -> str:
    if not body:
        return "(Some true)"
    s, rest = body[0], body[1:]
    if isinstance(s, ast.Return):
        if isinstance(s.value, ast.Constant) and s.value.value is False:
            return "(Some false)"
        raise Unsupported(f"return of {dump(s.value)} inside the try block")
    if isinstance(s, ast.If):
        # op dispatch?
        t = s.test
        if (isinstance(t, ast.Compare) and len(t.ops) == 1 and isinstance(t.ops[0], ast.Eq)
                and isinstance(t.left, ast.Attribute) and t.left.attr == "op"
                and isinstance(t.left.value, ast.Name) and t.left.value.id == "expr"
                and isinstance(t.comparators[0], ast.Attribute) and isinstance(t.comparators[0].value, ast.Name)
                and t.comparators[0].value.id == "FilterOp"):
            opname = t.comparators[0].attr
            if rest:
                raise Unsupported("statements after the operator if-chain")
            return (f"(if fop_eqb op {opname} then {stmts(s.body, bool_vars)}\n   else {stmts(s.orelse, bool_vars)})")
        cond = pbool(t, bool_vars)
        return (f"(p_bind {cond} (fun c_ => if c_ then {stmts(s.body + rest, bool_vars)} "
                f"else {stmts(s.orelse + rest, bool_vars)}))")
    if isinstance(s, ast.Assign) and len(s.targets) == 1 and isinstance(s.targets[0], ast.Name):
        name = s.targets[0].id
        if name in VALUE_NAMES or name in ("op", "sval", "lval"):
            raise Unsupported(f"assignment to reserved name {name}")
        e = pbool(s.value, bool_vars)
        return f"(p_bind {e} (fun {name} => {stmts(rest, bool_vars | {name})}))"
    raise Unsupported(f"statement not supported: {dump(s)}")


SKELETON = (
    "[Assign([Name('lower_bounds', Store())], BoolOp(Or(), [Attribute(Name('data_file', Load()), 'lower_bounds', Load()), Dict([], [])])), "
    "Assign([Name('upper_bounds', Store())], BoolOp(Or(), [Attribute(Name('data_file', Load()), 'upper_bounds', Load()), Dict([], [])])), "
    "For(Name('expr', Store()), Name('expressions', Load()), ["
    "Assign([Name('col_id', Store())], Call(Attribute(Name('col_name_to_id', Load()), 'get', Load()), [Attribute(Name('expr', Load()), 'column', Load())], [])), "
    "If(Compare(Name('col_id', Load()), [Is()], [Constant(None)]), [Continue()], []), "
    "Assign([Name('file_min', Store())], Call(Attribute(Name('lower_bounds', Load()), 'get', Load()), [Name('col_id', Load())], [])), "
    "Assign([Name('file_max', Store())], Call(Attribute(Name('upper_bounds', Load()), 'get', Load()), [Name('col_id', Load())], [])), "
    "If(BoolOp(Or(), [Compare(Name('file_min', Load()), [Is()], [Constant(None)]), Compare(Name('file_max', Load()), [Is()], [Constant(None)])]), [Continue()], []), "
    "Try([Pass()], [ExceptHandler(Name('TypeError', Load()), body=[Continue()])], [], [])], [], ), "
    "Return(Constant(True))]"
)


@generator("GenPrune.v")
def gen_prune(src: str) -> str:
    mod = parse_module(src, "filters.py")
    fn = find_function(mod, "_file_may_match")
    args = [a.arg for a in fn.args.args]
    if args != ["data_file", "expressions", "col_name_to_id"]:
        raise Unsupported(f"_file_may_match signature changed: {args}")
    body = strip_docstring(fn.body)
    # locate the try block and replace its body by `pass` for the skeleton comparison
    try:
        loop = body[2]
        tr = loop.body[-1]
        assert isinstance(loop, ast.For) and isinstance(tr, ast.Try)
    except Exception:
        raise Unsupported("_file_may_match: loop/try skeleton not found")
    try_body = tr.body
    tr.body = [ast.Pass()]
    got = dump(body)
    tr.body = try_body
    import re
    norm = lambda s: re.sub(r"\s+", "", s).replace(",)", ")")
    if norm(got) != norm(SKELETON):
        raise Unsupported(f"_file_may_match skeleton changed.\n expected {SKELETON}\n got      {got}")
    term = stmts(try_body, set())
    return f"""(* GENERATED by translator/gen_prune.py from src/datashard/filters.py::_file_may_match -- do not edit *)
From Coq Require Import ZArith List Bool.
Require Import DS.Model.Value.
Import ListNotations.

Definition list_is_empty {{A}} (l : list A) : bool := match l with [] => true | _ => false end.

(* The body of the try block for one filter expression.
   op: expr.op; file_min/file_max: the decoded bounds (both present);
   sval: expr.value for the scalar operators; lval: expr.value for IN (a list). *)
Definition gen_try_body (op : fop) (file_min file_max sval : value) (lval : list value) : option bool :=
  {term}.
"""
